"""C16 — concurrent evaluations in separate environments do not interfere."""
from __future__ import annotations

import ast
import json
import os
import random
import subprocess
import sys
import threading
import time
from typing import Any, Dict, List, Optional, Tuple

from ..core import Prop, case_key

STEP_TIMEOUT = 20.0       # seconds a scheduled thread may take to reach its next scheduling point


class ToolTimeout(subprocess.TimeoutExpired):
    """a harness timeout: the check exits 2, never 1"""

    def __init__(self, what):
        super().__init__(what, STEP_TIMEOUT)


# ------------------------------------------------------------------------------------------------
# scenario expressions:  ["eq", var, n] ["lt", var, n] ["addeq", var, n, m] ["and", a, b] ["or", a, b] ["not", a]
#                        ["cond", c, a, b] ["gate", a] ["lit", bool]
# ------------------------------------------------------------------------------------------------

def cel_text(e) -> str:
    k = e[0]
    if k == "eq":
        return f"{e[1]} == {e[2]}"
    if k == "lt":
        return f"{e[1]} < {e[2]}"
    if k == "addeq":
        return f"{e[1]} + {e[2]} == {e[3]}"
    if k == "and":
        return f"({cel_text(e[1])} && {cel_text(e[2])})"
    if k == "or":
        return f"({cel_text(e[1])} || {cel_text(e[2])})"
    if k == "not":
        return f"!({cel_text(e[1])})"
    if k == "cond":
        return f"({cel_text(e[1])} ? {cel_text(e[2])} : {cel_text(e[3])})"
    if k == "gate":
        return f"gate({cel_text(e[1])})"
    if k == "lit":
        return "true" if e[1] else "false"
    if k == "nest":                      # ["nest", shape, depth, bool-expression]
        sh, d, a = e[1], e[2], cel_text(e[3])
        if sh == "paren":
            return "(" * d + a + ")" * d
        if sh == "cond":
            return "(true ? " * d + a + " : false)" * d
        if sh == "not":
            return "!" * (2 * d) + "(" + a + ")"
        if sh == "call":
            return "idf(" * d + a + ")" * d
        raise ValueError(e)
    if k == "addchain":                  # ["addchain", var, depth, n, gated]   v + 1 + 1 + … + 1 == n   (left-nested, depth = #ones)
        v = f"gate({e[1]})" if e[4] else e[1]
        return v + " + 1" * e[2] + f" == {e[3]}"
    if k == "listnest":                  # ["listnest", var, depth, n, gated]   [[[v]]][0][0][0] == n
        v = f"gate({e[1]})" if e[4] else e[1]
        return "[" * e[2] + v + "]" * e[2] + "[0]" * e[2] + f" == {e[3]}"
    if k == "sfn":                       # ["sfn", function, string variable, argument]        s.matches('^a+$')
        return f"{e[2]}.{e[1]}({str_arg(e[3])})"
    if k == "smacro":                    # ["smacro", all|exists|count, [string variables], function, argument, n]
        call = f"n.{e[3]}({str_arg(e[4])})"          # one argument applied to every item: [s0, s1].all(n, n.matches('^a+$'))
        lst = "[" + ", ".join(e[2]) + "]"
        if e[1] == "count":              # n < 0: the number itself is the result (every single call shows in it)
            return f"{lst}.filter(n, {call}).size()" + (f" == {e[5]}" if e[5] >= 0 else "")
        return f"{lst}.{e[1]}(n, {call})"
    raise ValueError(e)


def str_arg(a) -> str:
    """["lit", text] -> a CEL string literal, ["var", name] -> the variable"""
    return a[1] if a[0] == "var" else "'" + a[1] + "'"


def has_gate(e) -> bool:
    if e[0] in ("addchain", "listnest"):
        return bool(e[4])
    if e[0] in ("sfn", "smacro"):
        return False
    return e[0] == "gate" or any(isinstance(x, list) and has_gate(x) for x in e[1:])


def expr_vars(e) -> List[str]:
    """the variable names of a scenario expression"""
    k = e[0]
    if k in ("eq", "lt", "addeq", "addchain", "listnest"):
        return [e[1]]
    if k == "sfn":
        return [e[2]] + ([e[3][1]] if e[3][0] == "var" else [])
    if k == "smacro":
        return list(e[2]) + ([e[4][1]] if e[4][0] == "var" else [])
    out: List[str] = []
    for x in e[1:]:
        if isinstance(x, list):
            out += expr_vars(x)
    return out


#: deepest nesting each runner class handles alone at the recursion limit `Environment` sets (measured on the unchanged
#: tree: interpreted / compiled); the generator uses 50-75 % of it, so every thread is well inside what works alone and
#: any two in-progress evaluations together exceed what ONE evaluation can use
NEST_MAX = {"paren": (67, 123), "cond": (69, 123), "not": (301, 98), "call": (67, 112), "addchain": (305, 197), "listnest": (50, 66)}


def interp_tokens(e) -> List[str]:
    """the interpreter evaluates the tree itself: no names; `&& || ?:` and the root catch exceptions of their operands"""
    k = e[0]
    if k == "eq":
        return ["bin", "eq", "var", e[1], "lit", f"i:{e[2]}"]
    if k == "lt":
        return ["bin", "lt", "var", e[1], "lit", f"i:{e[2]}"]
    if k == "addeq":
        return ["bin", "eq", "bin", "add", "var", e[1], "lit", f"i:{e[2]}", "lit", f"i:{e[3]}"]
    if k == "and":
        return ["and", "catch"] + interp_tokens(e[1]) + ["catch"] + interp_tokens(e[2])
    if k == "or":
        return ["or", "catch"] + interp_tokens(e[1]) + ["catch"] + interp_tokens(e[2])
    if k == "not":
        return ["not"] + interp_tokens(e[1])
    if k == "cond":
        return ["cond", "catch"] + interp_tokens(e[1]) + ["catch"] + interp_tokens(e[2]) + ["catch"] + interp_tokens(e[3])
    if k == "gate":
        return ["host", "gate"] + interp_tokens(e[1])
    if k == "lit":
        return ["lit", "b:1" if e[1] else "b:0"]
    if k == "nest":
        sh, d, a = e[1], e[2], interp_tokens(e[3])
        if sh == "paren":
            return a
        if sh == "not":
            return ["not"] * (2 * d) + a
        if sh == "call":
            return ["host", "idf"] * d + a
        if sh == "cond":
            for _ in range(d):
                a = ["cond", "catch", "lit", "b:1", "catch"] + a + ["catch", "lit", "b:0"]
            return a
        raise Untranslatable(str(e[:3]))
    if k == "addchain":
        a = ["host", "gate", "var", e[1]] if e[4] else ["var", e[1]]
        for _ in range(e[2]):
            a = ["bin", "add"] + a + ["lit", "i:1"]
        return ["bin", "eq"] + a + ["lit", f"i:{e[3]}"]
    if k in ("listnest", "sfn", "smacro"):
        raise Untranslatable("list literals and strings are outside the model's fragment")
    raise ValueError(e)


# ------------------------------------------------------------------------------------------------
# translator: the statements `Transpiler.transpile` produced (tp.source_text)  ->  model tokens
# ------------------------------------------------------------------------------------------------

BINOPS = {"celpy.evaluation.bool_eq": "eq", "celpy.evaluation.bool_ne": "ne", "celpy.evaluation.bool_lt": "lt",
          "celpy.evaluation.bool_le": "le", "celpy.evaluation.bool_gt": "gt", "celpy.evaluation.bool_ge": "ge",
          "operator.add": "add", "operator.sub": "sub", "operator.mul": "mul"}


class Untranslatable(Exception):
    pass


def py_exp(n: ast.AST) -> List[str]:
    u = ast.unparse
    if isinstance(n, ast.Attribute) and isinstance(n.value, ast.Name) and n.value.id == "activation":
        return ["var", n.attr]
    if isinstance(n, ast.Call):
        f = u(n.func)
        a = n.args
        if f == "celpy.celtypes.IntType" and len(a) == 1 and isinstance(a[0], ast.Constant) and isinstance(a[0].value, int):
            return ["lit", f"i:{a[0].value}"]
        if f == "celpy.celtypes.IntType" and len(a) == 1 and isinstance(a[0], ast.UnaryOp) and isinstance(a[0].op, ast.USub):
            return ["lit", f"i:{-a[0].operand.value}"]
        if f == "celpy.celtypes.BoolType" and len(a) == 1 and isinstance(a[0], ast.Constant) and isinstance(a[0].value, bool):
            return ["lit", "b:1" if a[0].value else "b:0"]
        if f in BINOPS and len(a) == 2:
            return ["bin", BINOPS[f]] + py_exp(a[0]) + py_exp(a[1])
        if f == "celpy.celtypes.logical_not" and len(a) == 1:
            return ["not"] + py_exp(a[0])
        if f == "celpy.celtypes.logical_and" and len(a) == 2:
            return ["and"] + py_exp(a[0]) + py_exp(a[1])
        if f == "celpy.celtypes.logical_or" and len(a) == 2:
            return ["or"] + py_exp(a[0]) + py_exp(a[1])
        if f == "celpy.celtypes.logical_condition" and len(a) == 3:
            return ["cond"] + py_exp(a[0]) + py_exp(a[1]) + py_exp(a[2])
        if f == "celpy.evaluation.result" and len(a) == 2 and u(a[0]) == "activation" and isinstance(a[1], ast.Name):
            return ["res", a[1].id]
        if isinstance(n.func, ast.Name) and n.func.id.startswith("ex_") and len(a) == 1 and u(a[0]) == "activation":
            return ["call", n.func.id]
        # a host function: `celpy.evaluation.host_function(activation, 'gate')(arg)` / `activation.resolve_function('gate')(arg)`
        if isinstance(n.func, ast.Call) and len(a) == 1:
            inner = n.func
            names = [x.value for x in inner.args if isinstance(x, ast.Constant) and isinstance(x.value, str)]
            if len(names) == 1 and ("host_function" in u(inner.func) or "resolve_function" in u(inner.func)):
                return ["host", names[0]] + py_exp(a[0])
        # … or by module path: `<module>.gate(arg)`
        if isinstance(n.func, ast.Attribute) and n.func.attr == "gate" and len(a) == 1:
            return ["host", "gate"] + py_exp(a[0])
    raise Untranslatable(u(n))


def stmts_tokens(source_text: str) -> List[str]:
    """statement list of a transpiled program as model tokens (statements separated by ',')"""
    out: List[List[str]] = []
    mod = ast.parse(source_text)
    for st in mod.body:
        if not (isinstance(st, ast.Assign) and len(st.targets) == 1 and isinstance(st.targets[0], ast.Name)):
            raise Untranslatable(ast.unparse(st))
        name, v = st.targets[0].id, st.value
        if name == "CEL":
            if not (isinstance(v, ast.Call) and ast.unparse(v.func) == "celpy.evaluation.result" and len(v.args) == 2
                    and ast.unparse(v.args[0]) == "base_activation"):
                raise Untranslatable(ast.unparse(st))
            f = v.args[1]
            if isinstance(f, ast.Name):
                out.append(["celn", f.id])
            elif isinstance(f, ast.Lambda) and [a.arg for a in f.args.args] == ["activation"]:
                out.append(["cell"] + py_exp(f.body))
            else:
                raise Untranslatable(ast.unparse(st))
        else:
            if not (isinstance(v, ast.Lambda) and [a.arg for a in v.args.args] == ["activation"]):
                raise Untranslatable(ast.unparse(st))
            out.append(["def", name] + py_exp(v.body))
    toks: List[str] = []
    for i, s in enumerate(out):
        if i:
            toks.append(",")
        toks += s
    return toks


def def_before_use(source_text: str) -> Optional[str]:
    """static check on the transpiled text: every `ex_…` name a statement refers to is assigned by an earlier statement
    (so that, sequentially, an evaluation never reads a name left behind by another program)"""
    defined = set()
    for st in ast.parse(source_text).body:
        if not isinstance(st, ast.Assign):
            continue
        used = {n.id for n in ast.walk(st.value) if isinstance(n, ast.Name) and n.id.startswith("ex_")}
        missing = used - defined
        if missing:
            return f"{ast.unparse(st)[:80]} uses {sorted(missing)} before definition"
        for t in st.targets:
            if isinstance(t, ast.Name):
                defined.add(t.id)
    return None


# ------------------------------------------------------------------------------------------------
# running the real implementation
# ------------------------------------------------------------------------------------------------

def canon_out(f) -> str:
    """`bool:true` / `int:5` / `err` (CELEvalError, with the missing member when there is one) / EXC <Class>"""
    from celpy import celtypes as ct
    from celpy.evaluation import CELEvalError
    try:
        v = f()
    except CELEvalError as ex:
        return "err" + err_tag(ex)
    except Exception as ex:  # noqa
        return "EXC " + type(ex).__name__
    if type(v) is ct.BoolType:
        return "bool:" + ("true" if v else "false")
    if type(v) is ct.IntType:
        return f"int:{int(v)}"
    return "other:" + type(v).__name__


def err_tag(ex) -> str:
    """which member was missing, if the error says so (so that `no such member 'y'` and `… 'x'` are different outcomes)"""
    import re
    s = repr(ex.args)
    m = re.search(r"KeyError'>, \('(\w+)',\)", s) or re.search(r"undeclared reference to '(\w+)'", s) or \
        re.search(r"no such member in mapping: '(\w+)'", s)
    return ":key:" + m.group(1) if m else ""


def identity_gate(x):
    return x


def build(th, gate=None):
    """a thread's own environment and program"""
    import celpy
    rc = celpy.CompiledRunner if th["runner"] == "C" else celpy.InterpretedRunner
    env = celpy.Environment(runner_class=rc)
    ast_ = env.compile(cel_text(th["expr"]))
    return env.program(ast_, functions={"gate": gate or identity_gate, "idf": identity_gate})


def bindings(th):
    from celpy import celtypes as ct
    return {k: ct.StringType(v) if isinstance(v, str) else ct.IntType(v) for k, v in th["binds"]}


def solo(th) -> str:
    p = build(th)
    b = bindings(th)
    return canon_out(lambda: p.evaluate(b))


def solo_ops(th):
    """the thread's evaluation as a c05 history (run alone in a pristine process)"""
    return [["E", th["runner"], None, []], ["P", 0, {"src": cel_text(th["expr"])}],
            ["G", 0, 0, {"form": "dict", "fns": [["gate", "ident", 0], ["idf", "ident", 0]]}], ["V", 0, [[k, ["s" if isinstance(v, str) else "i", v]] for k, v in th["binds"]]]]


def solo_canon(obs) -> str:
    """[model, rich] of the evaluate step (c05_worker) -> this module's outcome format"""
    import re
    m, r = obs
    if m.startswith("value "):
        return m[6:]
    if m == "err":
        k = re.search(r"no such member in mapping: '(\w+)'", r) or re.search(r"undeclared reference to '(\w+)'", r)
        return "err" + (":key:" + k.group(1) if k else "")
    return m


def run_jobs(jobs, timeout, par=None):
    """c05.run_jobs through `c16_worker` (same pool of children forked from a pristine `import celpy`; it also knows hold jobs)"""
    import select
    if not jobs:
        return {}
    par = par or max(2, min(12, (os.cpu_count() or 4) - 2))
    cmd = [sys.executable, "-m", "verif.props.c16_worker", "--jobs", str(par)]
    p = subprocess.Popen(cmd, stdin=subprocess.PIPE, stdout=subprocess.PIPE, stderr=subprocess.PIPE, env=dict(os.environ))

    def feed():
        try:
            for j in jobs:
                p.stdin.write((json.dumps(j) + "\n").encode())
            p.stdin.close()
        except Exception:
            pass
    threading.Thread(target=feed, daemon=True).start()
    res: Dict[Any, Any] = {}
    deadline = time.time() + timeout
    err: List[bytes] = []
    threading.Thread(target=lambda: err.append(p.stderr.read()), daemon=True).start()
    buf = b""
    fd = p.stdout.fileno()
    while len(res) < len(jobs):
        left = deadline - time.time()
        if left <= 0:
            p.kill()
            raise subprocess.TimeoutExpired(cmd, timeout)
        r, _, _ = select.select([fd], [], [], min(left, 5.0))
        if not r:
            continue
        chunk = os.read(fd, 1 << 16)
        if not chunk:
            break
        buf += chunk
        while b"\n" in buf:
            line, buf = buf.split(b"\n", 1)
            if line.strip():
                d = json.loads(line)
                res[d.get("id")] = d
    try:
        p.wait(timeout=10)
    except Exception:
        p.kill()
    if len(res) < len(jobs):
        raise RuntimeError(f"worker pool lost {len(jobs) - len(res)} of {len(jobs)} jobs; stderr: {(b''.join(err))[-600:]!r}")
    return res


def _timed_out(d) -> bool:
    """did the worker give up waiting (overloaded machine / deadlock) rather than observe an outcome?"""
    if "Timeout" in str(d.get("crash") or ""):
        return True
    return any(x == "HARNESS-TIMEOUT" for x in (d.get("hold") or []))


def _hung(d) -> bool:
    """did the worker diagnose a step/thread that never returns (c16_worker.diagnose_wait)?"""
    if any(str(x).startswith("HANG") for x in (d.get("hold") or [])):
        return True
    return any(o and o[0] == "HANG" for obs in (d.get("tobs") or []) for o in obs)


def run_jobs_retry(jobs, timeout):
    """`run_jobs`; jobs in which the worker's own step timeout fired are run once more, two at a time; if that happens
    again it is a tool timeout (exit 2) — a harness timeout is never reported as an outcome of the implementation"""
    res = run_jobs(jobs, timeout)
    again = [j for j in jobs if _timed_out(res[j["id"]])]
    if again:
        res2 = run_jobs(again, timeout, par=2)
        for j in again:
            if _timed_out(res2[j["id"]]):
                raise ToolTimeout("worker step timeout (twice) in job " + str(j["id"])[:200])
            res[j["id"]] = res2[j["id"]]
    # a diagnosed hang must reproduce: the job is run once more; the second run's answer stands (a hang again, or the outcome)
    hung = [j for j in jobs if _hung(res[j["id"]])]
    if hung:
        res3 = run_jobs(hung, timeout)
        for j in hung:
            if _timed_out(res3[j["id"]]):
                raise ToolTimeout("worker step timeout when re-running a hung job " + str(j["id"])[:200])
            res[j["id"]] = res3[j["id"]]
    return res


# ---- (1) deterministic replay with host-function gates -------------------------------------------

def gate_replay(threads) -> List[str]:
    """thread 0 blocks inside its host function `gate` until every other thread has evaluated; no hook in the repo"""
    entered, release = threading.Event(), threading.Event()
    first = [True]

    def gate(x):
        if first[0]:
            first[0] = False
            entered.set()
            if not release.wait(STEP_TIMEOUT):
                raise ToolTimeout("gate release")
        return x
    progs = [build(t, gate if i == 0 else None) for i, t in enumerate(threads)]
    binds = [bindings(t) for t in threads]
    res: List[Optional[str]] = [None] * len(threads)

    def run0():
        res[0] = canon_out(lambda: progs[0].evaluate(binds[0]))
        entered.set()

    def others():
        if not entered.wait(STEP_TIMEOUT):
            return
        for i in range(1, len(threads)):
            res[i] = canon_out(lambda: progs[i].evaluate(binds[i]))
        release.set()
    ta, tb = threading.Thread(target=run0, daemon=True), threading.Thread(target=others, daemon=True)
    ta.start()
    tb.start()
    ta.join(STEP_TIMEOUT * 2)
    tb.join(STEP_TIMEOUT * 2)
    if ta.is_alive() or tb.is_alive() or any(r is None for r in res):
        release.set()
        raise ToolTimeout("gate replay")
    return [r or "none" for r in res]


# ---- (2) schedule explorer on sys.settrace --------------------------------------------------------

MUTATORS = {"append", "add", "update", "setdefault", "pop", "clear", "extend", "insert", "remove", "discard", "popitem",
            "__setitem__", "move_to_end", "appendleft"}
_SHARED: Dict[str, Any] = {}


def shared_state_functions(pkg_dir: Optional[str] = None):
    """Round 3.  The functions of the celpy package that WRITE process-wide state — they rebind a module global (`global x`),
    assign/delete an attribute or an item reached from a module-level name, a class (`Cls.attr`, `cls.attr`, `type(self).attr`,
    `self.__class__.attr`) or call a mutating method on such an object — and the functions that READ a name/attribute some
    function writes.  Read from the source text of the current tree (ast), so a memo, counter, "last used" slot or cache that a
    change adds at module or class level turns its readers and writers into scheduling regions of the explorer.
    Returns {(file name, function name, first line): [what is written/read]}."""
    import celpy
    pkg_dir = pkg_dir or os.path.dirname(celpy.__file__)
    if pkg_dir in _SHARED:
        return _SHARED[pkg_dir]
    fns = []            # (path, FunctionDef, class name, module-level names)
    clsattrs: Dict[str, set] = {}       # class -> its class-level containers (`memo: Dict[...] = {}`), shared through `self.memo[...]` too
    for fn in sorted(os.listdir(pkg_dir)):
        if not fn.endswith(".py") or fn in ("c7nlib.py", "__main__.py"):
            continue
        path = os.path.join(pkg_dir, fn)
        try:
            mod = ast.parse(open(path).read())
        except Exception:  # noqa
            continue
        modnames = set()
        for st in mod.body:
            if isinstance(st, (ast.Assign, ast.AnnAssign)):
                for t in (st.targets if isinstance(st, ast.Assign) else [st.target]):
                    if isinstance(t, ast.Name):
                        modnames.add(t.id)
            elif isinstance(st, ast.ClassDef):
                modnames.add(st.name)

        def walk(body, cls):
            for st in body:
                if isinstance(st, (ast.FunctionDef, ast.AsyncFunctionDef)):
                    fns.append((path, st, cls, modnames))
                    walk(st.body, cls)
                elif isinstance(st, ast.ClassDef):
                    for x in st.body:
                        v = getattr(x, "value", None)
                        if isinstance(x, (ast.Assign, ast.AnnAssign)) and (isinstance(v, (ast.Dict, ast.List, ast.Set)) or (
                                isinstance(v, ast.Call) and ast.unparse(v.func).split(".")[-1] in
                                ("dict", "list", "set", "defaultdict", "OrderedDict", "deque", "Counter", "WeakValueDictionary", "WeakKeyDictionary"))):
                            for t in (x.targets if isinstance(x, ast.Assign) else [x.target]):
                                if isinstance(t, ast.Name):
                                    clsattrs.setdefault(st.name, set()).add(t.id)
                    walk(st.body, st.name)
                elif isinstance(st, (ast.If, ast.Try, ast.With)):
                    walk([x for x in ast.iter_child_nodes(st) if isinstance(x, ast.stmt)], cls)
        walk(mod.body, None)

    def scope(fn):
        a = fn.args
        locs = {x.arg for x in a.args + a.kwonlyargs + a.posonlyargs}
        locs |= {x.arg for x in (a.vararg, a.kwarg) if x is not None}
        globs = set()
        for n in ast.walk(fn):
            if isinstance(n, ast.Global):
                globs.update(n.names)
            elif isinstance(n, ast.Name) and isinstance(n.ctx, ast.Store):
                locs.add(n.id)
        return locs - globs, globs

    def shared_root(e, locs, modnames, cls):
        """the process-wide object an expression is reached from: 'name' (module global) / 'Cls.attr' / None"""
        if isinstance(e, ast.Name):
            if e.id == "cls" and cls:
                return cls
            return e.id if (e.id in modnames and e.id not in locs) else None
        if isinstance(e, ast.Attribute):
            if e.attr == "__class__" and cls:
                return cls
            if isinstance(e.value, ast.Name) and e.value.id == "self":
                return f"{cls}.{e.attr}" if cls and e.attr in clsattrs.get(cls, ()) else None
            r = shared_root(e.value, locs, modnames, cls)
            return None if r is None else (r + "." + e.attr if r[:1].isupper() and "." not in r else r)
        if isinstance(e, ast.Subscript):
            return shared_root(e.value, locs, modnames, cls)
        if isinstance(e, ast.Call) and isinstance(e.func, ast.Name) and e.func.id == "type" and cls:
            return cls
        return None

    written: Dict[Any, List[str]] = {}
    wnames = set()
    for path, fn, cls, modnames in fns:
        locs, globs = scope(fn)
        why = []
        for n in ast.walk(fn):
            tg: List[Any] = []
            if isinstance(n, ast.Assign):
                tg = n.targets
            elif isinstance(n, (ast.AugAssign, ast.AnnAssign)):
                tg = [n.target]
            elif isinstance(n, ast.Delete):
                tg = n.targets
            for t in tg:
                for e in (t.elts if isinstance(t, (ast.Tuple, ast.List)) else [t]):
                    if isinstance(e, ast.Name) and e.id in globs:
                        why.append(e.id)
                    elif isinstance(e, (ast.Attribute, ast.Subscript)):
                        if isinstance(e, ast.Attribute) and isinstance(e.value, ast.Name) and e.value.id == "self":
                            continue            # rebinding an attribute of the instance
                        r = shared_root(e, locs, modnames, cls) if isinstance(e, ast.Attribute) else shared_root(e.value, locs, modnames, cls)
                        if r and not (isinstance(e, ast.Attribute) and r == e.attr):
                            why.append(r)
            if isinstance(n, ast.Call) and isinstance(n.func, ast.Attribute) and n.func.attr in MUTATORS:
                r = shared_root(n.func.value, locs, modnames, cls)
                if r:
                    why.append(r)
        if why:
            written[(path, fn.name, min([fn.lineno] + [d.lineno for d in fn.decorator_list]))] = ["writes " + x for x in sorted(set(why))]
            wnames |= set(why)
    out = dict(written)
    for path, fn, cls, modnames in fns:
        key = (path, fn.name, min([fn.lineno] + [d.lineno for d in fn.decorator_list]))
        if key in out:
            continue
        locs, _ = scope(fn)
        reads = set()
        for n in ast.walk(fn):
            if isinstance(n, ast.Name) and n.id in wnames and n.id not in locs and n.id in modnames:
                reads.add(n.id)
            elif isinstance(n, ast.Attribute):
                r = shared_root(n, locs, modnames, cls)
                if r in wnames:
                    reads.add(r)
                elif cls and isinstance(n.value, ast.Name) and n.value.id == "self" and f"{cls}.{n.attr}" in wnames:
                    reads.add(f"{cls}.{n.attr}")
        if reads:
            out[key] = ["reads " + x for x in sorted(reads)]
    _SHARED[pkg_dir] = out
    return out


class Explorer:
    """drives real threads through chosen interleavings.  A *scheduling point* is a `line` event of
    `Transpiler.evaluate` / `Evaluator.evaluate` / `Evaluator.set_activation` / `result` in evaluation.py,
    of `CompiledRunner.evaluate` / `InterpretedRunner.evaluate`, and of the transpiled code (`<string>`: the module-level
    statements and the lambdas).  Exactly one thread runs between two scheduling decisions."""

    def __init__(self, threads, points="all"):
        import celpy.evaluation
        self.only_shared = points == "shared"
        self.threads = threads
        self.n = len(threads)
        self.progs = [build(t) for t in threads]
        self.binds = [bindings(t) for t in threads]
        self.evfile = celpy.evaluation.__file__
        self.initfile = sys.modules["celpy"].__file__
        self.names = {"evaluate", "result", "set_activation"}
        # round 3: functions that write (or read what is written) process-wide state are scheduling regions too, together with the
        # celpy functions they call directly (a check-then-use whose check is a Python-level __eq__/__ne__/__hash__ of a value)
        self.shared = {(f, n) for (f, n, _l) in shared_state_functions()}
        self.pkg = os.path.dirname(self.initfile) + os.sep

    def interesting(self, code, frame=None) -> bool:
        fn = code.co_filename
        if self.shared and fn.startswith(self.pkg):
            if (fn, code.co_name) in self.shared:
                return True
            b = frame.f_back if frame is not None else None
            if b is not None and (b.f_code.co_filename, b.f_code.co_name) in self.shared:
                return True
        if self.only_shared:
            return False
        if fn == "<string>":
            return True
        if fn == self.evfile and code.co_name in self.names:
            return True
        if fn == self.initfile and code.co_name == "evaluate":
            return True
        return False

    def run(self, segments: List[Tuple[int, int]], order: Optional[List[int]] = None):
        """segments: [(tid, k)] — let `tid` pass k scheduling points; afterwards the threads finish in `order`.
        returns (results, points) where points[tid] = number of scheduling points the thread passed in total"""
        n = self.n
        go = [threading.Semaphore(0) for _ in range(n)]
        arrived = threading.Semaphore(0)
        free = [False] * n
        done = [False] * n
        res: List[Optional[str]] = [None] * n
        points = [0] * n
        lock_owner = [None]

        def worker(i):
            def local(frame, event, arg):
                if event == "line" and not free[i]:
                    points[i] += 1
                    arrived.release()
                    go[i].acquire()
                return local

            def tracer(frame, event, arg):
                if event == "call" and self.interesting(frame.f_code, frame):
                    return local
                return None
            go[i].acquire()
            sys.settrace(tracer)
            try:
                res[i] = canon_out(lambda: self.progs[i].evaluate(self.binds[i]))
            finally:
                sys.settrace(None)
                done[i] = True
                arrived.release()
        ths = [threading.Thread(target=worker, args=(i,), daemon=True) for i in range(n)]
        for t in ths:
            t.start()

        def step(i):
            go[i].release()
            if not arrived.acquire(timeout=STEP_TIMEOUT):
                raise ToolTimeout(f"thread {i} did not reach a scheduling point")
        try:
            for (i, k) in segments:
                c = 0
                while c < k and not done[i]:
                    step(i)
                    c += 1
            for i in (order or list(range(n))):
                if not done[i]:
                    free[i] = True
                    step(i)      # runs to its end: the next `arrived` is its completion
                    while not done[i]:
                        if not arrived.acquire(timeout=STEP_TIMEOUT):
                            raise ToolTimeout(f"thread {i} did not finish")
        finally:
            for i in range(n):
                free[i] = True
                for _ in range(4):
                    go[i].release()
        for t in ths:
            t.join(STEP_TIMEOUT)
        return [r or "none" for r in res], points


MAX_SINGLE = 80           # single preemptions per thread and scenario (never reached on the unchanged tree: 30-60 points per thread)


def explore(threads, bound: int, rng: random.Random, budget: int, points: str = "all"):
    """outcome sets of every thread over the schedules with at most `bound` preemptions (all single preemptions; a seeded
    sample of `budget` double preemptions); returns (sets, runs, points, first schedule per outcome)"""
    ex = Explorer(threads, points)
    n = ex.n
    _, pts = ex.run([(i, 10 ** 6) for i in range(n)])          # every point stepped: counts the scheduling points
    sets = [set() for _ in range(n)]
    wit: Dict[str, Any] = {}
    runs = 0

    def do(segs, order=None):
        nonlocal runs
        r, _ = ex.run(segs, order)
        runs += 1
        for i in range(n):
            if r[i] not in sets[i]:
                wit[f"{i}:{r[i]}"] = {"segments": segs, "order": order}
            sets[i].add(r[i])
    do([])
    # one preemption: thread i passes k points, all the others run to their end, i resumes
    for i in range(n):
        others = [j for j in range(n) if j != i]
        ks = list(range(0, pts[i] + 1))
        if len(ks) > MAX_SINGLE:            # a hot function became a scheduling region (a changed tree): seeded sample, the run stays quick
            ks = sorted(rng.sample(ks, MAX_SINGLE))
        for k in ks:
            do([(i, k)], others + [i])
    if bound >= 2:
        cand = []
        if sum((pts[i] + 1) * pts[j] for i in range(n) for j in range(n) if i != j) > 200000:
            pairs = [(i, j) for i in range(n) for j in range(n) if i != j and pts[j] >= 1]     # too many to list: draw them
            for _ in range(budget if pairs else 0):
                i, j = rng.choice(pairs)
                cand.append((i, rng.randrange(0, pts[i] + 1), j, rng.randrange(1, pts[j] + 1)))
        else:
            for i in range(n):
                for j in range(n):
                    if i == j:
                        continue
                    for k1 in range(0, pts[i] + 1):
                        for k2 in range(1, pts[j] + 1):
                            cand.append((i, k1, j, k2))
            rng.shuffle(cand)
        for (i, k1, j, k2) in cand[:budget]:
            rest = [x for x in range(n) if x not in (i, j)]
            do([(i, k1), (j, k2)], [i] + rest + [j])
    return [sorted(s) for s in sets], runs, pts, wit


# ---- (3) free-running stress ------------------------------------------------------------------------

def stress(threads, reps: int, seconds: float, expect: List[str]):
    """every thread builds its own environment and program and evaluates `reps` times, free-running with a tiny
    switch interval; returns the list of (thread, outcome) that differ from the solo outcome"""
    bad: List[Any] = []
    old = sys.getswitchinterval()
    start = threading.Barrier(len(threads))
    deadline = time.time() + seconds

    def worker(i):
        try:
            start.wait(STEP_TIMEOUT)
        except threading.BrokenBarrierError:
            return
        p = build(threads[i])
        b = bindings(threads[i])
        for r in range(reps):
            if r % 50 == 0:
                p = build(threads[i])          # compile + program again, concurrently with the others
            o = canon_out(lambda: p.evaluate(b))
            if o != expect[i]:
                bad.append((i, o, expect[i]))
                return
            if time.time() > deadline:
                return
    sys.setswitchinterval(1e-6)
    try:
        ths = [threading.Thread(target=worker, args=(i,), daemon=True) for i in range(len(threads))]
        for t in ths:
            t.start()
        for t in ths:
            t.join(seconds + STEP_TIMEOUT)
            if t.is_alive():
                raise ToolTimeout("stress thread")
    finally:
        sys.setswitchinterval(old)
    return bad


# ------------------------------------------------------------------------------------------------
# generator
# ------------------------------------------------------------------------------------------------

def gen_atom(rng, vars_):
    v = rng.choice(vars_)
    r = rng.random()
    if r < 0.5:
        return ["eq", v, rng.choice([1, 2, 3])]
    if r < 0.8:
        return ["lt", v, rng.choice([1, 2, 3, 5])]
    return ["addeq", v, rng.choice([1, 2]), rng.choice([2, 3, 4])]


def gen_expr(rng, vars_, depth):
    if depth <= 0 or rng.random() < 0.25:
        return gen_atom(rng, vars_)
    r = rng.random()
    if r < 0.4:
        return ["and", gen_expr(rng, vars_, depth - 1), gen_expr(rng, vars_, depth - 1)]
    if r < 0.7:
        return ["or", gen_expr(rng, vars_, depth - 1), gen_expr(rng, vars_, depth - 1)]
    if r < 0.8:
        return ["not", gen_expr(rng, vars_, depth - 1)]
    if r < 0.9:
        return ["cond", gen_atom(rng, vars_), gen_expr(rng, vars_, depth - 1), gen_expr(rng, vars_, depth - 1)]
    return ["lit", rng.random() < 0.5]


def gen_thread(rng, i, shared_names: bool, runner=None, gate=False):
    vars_ = ["x", "y", "z"] if shared_names else [f"x{i}", f"y{i}"]
    e = gen_expr(rng, vars_, rng.randint(1, 2))
    if gate:
        e = ["and", ["gate", ["lit", True]], e] if rng.random() < 0.6 else ["or", ["gate", ["lit", False]], e]
    used = sorted({x for x in json.dumps(e).replace('"', " ").replace(",", " ").replace("[", " ").replace("]", " ").split() if x in vars_})
    binds = [[v, rng.choice([1, 2, 3])] for v in used if rng.random() < 0.9]
    return {"runner": runner or rng.choice(["C", "C", "I"]), "expr": e, "binds": binds}


# ---- (6) string functions: the same base function in every thread, each thread with its own argument -----------------------------

STRING_FNS = ["matches", "contains", "startsWith", "endsWith"]


def gen_string_thread(rng, i, shared_names: bool, runner=None, fn=None, letters="abcd"):
    """a thread that applies ONE base function with ONE argument of its own (pattern / fragment over its own letter) to several
    strings — a macro over a list, or a conjunction of calls —, so that anything a base function remembers from its last call
    (compiled pattern, last argument, scratch result) belongs to a different thread's argument most of the time"""
    c = letters[i % len(letters)]
    fn = fn or rng.choice(STRING_FNS)
    arg = {"matches": rng.choice([f"^{c}+$", f"^{c}{c}*$", f"{c}{c}"]), "contains": c * rng.choice([1, 2]),
           "startsWith": c, "endsWith": c}[fn]
    k = rng.choice([2, 3, 3, 4])
    names = [f"s{j}" for j in range(k)] if shared_names else [f"s{i}_{j}" for j in range(k)]
    other = letters[(i + 1) % len(letters)]
    vals = [c * rng.choice([1, 2, 3]) if rng.random() < 0.9 else other * 2 for _ in range(k)]
    binds = [[n, v] for n, v in zip(names, vals)]
    a = ["lit", arg]
    if rng.random() < 0.3:
        pv = "p" if shared_names else f"p{i}"
        a = ["var", pv]
        binds.append([pv, arg])
    r = rng.random()
    if r < 0.3:
        e = ["smacro", "all", names, fn, a, 0]
    elif r < 0.4:
        e = ["smacro", "exists", names, fn, a, 0]
    elif r < 0.8:
        e = ["smacro", "count", names, fn, a, rng.choice([-1, -1, -1, k, k - 1])]
    else:
        e = ["sfn", fn, names[0], a]
        for n in names[1:]:
            e = [rng.choice(["and", "and", "or"]), e, ["sfn", fn, n, a]]
    if rng.random() < 0.25 and not (e[0] == "smacro" and e[5] < 0):
        ivars = ["x", "y"] if shared_names else [f"x{i}", f"y{i}"]
        at = gen_atom(rng, ivars)
        e = [rng.choice(["and", "or"]), e, at]
        binds.append([at[1], rng.choice([1, 2, 3])])
    return {"runner": runner or rng.choice(["C", "I"]), "expr": e, "binds": binds}


# ---- (5) deep expressions and hold scenarios ----------------------------------------------------------------------

NEST_SHAPES = ["paren", "paren", "cond", "not", "call", "addchain", "listnest"]


def gen_depth(rng, shape, runner) -> int:
    mx = NEST_MAX[shape][0 if runner == "I" else 1]
    return max(2, int(mx * rng.uniform(0.5, 0.75)))


def gen_deep_thread(rng, i, shared_names: bool, runner: str, gate_pos: str, shape=None, bind_p: float = 0.9):
    """a thread whose expression is nested 50-75 % as deep as its runner class handles alone.
    gate_pos: where the (holding) host function `gate` is called —
      inside: at the bottom of the nesting (the thread is held while it is deep inside its evaluation),
      before: before the deep part is evaluated (the deep part runs after the release),
      after:  after the deep part,   none: no gate"""
    vars_ = ["x", "y", "z"] if shared_names else [f"x{i}", f"y{i}"]
    shape = shape or rng.choice(NEST_SHAPES)
    d = gen_depth(rng, shape, runner)
    base = gen_expr(rng, vars_, rng.randint(0, 1))
    inside = gate_pos == "inside"
    if shape in ("addchain", "listnest"):
        v = rng.choice(vars_)
        n = rng.choice([1, 2, 3]) + (d if shape == "addchain" else 0)
        deep = [shape, v, d, n, inside]
        must = {v} if inside else set()      # the argument of the gate itself is always bound: the gate is reached
        r = rng.random()
        if r < 0.4:
            deep = ["and", deep, base]
        elif r < 0.6:
            deep = ["or", deep, base]
    else:
        must = set()
        inner = base
        if inside:
            inner = ["gate", base] if rng.random() < 0.5 else ["and", ["gate", ["lit", True]], base]
        deep = ["nest", shape, d, inner]
    if gate_pos == "before":
        e = ["and", ["gate", ["lit", True]], deep] if rng.random() < 0.6 else ["or", ["gate", ["lit", False]], deep]
    elif gate_pos == "after":
        e = ["and", deep, ["gate", ["lit", True]]] if rng.random() < 0.6 else ["or", deep, ["gate", ["lit", False]]]
    else:
        e = deep
    used = sorted(set(expr_vars(e)))
    binds = [[v, rng.choice([1, 2, 3])] for v in used if rng.random() < bind_p or v in must]
    return {"runner": runner, "expr": e, "binds": binds}


def gen_hold_scenarios(rng, how_many: int):
    """hold scenarios (run by c16_worker in a pristine process each).  The first two are structured — (a) a thread held
    deep inside its evaluation while another deep evaluation runs from start to end, (b) an evaluation that enters while another
    one is held, outlives it and only then does its deep part — with seeded shapes/depths/runners; the rest is random.
    Every base scenario is emitted with both extreme release orders (nested and overlapping)."""
    out = []
    for k in range(how_many):
        shared = rng.random() < 0.5
        n = 2 if rng.random() < 0.7 else 3
        if k == 0:
            ths = [gen_deep_thread(rng, i, shared, "I", "inside", bind_p=1.0) for i in range(n - 1)] + \
                  [gen_deep_thread(rng, n - 1, shared, "I", rng.choice(["none", "inside", "before"]), bind_p=1.0)]
        elif k == 1:
            first = gen_deep_thread(rng, 0, shared, rng.choice("IC"), rng.choice(["inside", "before"]), bind_p=1.0) if rng.random() < 0.5 \
                else gen_thread(rng, 0, shared, rng.choice("IC"), gate=True)
            ths = [first, gen_deep_thread(rng, 1, shared, "I", "before", bind_p=1.0)]
        else:
            ths = []
            for i in range(n):
                runner = "I" if rng.random() < 0.6 else "C"
                if rng.random() < 0.75:
                    pos = rng.choice(["inside", "inside", "before", "before", "after", "none"])
                    ths.append(gen_deep_thread(rng, i, shared, runner, pos))
                else:
                    ths.append(gen_thread(rng, i, shared, runner, gate=rng.random() < 0.8))
        held = [i for i, t in enumerate(ths) if has_gate(t["expr"])]
        pre = rng.random() < 0.3
        orders = [held, list(reversed(held))]
        if len(held) > 2:
            o = list(held)
            rng.shuffle(o)
            orders.append(o)
        seen = set()
        for o in orders:
            if tuple(o) in seen:
                continue
            seen.add(tuple(o))
            out.append({"kind": "hold", "threads": ths, "release": o, "prebuild": pre})
    return out


# ---- (4) step-ordered scenarios: create environment / compile / program / evaluate as separately ordered steps --------

def steps_templates(rng):
    """per-thread op lists (c05 history format, indices local to the thread).  Each thread: E, P, G, V, V."""
    out = []
    kA, kB = rng.choice("CCI"), rng.choice("CCI")
    n = rng.choice(["limit", "cfg", "a"])
    f = rng.choice(["max", "b", "size"])
    # different annotations with a colliding dotted name
    out.append(("annotations",
                [[["E", kA, None, [[f"{n}.{f}", "IntType"]]], ["P", 0, {"src": f"{n}.{f} > 5"}], ["G", 0, 0],
                  ["V", 0, [[f"{n}.{f}", ["i", 10]]]], ["V", 0, [[f"{n}.{f}", ["i", 10]]]]],
                 [["E", kB, None, []], ["P", 0, {"src": f"{n}.{f} + 1"}], ["G", 0, 0],
                  ["V", 0, [[n, ["m", [[f, 3]]]]]], ["V", 0, [[n, ["m", [[f, 3]]]]]]]]))
    # mixed runner classes, environments created at different moments
    kinds = rng.choice([["C", "I"], ["I", "C"], ["C", "I", "C"], ["I", "C", "I"]])
    ths = []
    for i, k in enumerate(kinds):
        x = rng.choice(["x + 1 == 3 || false", "x > 1 && x < 5", "x + 1", "[1, 2].map(i, i + x)"])
        ths.append([["E", k, None, []], ["P", 0, {"src": x}], ["G", 0, 0], ["V", 0, [["x", ["i", 2]]]], ["V", 0, [["x", ["i", 3 + i]]]]])
    out.append(("mixed-kinds", ths))
    # host functions passed as a LIST, same name, different behaviour per thread
    form = rng.choice(["list", "list", "dict"])
    k = rng.choice("CCI")
    out.append(("functions-" + form,
                [[["E", k, None, []], ["P", 0, {"src": "score(x) + 1"}], ["G", 0, 0, {"form": form, "fns": [["score", "plus", 1]]}],
                  ["V", 0, [["x", ["i", 1]]]], ["V", 0, [["x", ["i", 1]]]]],
                 [["E", rng.choice("CCI"), None, []], ["P", 0, {"src": "score(x) + 1"}],
                  ["G", 0, 0, {"form": form, "fns": [["score", rng.choice(["plus", "const"]), 100]]}],
                  ["V", 0, [["x", ["i", 1]]]], ["V", 0, [["x", ["i", 1]]]]]]))
    # one thread uses a built-in, the other overrides it
    out.append(("builtin-override",
                [[["E", rng.choice("CCI"), None, []], ["P", 0, {"src": "size(s) + s.size()"}], ["G", 0, 0],
                  ["V", 0, [["s", ["s", "h\u00e9llo"]]]], ["V", 0, [["s", ["s", "ab"]]]]],
                 [["E", "C", None, []], ["P", 0, {"src": "size(s) + s.size()"}],
                  ["G", 0, 0, {"form": rng.choice(["dict", "list"]), "fns": [["size", rng.choice(["bytes", "const"]), 7]]}],
                  ["V", 0, [["s", ["s", "h\u00e9llo"]]]], ["V", 0, [["s", ["s", "ab"]]]]]]))
    # dotted declarations / bindings over the same names in both threads (C05's leak shapes, across threads)
    out.append(("dotted",
                [[["E", "C", None, [["a.b", "IntType"], ["x", "IntType"]]], ["P", 0, {"src": "a.b + x"}], ["G", 0, 0],
                  ["V", 0, [["a.b", ["i", 1]], ["x", ["i", 10]]]], ["V", 0, [["x", ["i", 10]]]]],
                 [["E", rng.choice("CI"), rng.choice([None, "a"]), []], ["P", 0, {"src": "a.b + x"}], ["G", 0, 0],
                  ["V", 0, [["a.b", ["i", 5]], ["x", ["i", 1]]]], ["V", 0, [["x", ["i", 1]]]]]]))
    return out


def fault_templates(rng):
    """Round 3: step-ordered scenarios in which one thread's history contains steps that FAIL — a syntax error in `compile`
    (CELParseError, caught by the application as documented), an evaluation error (unbound variable), a host function that
    raises — before it goes on with well-formed work, while the other threads do well-formed work only.  Whatever the failing
    step acquired, counted or marked on its way in must have been given back: the other threads' steps (and the thread's own later
    steps) return what they return alone."""
    out = []
    bad_src = rng.choice([None, None, {"src": "x * * 2"}, {"src": "'abc"}, {"src": "[1, 2"}, {"src": "x ? 1"}])
    kA = rng.choice("IC")
    good = rng.choice(["x * 2 + 1", "x + 1 == 3 || false", "[1, 2].map(i, i + x)"])
    A = [["E", kA, None, []], ["P", 0, bad_src], ["P", 0, {"src": good}], ["G", 0, 0], ["V", 0, [["x", ["i", 20]]]]]
    others = []
    for i in range(rng.choice([1, 1, 2])):
        k = rng.choice("IC") if i else ("C" if kA == "I" else rng.choice("IC"))
        others.append([["E", k, None, []], ["P", 0, {"src": rng.choice(["x * 2 + 1", "x > 1 && x < 5", "size([x, x]) + x"])}],
                       ["G", 0, 0], ["V", 0, [["x", ["i", 2 + i]]]]])
    out.append(("fault-compile", [A] + others))
    # evaluation errors and raising host functions, then the same program evaluated properly
    kB = rng.choice("IC")
    form = rng.choice(["dict", "list"])
    B = [["E", kB, None, []], ["P", 0, {"src": "score(x) + y"}], ["G", 0, 0, {"form": form, "fns": [["score", "plus", 1]]}],
         ["V", 0, [["x", ["i", 1]]]],                       # y unbound: CELEvalError
         ["V", 0, [["x", ["s", "a"]], ["y", ["i", 1]]]],    # the host function raises (int('a'))
         ["P", 0, rng.choice([None, {"src": "1 +* 2"}])],   # and a syntax error
         ["V", 0, [["x", ["i", 1]], ["y", ["i", 1]]]]]
    C = [["E", rng.choice("IC"), None, []], ["P", 0, {"src": "score(x) + y"}], ["G", 0, 0, {"form": form, "fns": [["score", "plus", 100]]}],
         ["V", 0, [["x", ["i", 1]], ["y", ["i", 1]]]]]
    out.append(("fault-evaluate", [B, C]))
    return out


def step_orders(rng, lens: List[int], how_many: int):
    """global orders of the steps: structured ones (one after the other, the other way round, each thread's last step held
    back until every other thread is done, strict alternation, environments first) and a seeded sample of the rest"""
    n = len(lens)
    full = [[t] * lens[t] for t in range(n)]
    orders = []
    orders.append([t for b in full for t in b])
    orders.append([t for b in reversed(full) for t in b])
    for t in range(n):                      # t runs all but its last step, the others run completely, t finishes
        o = [t] * (lens[t] - 1)
        for u in range(n):
            if u != t:
                o += [u] * lens[u]
        orders.append(o + [t])
    for t in range(n):                      # t builds its environment only; the others run completely; t continues
        o = [t]
        for u in range(n):
            if u != t:
                o += [u] * lens[u]
        orders.append(o + [t] * (lens[t] - 1))
    alt, pos = [], [0] * n
    while any(pos[t] < lens[t] for t in range(n)):
        for t in range(n):
            if pos[t] < lens[t]:
                alt.append(t)
                pos[t] += 1
    orders.append(alt)
    orders.append([t for t in range(n)] + [t for t in range(n) for _ in range(lens[t] - 1)])   # all environments first
    uniq, seen = [], set()
    for o in orders:
        if tuple(o) not in seen:
            seen.add(tuple(o))
            uniq.append(o)
    orders = uniq
    base = [t for t in range(n) for _ in range(lens[t])]
    tries = 0
    while len(orders) < how_many and tries < 10 * how_many:
        tries += 1
        o = list(base)
        rng.shuffle(o)
        if tuple(o) not in seen:
            seen.add(tuple(o))
            orders.append(o)
    return orders[:max(how_many, 1)]


D4_WITNESS = [{"runner": "C", "expr": ["and", ["gate", ["lit", True]], ["eq", "x", 1]], "binds": [["x", 1]]},
              {"runner": "C", "expr": ["and", ["lit", False], ["eq", "y", 2]], "binds": [["y", 2]]}]


class C16(Prop):
    pid = "C16"
    manifest = dict(
        technique='Lean 4: small-step thread machine over the transpiled statement list with late-bound global names; '
                  'non-interference for ALL schedules and any number of threads under the per-call namespace policy by a locality '
                  '(frame) argument, for the interpreted runner under either policy; concrete 2-thread counterexample under the shared '
                  'policy by computation; the policy is re-read from Transpiler.evaluate on every run (bridge); tie: deterministic gate '
                  'replay, sys.settrace schedule explorer (preemption bound 2) and free-running stress against solo results, outcome sets '
                  'compared with the model run on the program\'s actual statement list; hold schedules (every thread held inside evaluate() '
                  'by its own host function, nested and overlapping release orders, expressions nested 50-75 % as deep as one evaluation '
                  'can go) replayed in pristine processes and in the model (the schedule runners of the driver are proved to be schedules)',
        text='proof: for every schedule (any interleaving of atomic steps, any number of threads, either runner class) every thread ends in '
             'the state of its evaluation run alone (Cel.Props.C16.noninterference_perCall / _interpreted / noninterference_current), stated '
             'for the namespace policy the translator reads from Transpiler.evaluate; the pre-fix shared namespace is refuted in the model '
             '(shared_namespace_interferes) and replayed on the real code',
        note='Lean kernel; standard axioms; CPython scheduler, GIL, lark and C extensions are outside the model (stress-tested only); '
             'the machine\'s atomic-step granularity is validated by the line-level explorer, not proven',
        ref='DESIGN.md §5 C16')
    lean_targets = ["Cel.Props.C16", "Cel.Bridge.RuntimeNs"]
    audit_namespaces = ["Cel.Props.C16", "Cel.Bridge.RuntimeNs"]
    gen_names = ["RuntimeNs"]
    trusted = ["CPython's thread scheduler and GIL; races inside lark or C code cannot be exhibited by the model (free-running stress only)",
               "the explorer's scheduling points (line events of evaluate/result/set_activation and of the transpiled code) are fine enough",
               "translation of the transpiled statement text into the model's statement language (py/verif/props/c16.py: stmts_tokens)"]
    rule = ("scenarios of 2-3 threads, each with its own Environment/program/bindings (both runner classes; overlapping and disjoint variable "
            "names; && || ! ?: over comparisons; optional host-function gate): (1) deterministic gate replay, (2) explorer over all "
            "single-preemption schedules + a seeded sample of double preemptions at line granularity, (3) free-running stress "
            "(4 threads, switch interval 1e-6); every outcome compared with the solo outcome; (4) step-ordered scenarios: each thread's "
            "create-environment / compile / program / evaluate / evaluate are separately ordered steps (different annotations with colliding "
            "dotted names, mixed runner classes, host functions as list/dict with the same name, built-in overrides, dotted bindings), run "
            "in a pristine process per order (structured orders + seeded sample), every step compared with the thread alone in a fresh "
            "process; (5) string scenarios: every thread applies one base function (matches/contains/startsWith/endsWith) with its own "
            "argument to several strings, explorer preempting at every line of the functions that write or read process-wide state "
            "(found by an ast scan of the package) and of their direct callees, + free-running; (6) step-ordered scenarios with FAILING "
            "steps (syntax error in compile, evaluation error, raising host function) in one thread; a step that never returns is "
            "diagnosed (thread CPU clock and stack stand still while all other threads are idle outside the library, twice) and is an "
            "outcome `HANG`, a merely slow step is a tool timeout; non-trivial = scenario with at least one compiled thread whose "
            "program defines ex_N names, or a step order that really interleaves")

    def __init__(self):
        self._cache: Dict[str, Any] = {}
        self._alone: Dict[str, Any] = {}
        self._solo: Dict[str, str] = {}
        self._tier = "quick"
        self._times: Dict[str, Any] = {}

    def generate(self, rng, tier):
        t0, c0 = time.time(), sum(os.times()[:4])
        try:
            return self._generate(rng, tier)
        finally:
            self._clock("generate+prefetch", t0, c0)

    def _generate(self, rng, tier):
        self._tier = tier
        quick = tier == "quick"
        cases = []
        cases.append({"kind": "gate", "threads": D4_WITNESS})
        for _ in range(4 if quick else 40):
            shared = rng.random() < 0.6
            ths = [gen_thread(rng, 0, shared, "C" if rng.random() < 0.8 else "I", gate=True)] + \
                  [gen_thread(rng, i, shared) for i in range(1, rng.choice([2, 2, 3]))]
            cases.append({"kind": "gate", "threads": ths})
        for k in range(5 if quick else 40):
            shared = rng.random() < 0.6
            n = 2 if rng.random() < 0.75 else 3
            ths = [gen_thread(rng, i, shared) for i in range(n)]
            if k % 5 == 1:
                # interpreted threads only: the model says they share nothing — the line-level interleavings of
                # InterpretedRunner.evaluate / Evaluator.evaluate / set_activation are explored on the real code all the same
                for t in ths:
                    t["runner"] = "I"
            elif all(t["runner"] == "I" for t in ths):
                ths[0]["runner"] = "C"
            cases.append({"kind": "explore", "threads": ths, "bound": 2, "budget": 40 if quick else 400,
                          "seed": rng.randrange(10 ** 6)})
        for _ in range(1 if quick else 6):
            ths = [gen_thread(rng, i, True) for i in range(4)]
            cases.append({"kind": "stress", "threads": ths, "reps": 300 if quick else 2000})
        # deep expressions: held deep inside the evaluation (in-process gate replay) and free-running
        for _ in range(2 if quick else 20):
            shared = rng.random() < 0.6
            r0 = "I" if rng.random() < 0.6 else "C"
            ths = [gen_deep_thread(rng, 0, shared, r0, "inside")] + \
                  [gen_deep_thread(rng, i, shared, "I" if rng.random() < 0.6 else "C", "none") if rng.random() < 0.7
                   else gen_thread(rng, i, shared) for i in range(1, rng.choice([2, 2, 3]))]
            cases.append({"kind": "gate", "threads": ths})
        for _ in range(1 if quick else 4):
            ths = [gen_deep_thread(rng, i, True, "I" if i < 2 or rng.random() < 0.5 else "C", "none") for i in range(3)]
            cases.append({"kind": "stress", "threads": ths, "reps": 12 if quick else 100})
        holds = gen_hold_scenarios(rng, 8 if quick else 80)
        steps = []
        for rep in range(1 if quick else 6):
            for name, ths in steps_templates(rng):
                for o in step_orders(rng, [len(t) for t in ths], 9 if quick else 40):
                    steps.append({"kind": "steps", "family": name, "threads": ths, "order": o})
        # ---- round 3 (generated last: the draws of the scenarios above are those of rounds 1-2 for every seed) ----
        r3 = []
        # round 3: every thread applies a base function (matches/contains/…) with its own argument to several strings
        # (the same function in all threads of a scenario, each function in turn); explorer preempting only where process-wide
        # state is accessed ("points": "shared" — no such place during an evaluation on the unchanged tree), and free-running
        for k in range(4 if quick else 24):
            shared = rng.random() < 0.5
            n = 2 if rng.random() < 0.8 else 3
            ths = [gen_string_thread(rng, i, shared, "IC"[(i + k // 4) % 2] if k < 8 else None, STRING_FNS[k % 4]) for i in range(n)]
            r3.append({"kind": "explore", "threads": ths, "bound": 2, "budget": 40 if quick else 200,
                          "seed": rng.randrange(10 ** 6), "points": "shared"})
        for _ in range(1 if quick else 4):
            ths = [gen_string_thread(rng, i, True) for i in range(4)]
            r3.append({"kind": "stress", "threads": ths, "reps": 100 if quick else 2000})
        for rep in range(1 if quick else 6):
            for name, ths in fault_templates(rng):
                for o in step_orders(rng, [len(t) for t in ths], 7 if quick else 30):
                    steps.append({"kind": "steps", "family": name, "threads": ths, "order": o})
        cases += r3
        from ..core import corpus_cases
        corp = corpus_cases(self.pid)
        self.prefetch_solo([c for c in corp + cases + holds if c.get("kind") in ("gate", "explore", "stress", "hold")])
        self.prefetch_steps([c for c in corp if c.get("kind") == "steps"] + steps, 900 if quick else 2400)
        self.prefetch_holds([c for c in corp if c.get("kind") == "hold"] + holds, 900 if quick else 2400)
        return cases + holds + steps

    # ---- solo outcomes come from pristine processes, so that nothing an earlier scenario left behind in this process
    # ---- can hide (or fake) an interference
    def prefetch_holds(self, cases, timeout):
        todo = list({case_key(c): c for c in cases if case_key(c) not in self._cache}.values())
        if not todo:
            return
        self.prefetch_solo(todo)
        res = run_jobs_retry([{"id": case_key(c), "hold": {"threads": c["threads"], "release": c.get("release", []),
                                                           "prebuild": c.get("prebuild", False)}} for c in todo], timeout)
        for c in todo:
            d = res[case_key(c)]
            r = d.get("hold")
            out = " ".join(f"{i}={x}" for i, x in enumerate(r)) if r is not None else "HARNESS-CRASH " + str(d.get("crash"))
            self._cache[case_key(c)] = {"out": out, "solo": [self.solo_of(t) for t in c["threads"]], "blocked": d.get("blocked", [])}

    def prefetch_solo(self, cases, timeout=900):
        jobs = {}
        for c in cases:
            for th in c["threads"]:
                k = json.dumps(solo_ops(th))
                if k not in self._solo:
                    jobs[k] = solo_ops(th)
        if not jobs:
            return
        res = run_jobs_retry([{"id": k, "ops": v} for k, v in jobs.items()], timeout)
        for k in jobs:
            obs = res[k].get("obs")
            self._solo[k] = solo_canon(obs[-1]) if obs else "HARNESS-CRASH"

    def solo_of(self, th) -> str:
        k = json.dumps(solo_ops(th))
        if k not in self._solo:
            self.prefetch_solo([{"threads": [th]}])
        return self._solo[k]

    # ---- step-ordered scenarios run in pristine processes (pool of c05_worker) ---------------------------------
    def prefetch_steps(self, cases, timeout):
        todo = list({case_key(c): c for c in cases if case_key(c) not in self._cache}.values())
        jobs = [{"id": case_key(c), "threads": c["threads"], "order": c["order"]} for c in todo]
        alone: Dict[str, Any] = {}
        for c in todo:
            for t in c["threads"]:
                k = json.dumps(t)
                if k not in self._alone:
                    alone[k] = t
        res = run_jobs_retry(jobs + [{"id": "alone:" + k, "ops": v} for k, v in alone.items()], timeout)
        for k in alone:
            d = res["alone:" + k]
            self._alone[k] = d.get("obs") or [["HARNESS-CRASH", "HARNESS-CRASH " + str(d.get("crash"))]]
        for c in todo:
            d = res[case_key(c)]
            tobs = d.get("tobs")
            if tobs is None:
                out = "HARNESS-CRASH " + str(d.get("crash"))
                tobs = []
            else:
                out = " ; ".join(f"t{i}:" + "|".join(o[0] for o in obs) for i, obs in enumerate(tobs))
            self._cache[case_key(c)] = {"out": out, "tobs": tobs}

    # ---- implementation ---------------------------------------------------------------------------
    def _clock(self, key, t0, c0):
        """wall and cpu (self + waited-for children) seconds per phase; printed when VERIF_C16_TIMING is set"""
        c1 = sum(os.times()[:4])
        w, c = self._times.get(key, (0.0, 0.0))
        self._times[key] = (w + time.time() - t0, c + c1 - c0)
        if os.environ.get("VERIF_C16_TIMING"):
            print("C16 timing (wall, cpu):", {k: (round(a, 1), round(b, 1)) for k, (a, b) in self._times.items()}, file=sys.stderr)

    def impl(self, c):
        t0, c0 = time.time(), sum(os.times()[:4])
        try:
            return self._impl(c)
        finally:
            self._clock(c.get("kind", "?"), t0, c0)

    def _impl(self, c):
        k = case_key(c)
        if k in self._cache:
            return self._cache[k]["out"]
        if c["kind"] == "steps":
            self.prefetch_steps([c], 900)
            return self._cache[k]["out"]
        if c["kind"] == "hold":
            self.prefetch_holds([c], 900)
            return self._cache[k]["out"]
        ths = c["threads"]
        info: Dict[str, Any] = {"solo": [self.solo_of(t) for t in ths]}
        if c["kind"] == "gate":
            r = gate_replay(ths)
            out = " ".join(f"{i}={x}" for i, x in enumerate(r))
        elif c["kind"] == "explore":
            sets, runs, pts, wit = explore(ths, c.get("bound", 2), random.Random(c.get("seed", 0)), c.get("budget", 40), c.get("points", "all"))
            info.update(runs=runs, points=pts, witness=wit)
            out = " ".join(f"{i}=" + ",".join(s) for i, s in enumerate(sets))
        elif c["kind"] == "stress":
            bad = stress(ths, c.get("reps", 300), 60 if self._tier == "quick" else 240, info["solo"])
            info["bad"] = bad
            out = "stress-ok" if not bad else "stress-bad " + json.dumps(bad[:3])
        else:
            out = "bad-kind"
        info["out"] = out
        self._cache[k] = info
        return out

    # ---- model ----------------------------------------------------------------------------------------
    def policy_letter(self):
        try:
            from ..translate import gen_c05_c16
            return "p" if gen_c05_c16.read_config(("ns",))["ns"] == "perCall" else "s"
        except Exception:
            return "p"

    def thread_tokens(self, th) -> Optional[List[str]]:
        binds = []
        for k, v in th["binds"]:
            binds += [k, f"i:{v}"]
        head = [th["runner"], str(len(th["binds"]))] + binds
        if th["runner"] == "I":
            try:
                return head + ["cell"] + interp_tokens(th["expr"])
            except Untranslatable:
                return None
        try:
            p = build(th)
            return head + stmts_tokens(p.tp.source_text)
        except Untranslatable:
            return None
        except Exception:
            return None

    def model_line(self, c):
        if c["kind"] not in ("gate", "explore", "hold"):
            return None          # stress and step-ordered scenarios: oracle only
        parts = []
        for th in c["threads"]:
            t = self.thread_tokens(th)
            if t is None:
                return None
            parts.append(" ".join(t))
        if c["kind"] == "hold":
            q = "H " + (",".join(str(i) for i in c.get("release", [])) or "-")
        else:
            q = "G" if c["kind"] == "gate" else ("E 2" if len(c["threads"]) <= 2 else "E 1")
        return f"{self.policy_letter()} {q} " + " | ".join(parts)

    def model_expect(self, c, m):
        # the model's error tags name the missing member (`err:key:y`); other tags are plain errors
        out = []
        for part in m.split(" "):
            if "=" not in part:
                out.append(part)
                continue
            t, vs = part.split("=", 1)
            xs = set()
            for v in vs.split(","):
                if v.startswith("err:key:"):
                    xs.add("err:key:" + v[8:])
                elif v.startswith("err:"):
                    xs.add("err")
                else:
                    xs.add(v)
            out.append(t + "=" + ",".join(sorted(xs)))
        return " ".join(out)

    # ---- oracle: every thread's outcome(s) are its solo outcome ----------------------------------------------
    def oracle(self, c, out):
        info = self._cache.get(case_key(c))
        if info is None:
            return None
        ths = c["threads"]
        if c["kind"] == "steps":
            if out.startswith("HARNESS-CRASH"):
                return "the scenario crashed the worker: " + out
            from .c05_worker import expr_text
            for t, (ops, obs) in enumerate(zip(ths, info["tobs"])):
                al = self._alone.get(json.dumps(ops))
                if al is None:
                    continue
                for i, (o, a) in enumerate(zip(obs, al)):
                    if o[1] != a[1]:
                        what = {"E": "Environment(...)", "P": "compile", "G": "program", "V": "evaluate"}.get(ops[i][0], ops[i][0])
                        src = next((expr_text(x[2]) for x in ops if x[0] == "P" and x[2] is not None), "?")
                        return (f"thread {t} ({ops[0][1]} runner, `{src}`): step #{i} {what} {json.dumps(ops[i])[:160]} gave {o[1]!r} with the "
                                f"steps of the threads ordered {c['order']} but {a[1]!r} when the thread runs alone in a fresh process")
            return None
        if c["kind"] == "stress":
            if info.get("bad"):
                i, o, e = info["bad"][0]
                return f"free-running stress: thread {i} ({ths[i]['runner']}) evaluating `{cel_text(ths[i]['expr'])}` returned {o}, alone it returns {e}"
            return None
        if c["kind"] == "hold" and out.startswith("HARNESS-CRASH"):
            return "the scenario crashed the worker: " + out
        import re
        parts = dict(p.split("=", 1) for p in re.split(r" (?=\d+=)", out) if "=" in p)
        for i, th in enumerate(ths):
            got = set(parts.get(str(i), "").split(","))
            want = info["solo"][i]
            if got != {want}:
                w = ""
                for g in sorted(got - {want}):
                    if f"{i}:{g}" in info.get("witness", {}):
                        w = f"; schedule {json.dumps(info['witness'][f'{i}:{g}'])} of {info.get('points')} scheduling points"
                        break
                how = "while thread 0 was held in its host function" if c["kind"] == "gate" else "under some interleaving"
                if c["kind"] == "hold":
                    how = (f"when the threads start in order, each held inside its host function `gate` in the middle of evaluate(), and are "
                           f"released in the order {c.get('release')} (each running to its end before the next release; pristine process)")
                return (f"thread {i} ({th['runner']} runner) evaluating `{cel_text(th['expr'])}` with {dict(th['binds'])} returned "
                        f"{sorted(got)} {how}; alone it returns {want}{w}")
        return None

    def nontrivial(self, c, out):
        if c["kind"] == "steps":
            return len(set(c["order"])) > 1 and c["order"] != sorted(c["order"])
        if c["kind"] == "hold":         # at least one thread was really held while another one evaluated
            return len(c["threads"]) > 1 and any(has_gate(t["expr"]) for t in c["threads"][:-1])
        for th in c["threads"]:
            if th["runner"] == "C":
                try:
                    if "ex_" in build(th).tp.source_text:
                        return True
                except Exception:
                    pass
        return False

    def extra_checks(self, tier, rng):
        """the sequential side of the shared scratch names: the transpiled statement lists define every ex_N before use"""
        out = []
        for i in range(30 if tier == "quick" else 300):
            th = gen_thread(rng, 0, True, "C", gate=rng.random() < 0.3)
            try:
                src = build(th).tp.source_text
            except Exception as ex:  # noqa
                continue
            msg = def_before_use(src)
            if msg:
                out.append({"name": "def-before-use", "ok": False, "detail": f"`{cel_text(th['expr'])}`: {msg}",
                            "case": {"kind": "gate", "threads": [th, D4_WITNESS[1]]}})
        if not out:
            out.append({"name": "def-before-use", "ok": True, "detail": "every ex_N is assigned before it is referenced in every sampled transpiled program"})
        return out


PROP = C16()
