"""C18 — policy translation preserves the filter's boolean structure.

A case is a Custodian filter tree (`and` / `or` / `not` / implicit-and list, fan-out 1–3) whose
leaves are either *boolean clause representatives* (CEL text over distinct boolean variables, one
per top-level shape a rewriter can produce: atom, `!`, `&&`, `||`, `?:`, relation, `a && (b || c)` …)
or *real* Custodian clauses run through the real rewriters.  The real `c7n_rewrite` /
`logical_connector` produces the CEL text; the library's parser parses it and the library's
evaluator evaluates it under bindings fixing every clause's value, for all truth assignments to
the clauses.  The oracle computes Custodian's combinators directly (list/and = all, or = any,
not = not all) and, independently of any evaluation, compares the parse tree of the emitted text
(modulo parentheses) with the structure of the filter over the individually parsed clause texts.
"""
from __future__ import annotations
import contextlib
import copy
import io
import itertools
import json
import random
from typing import Any, Dict, Iterable, List, Optional, Tuple

from ..core import Prop
from . import c06 as G

# ---- clause representatives -------------------------------------------------------------------------
# shape -> (text template over variables v0.., number of variables, value function)
SHAPES: Dict[str, Tuple[str, int, Any]] = {
    "atom": ("{0}", 1, lambda v: v[0]),
    "not": ("! {0}", 1, lambda v: not v[0]),
    "notcall": ("! [{0}].exists(x, x)", 1, lambda v: not v[0]),
    "and": ("{0} && {1}", 2, lambda v: v[0] and v[1]),
    "or": ("{0} || {1}", 2, lambda v: v[0] or v[1]),
    "tern": ("{0} ? {1} : {2}", 3, lambda v: v[1] if v[0] else v[2]),
    "off": ("{0} ? false : ({1} && {2})", 3, lambda v: False if v[0] else (v[1] and v[2])),
    "on": ("{0} ? {1} || ({2}) : false", 3, lambda v: (v[1] or v[2]) if v[0] else False),
    "rel": ("{0} == true", 1, lambda v: v[0]),
    "ne": ("{0} != true", 1, lambda v: not v[0]),
    "in": ("{0} in [true]", 1, lambda v: v[0]),
    "paren": ("({0} || {1})", 2, lambda v: v[0] or v[1]),
    "andor": ("{0} && ({1} || {2})", 3, lambda v: v[0] and (v[1] or v[2])),
    "orand": ("{0} || {1} && {2}", 3, lambda v: v[0] or (v[1] and v[2])),
    "call": ("[{0}, {1}].exists(x, x)", 2, lambda v: v[0] or v[1]),
    "index": ("{{'k': {0}}}['k']", 1, lambda v: v[0]),
    "strpre": ("')' != '(' && {0}", 1, lambda v: v[0]),
    "stror": ("'(' == ')(' || {0}", 1, lambda v: v[0]),
    "stresc": ("\"a\\\"\" == \"b\" || {0}", 1, lambda v: v[0]),
    "stresc2": ("'it\\'s' == '' ? {1} : {0}", 2, lambda v: v[0]),
    "pp": ("({0}) || ({1})", 2, lambda v: v[0] or v[1]),
    "ppand": ("({0} || {1}) && ({2})", 3, lambda v: (v[0] or v[1]) and v[2]),
    "ppt": ("({0}) ? ({1}) : ({2})", 3, lambda v: v[1] if v[0] else v[2]),
    "strq": ("[{0}, '&& || ? :' == ')'].exists(x, x)", 1, lambda v: v[0]),
}
# ---- systematic clause family (round 2) ----------------------------------------------------------------
# A clause = TOP over ATOMS.  Every atom has the value of its one variable and NO logical operator outside brackets /
# string literals, but differs in what its *text* contains: nothing special, `&&` / `||` / `?:` inside parentheses, inside
# brackets / braces, inside a string literal (with and without brackets elsewhere), an escaped quote before an operator in a
# string.  Crossing tops with atoms covers what a text-level shortcut in the scanner / in `operands` may key on ("no && or ||
# anywhere", "no ? anywhere", "no bracket", "contains a quote", "starts with ( and ends with )", ...), instead of a fixed list.
ATOMS: List[str] = [
    "{0}",
    "({0} && true)",
    "({0} || false)",
    "(true ? {0} : false)",
    "[{0}, '&&' == '?'].exists(x, x)",
    "'&&' != '' == {0}",
    "'||' != '' == {0}",
    "'?' != ':' == {0}",
    "{{'k': {0}}}['k']",
    "{0} in [true]",
    "\"\\\"\" != \"&& || ?\" == {0}",
    "[{0} || false, false && true].exists(x, x)",
    "{0} == true",
    "'(' != ')' == {0}",
]
TOPS: Dict[str, Tuple[str, int, Any]] = {
    "t_atom": ("{0}", 1, lambda v: v[0]),
    "t_not": ("! {0}", 1, lambda v: not v[0]),
    "t_and": ("{0} && {1}", 2, lambda v: v[0] and v[1]),
    "t_or": ("{0} || {1}", 2, lambda v: v[0] or v[1]),
    "t_tern": ("{0} ? {1} : {2}", 3, lambda v: v[1] if v[0] else v[2]),
    "t_eq": ("{0} == {1}", 2, lambda v: v[0] == v[1]),
    "t_tern_and": ("{0} ? {1} && {2} : false", 3, lambda v: (v[1] and v[2]) if v[0] else False),
}
SYS_COMPOUND = ["t_and", "t_or", "t_tern", "t_tern_and"]


def shape_of(leaf) -> Tuple[str, int, Any]:
    """(text template over variables, number of variables, value function) of a boolean clause representative"""
    if leaf["shape"] == "sys":
        tmpl, n, fn = TOPS[leaf["top"]]
        # an atom under `!` / `==` must be primary-like or it would change the top: every ATOM is a member / relation;
        # relations under `!`, `==`, `?:`-condition are parenthesis-free only when that keeps the reading, so atoms that are
        # relations are wrapped where the top binds tighter than a relation
        parts = []
        for j in range(n):
            a = ATOMS[leaf["atoms"][j] % len(ATOMS)]
            rel = (" == " in a or " != " in a or " in " in a) and not a.startswith(("(", "[", "{{"))
            if rel and leaf["top"] in ("t_not", "t_eq"):
                a = "(" + a + ")"
            parts.append(a.replace("{0}", "{%d}" % j))
        return tmpl.format(*parts), n, fn
    return SHAPES[leaf["shape"]]


def is_compound(leaf) -> bool:
    return leaf["top"] in SYS_COMPOUND if leaf["shape"] == "sys" else leaf["shape"] in COMPOUND


COMPOUND = ["and", "or", "tern", "off", "on", "andor", "orand", "strpre", "stror", "stresc", "stresc2", "pp", "ppand", "ppt"]
SIMPLE = [s for s in SHAPES if s not in COMPOUND]

# real Custodian clauses (resource type, clause) — every family with a compound translation, and plain ones
REAL: Dict[str, List[Any]] = {
    "ec2": [
        {"type": "value", "key": "a", "op": "eq", "value": 1},
        {"type": "value", "key": "b", "op": "ne", "value": "x y"},
        {"type": "value", "key": "c", "op": "not-in", "value": [1, 2]},
        {"type": "value", "key": "d", "value": "present"},
        {"type": "value", "key": "tag:Owner", "value": "absent"},
        {"tag:Name": "absent"},
        {"type": "marked-for-op", "op": "delete", "skew": 2},
        {"type": "offhour", "opt-out": True, "tag": "t", "default_tz": "et", "offhour": 19},
        {"type": "onhour", "tag": "t", "default_tz": "et", "onhour": 7},
        {"type": "image-age", "days": 3, "op": "ge"},
        {"type": "tag-count", "count": 8},
        {"type": "health-event"},
        {"type": "value", "key": "e", "op": "eq", "value": 'say "hi'},
        {"type": "offhour", "opt-out": True, "tag": 'down"time', "default_tz": "et", "offhour": 19},
        {"type": "onhour", "tag": "it's", "default_tz": "et", "onhour": 7},
        {"type": "value", "key": "f", "op": "ne", "value": "a && b || (c ? d : e"},
    ],
    "vpc": [
        {"type": "value", "key": "a", "op": "eq", "value": 1},
        {"type": "flow-logs", "enabled": True, "set-op": "or", "op": "equal", "traffic-type": "all",
         "status": "active", "log-group": "vpc-logs"},
        {"type": "flow-logs", "enabled": False},
        {"type": "value", "key": "c", "op": "in", "value": ["p", "q"]},
        {"type": "unused"},
        {"type": "used"},
    ],
    "ebs": [
        {"type": "value", "key": "a", "op": "eq", "value": 1},
        {"type": "unused"},
        {"type": "used"},
        {"type": "unused", "value": False},
        {"type": "value", "key": "b", "op": "ne", "value": "x"},
    ],
    "iam-role": [
        {"type": "unused"},
        {"type": "value", "key": "a", "op": "eq", "value": 1},
        {"type": "used", "value": False},
    ],
    "elb": [
        {"type": "is-logging", "bucket": "b"},
        {"type": "is-not-logging", "bucket": "b"},
        {"type": "value", "key": "a", "op": "gt", "value": 1},
        {"type": "shield-enabled", "state": True},
        {"type": "marked-for-op", "op": "stop"},
    ],
}


# adversarial text values for real `type: value` clauses (kind "realval"): quotes, backslashes, brackets and the logical
# operators themselves INSIDE the string literal the rewriter emits
ADV = ['say "hi', 'a && b', 'x || y ? z : w', 'back\\slash', "it's", '(', ')}]', 'q"(', '\\"', 'tab\there', 'new\nline',
       '\u00fcn\u00ef', '// c', '""', "'''", 'plain']


def realval_filter(leaf) -> Dict[str, Any]:
    return {"type": "value", "key": f"k{leaf['i']}", "op": leaf["op"], "value": ADV[leaf["v"]]}


def realval_resource(ls: List[Any], vals: List[bool]) -> Dict[str, str]:
    """a resource under which clause j has the truth value vals[j]"""
    res = {}
    for leaf, v in zip(ls, vals):
        hit = v if leaf["op"] == "eq" else not v
        res[f"k{leaf['i']}"] = ADV[leaf["v"]] if hit else "other " + ADV[leaf["v"]][::-1]
    return res


# ---- filter trees: ["prim", leaf] | [k, [children…]] with k in and/or/not/list ------------------------

def leaves(t) -> List[Any]:
    if t[0] == "prim":
        return [t[1]]
    return [x for c in t[1] for x in leaves(c)]


def n_nodes(t) -> int:
    return 1 if t[0] == "prim" else 1 + sum(n_nodes(c) for c in t[1])


def depth(t) -> int:
    return 0 if t[0] == "prim" else 1 + max(depth(c) for c in t[1])


def tree_shapes(n: int, d: int) -> Iterable[Any]:
    """every tree with exactly n nodes, depth ≤ d, fan-out 1–3, connectives and/or/not/list; leaves None"""
    if n == 1:
        yield ["prim", None]
        return
    if d == 0:
        return
    for k in (1, 2, 3):
        for split in _splits(n - 1, k):
            for subs in itertools.product(*[list(tree_shapes(m, d - 1)) for m in split]):
                for conn in ("and", "or", "not", "list"):
                    yield [conn, [json.loads(json.dumps(s)) for s in subs]]


def _splits(n: int, k: int) -> Iterable[Tuple[int, ...]]:
    if k == 1:
        if n >= 1:
            yield (n,)
        return
    for i in range(1, n - k + 2):
        for rest in _splits(n - i, k - 1):
            yield (i,) + rest


def sys_leaf(rng: random.Random, i: int, top: Optional[str] = None, compound: Optional[bool] = None):
    if top is None:
        pool = SYS_COMPOUND if compound else ([t for t in TOPS if t not in SYS_COMPOUND] if compound is False else list(TOPS))
        top = rng.choice(pool)
    return {"shape": "sys", "top": top, "atoms": [rng.randrange(len(ATOMS)) for _ in range(3)], "i": i}


def rand_tree(rng: random.Random, n: int, d: int, deep: bool = False):
    if n <= 1 or d == 0:
        return ["prim", None]
    if deep and n > 3:
        # one long spine: mostly single-child connectives, the rest of the budget in small side branches
        k = 1 if rng.random() < 0.6 else 2
        if k == 1:
            return [rng.choice(["and", "or", "not", "list"]), [rand_tree(rng, n - 1, d - 1, True)]]
        side = ["prim", None]
        kids = [rand_tree(rng, n - 2, d - 1, True), side]
        if rng.random() < 0.5:
            kids.reverse()
        return [rng.choice(["and", "or", "not", "list"]), kids]
    k = rng.randint(1, min(3, n - 1))
    cuts = sorted(rng.sample(range(1, n - 1), k - 1)) if k > 1 else []
    parts = [b - a for a, b in zip([0] + cuts, cuts + [n - 1])]
    return [rng.choice(["and", "or", "not", "list"]), [rand_tree(rng, m, d - 1) for m in parts]]


def fill(t, mk):
    """replace the None leaves (left to right) by mk(index)"""
    ctr = [0]

    def go(x):
        if x[0] == "prim":
            ctr[0] += 1
            return ["prim", mk(ctr[0] - 1)]
        return [x[0], [go(c) for c in x[1]]]
    return go(t)


def to_c7n(t, leaf_filter, share: Optional[Dict[str, Any]] = None):
    """the Python object Custodian's YAML would give.  With `share` (a dict used as a memo) equal sub-trees -- the same
    clause, or the same group, written once and referred to again by a YAML alias (`- &x {type: unused}` ... `- *x`) --
    become ONE Python object placed in several positions, which is what yaml gives for anchors / aliases (and what
    yaml.safe_dump writes back as anchors / aliases)."""
    if share is not None:
        k = json.dumps(t, sort_keys=True)
        if k not in share:
            share[k] = _to_c7n1(t, leaf_filter, share)
        return share[k]
    return _to_c7n1(t, leaf_filter, share)


def _to_c7n1(t, leaf_filter, share):
    if t[0] == "prim":
        return leaf_filter(t[1])
    kids = [to_c7n(c, leaf_filter, share) for c in t[1]]
    return kids if t[0] == "list" else {t[0]: kids}


def var(i: int, j: int) -> str:
    return f"c{i}" + "abc"[j]


def clause_text(leaf) -> str:
    tmpl, n, _ = shape_of(leaf)
    return tmpl.format(*[var(leaf["i"], j) for j in range(n)])


def clause_assignment(leaf, value: bool, sel: int) -> Dict[str, bool]:
    """an assignment of the clause's variables under which the clause has `value`"""
    _, n, fn = shape_of(leaf)
    opts = [vs for vs in itertools.product([False, True], repeat=n) if bool(fn(vs)) == value]
    vs = opts[sel % len(opts)]
    return {var(leaf["i"], j): vs[j] for j in range(n)}


def custodian(t, val) -> bool:
    """Custodian's combinators, computed directly"""
    k = t[0]
    if k == "prim":
        return val(t[1])
    vs = [custodian(c, val) for c in t[1]]
    if k in ("and", "list"):
        return all(vs)
    if k == "or":
        return any(vs)
    if k == "not":
        return not all(vs)
    raise ValueError(k)


def scan_texts(text: str, texts: List[str]) -> List[str]:
    """the texts the character-level scanner is corresponded on: every clause, the whole translation, and each clause
    parenthesised / bracketed / followed by an operator at depth 0 and 1"""
    out = list(texts) + [text]
    for x in texts[:4]:
        out += [f"({x})", f"[{x}] || y", f"{{'k': {x}}} ? a : b", f"f({x} && ({x}))"]
    return out


def deblank(text: str) -> str:
    """remove blanks outside string literals"""
    out, i = [], 0
    while i < len(text):
        ch = text[i]
        if ch in "\"'":
            q = ch * 3 if text.startswith(ch * 3, i) else ch
            j = i + len(q)
            while j < len(text) and not text.startswith(q, j):
                j += 2 if text[j] == "\\" else 1
            j += len(q)
            out.append(text[i:j])
            i = j
            continue
        if not ch.isspace():
            out.append(ch)
        i += 1
    return "".join(out)


# ---- lark tree -> PExpr (JSON) ---------------------------------------------------------------------------

LITK = {v: k for k, v in G.LITKIND.items()}


def pexpr_of(t):
    import lark
    d, cs = t.data, t.children
    one = lambda: pexpr_of(cs[0])

    def args(x):
        return [pexpr_of(c) for c in x.children]
    if d == "expr":
        return one() if len(cs) == 1 else ["cond", pexpr_of(cs[0]), pexpr_of(cs[1]), pexpr_of(cs[2])]
    if d in ("conditionalor", "conditionaland"):
        return one() if len(cs) == 1 else ["or" if d == "conditionalor" else "and", pexpr_of(cs[0]), pexpr_of(cs[1])]
    if d in ("relation", "addition", "multiplication"):
        if len(cs) == 1:
            return one()
        op = str(cs[0].data).split("_", 1)[1]
        return [{"relation": "rel", "addition": "add", "multiplication": "mul"}[d], op, pexpr_of(cs[0].children[0]), pexpr_of(cs[1])]
    if d == "unary":
        return one() if len(cs) == 1 else ["not" if cs[0].data == "unary_not" else "neg", pexpr_of(cs[1])]
    if d in ("member", "primary"):
        return one()
    if d == "member_dot":
        return ["dot", pexpr_of(cs[0]), str(cs[1])]
    if d == "member_dot_arg":
        return ["dotarg", pexpr_of(cs[0]), str(cs[1]), args(cs[2]) if len(cs) == 3 else []]
    if d == "member_index":
        return ["index", pexpr_of(cs[0]), pexpr_of(cs[1])]
    if d == "member_object":
        fs = []
        if len(cs) == 2:
            fc = cs[1].children
            fs = [[str(fc[i]), pexpr_of(fc[i + 1])] for i in range(0, len(fc), 2)]
        return ["obj", pexpr_of(cs[0]), fs]
    if d == "literal":
        return ["lit", LITK[cs[0].type], str(cs[0])]
    if d == "ident":
        return ["ident", str(cs[0])]
    if d == "dot_ident":
        return ["dotident", str(cs[0])]
    if d == "ident_arg":
        return ["identarg", str(cs[0]), args(cs[1]) if len(cs) == 2 else []]
    if d == "dot_ident_arg":
        return ["dotidentarg", str(cs[0]), args(cs[1]) if len(cs) == 2 else []]
    if d == "paren_expr":
        return ["paren", one()]
    if d == "list_lit":
        return ["list", args(cs[0]) if cs else []]
    if d == "map_lit":
        if not cs:
            return ["map", []]
        mc = cs[0].children
        return ["map", [[pexpr_of(mc[i]), pexpr_of(mc[i + 1])] for i in range(0, len(mc), 2)]]
    raise ValueError(f"unexpected rule {d}")


def enc_filter(t, clause_pexpr) -> List[str]:
    if t[0] == "prim":
        return ["prim"] + G.enc(clause_pexpr(t[1]))
    out = [t[0], str(len(t[1]))]
    for c in t[1]:
        out += enc_filter(c, clause_pexpr)
    return out


class C18(Prop):
    pid = "C18"
    manifest = dict(
        technique="Lean 4: logical_connector / operands / top_level_logic mirrored on token strings over ARBITRARY well-formed clause "
                  "expressions; theorems emit_parses and emit_preserves by mutual induction over all filter trees (any depth, any "
                  "fan-out >= 1), reusing C06's grammar (Derives over the regenerated productions, render_derives); the scanner is "
                  "proved exact (top_level_logic_exact) by induction over all expressions, and its character-level loop (quotes, triple "
                  "quotes, escapes, bracket depth) is proved to agree with the token-level scanner on every spelled-out token string "
                  "(scanner_text_eq_tokens, top_level_logic_text_exact); the branch templates of logical_connector/"
                  "operands are re-read symbolically from the source on every run and bridged; correspondence with the real "
                  "rewriter + parser + evaluator; oracle = Custodian combinators and a structural tree comparison",
        text="proof: for every filter tree with non-empty connectives over arbitrary well-formed CEL clauses the emitted token string is "
             "a sentence of the CEL grammar, and under every evaluation respecting && || ! and parentheses its value is Custodian's "
             "all/any/not-all of the clause values; the text-level scanner and lark's lexer/LALR uniqueness are corresponded",
        note="Lean kernel; standard axioms; lark (lexer, LALR uniqueness) trusted; the symbolic reader of logical_connector; the "
             "real clause rewriters are exercised only through correspondence",
        ref="DESIGN.md §5 C18")
    lean_targets = ["Cel.Props.C18", "Cel.Bridge.Xlate", "Cel.Bridge.Grammar"]
    audit_namespaces = ["Cel.Props.C18", "Cel.Bridge"]
    gen_names = ["Xlate", "Grammar"]
    trusted = ["lark's lexer and the LALR(1) uniqueness meta-theorem (as in C06)",
               "the character loop of top_level_logic vs. its character-level model scanText: corresponded on every clause text, every "
               "translation and bracketed variants (scanText = token scanner on spelled-out tokens is PROVED: scanner_text_eq_tokens); "
               "lark's terminals produce token texts satisfying lexOK (checked on every case)",
               "the library's evaluator on the boolean fragment (&&, ||, !, ?:, ==, in, exists) agrees with evalBool: corresponded"]
    rule = ("filter trees with connectives and/or/not/list, fan-out 1-3, depth <= 4: every tree shape with <= 5 nodes (quick) / <= 6 nodes and 3000 of the 21232 with 7 "
            "nodes (thorough) plus random larger ones; leaves are boolean clause representatives of 24 top-level shapes (atom, !, &&, "
            "||, ?:, offhour-/onhour-like ?:, relation, in, call, index, parenthesised, a && (b || c), a || b && c, a string literal "
            "containing operators) plus a systematic family TOP x ATOMS (7 tops: atom, !, &&, ||, ?:, ==, ?: over &&; 14 atoms whose text hides && || ? "
            "inside parentheses / brackets / braces / string literals or has none) and deep narrow trees (depth 5-9), or real Custodian clauses (value, marked-for-op, offhour, onhour, flow-logs, is-not-logging, ...) "
            "through the real rewriters, and real `type: value` clauses over 16 adversarial strings (quotes, backslashes, brackets, "
            "&& || ? : inside the literal) evaluated under resources fixing each clause's value; real clauses (incl. used / unused on vpc, ebs, "
            "iam-role) with the same clause / group referred to two or three times through a YAML alias (one object in several positions); "
            "a clause text the parser rejects is a failure (all clause texts used are CEL); all 2^k truth assignments to the k clauses (k <= 5; 40 random ones above), each realised by "
            "variable bindings chosen per case. non-trivial = tree with a connective nested in a multi-child connective or a "
            "compound clause next to a sibling")

    # -- helpers ----------------------------------------------------------------------------------
    def setup(self):
        self._extra: Dict[str, Dict[str, Any]] = {}
        self._parser = None
        self._env = None
        self._ctree: Dict[str, Any] = {}      # parse trees of clause texts (the same clause text recurs in many cases)

    def _parse(self, text):
        from celpy import celparser
        if self._parser is None:
            celparser.CELParser.CEL_PARSER = None
            self._parser = celparser.CELParser()
        return self._parser.parse(text)

    def _rewrite(self, c) -> Tuple[str, List[str]]:
        """(emitted text, clause texts in leaf order) from the real translator"""
        import yaml
        from xlate.c7n_to_cel import C7N_Rewriter
        t = c["f"]
        texts: List[str] = []
        buf = io.StringIO()
        if c["kind"] == "bool":
            orig = C7N_Rewriter.__dict__["primitive"]

            def fake(resource, flt):
                return clause_text(flt["verif"])
            C7N_Rewriter.primitive = staticmethod(fake)
            try:
                filt = to_c7n(t, lambda leaf: {"type": "verif-clause", "verif": leaf})
                doc = yaml.safe_dump({"name": "p", "resource": "ec2", "filters": filt})
                with contextlib.redirect_stdout(buf):
                    out = C7N_Rewriter.c7n_rewrite(doc)
            finally:
                C7N_Rewriter.primitive = orig
            texts = [clause_text(l) for l in leaves(t)]
        elif c["kind"] == "realval":
            filt = to_c7n(t, realval_filter)
            doc = yaml.safe_dump({"name": "p", "resource": "ec2", "filters": filt})
            with contextlib.redirect_stdout(buf):
                out = C7N_Rewriter.c7n_rewrite(doc)
                texts = [C7N_Rewriter.primitive("ec2", realval_filter(l)) for l in leaves(t)]
        else:
            # The clause objects given to the translator are fresh copies (a rewriter that writes into its argument must not
            # leak into other cases); with "alias" the same clause / group occurring twice is ONE object (YAML alias), without it
            # every occurrence is a distinct equal object.  The clause texts the structure is compared with are translated
            # one by one, each from a fresh copy: a clause means the same wherever and however often it occurs.
            res = c["resource"]
            share = {} if c.get("alias") else None
            filt = to_c7n(t, lambda leaf: copy.deepcopy(REAL[res][leaf]), share)
            doc = yaml.safe_dump({"name": "p", "resource": res, "filters": filt})
            with contextlib.redirect_stdout(buf):
                out = C7N_Rewriter.c7n_rewrite(doc)
                texts = [C7N_Rewriter.primitive(res, copy.deepcopy(REAL[res][l])) for l in leaves(t)]
        return out, texts

    def _assignments(self, c) -> List[List[bool]]:
        k = len(leaves(c["f"]))
        if k <= 5:
            return [list(v) for v in itertools.product([False, True], repeat=k)]
        rng = random.Random(c.get("seed", 0))
        return [[rng.random() < 0.5 for _ in range(k)] for _ in range(40)]

    def _bindings(self, c, clause_vals: List[bool], j: int) -> Dict[str, bool]:
        b: Dict[str, bool] = {}
        for idx, (leaf, v) in enumerate(zip(leaves(c["f"]), clause_vals)):
            b.update(clause_assignment(leaf, v, c.get("seed", 0) + idx + 3 * j))
        return b

    def _observe(self, c) -> Dict[str, Any]:
        import celpy
        from celpy import celparser, celtypes
        ob: Dict[str, Any] = {}
        text, texts = self._rewrite(c)
        ob["text"], ob["clauses"] = text, texts
        from xlate.c7n_to_cel import C7N_Rewriter
        ob["scan"] = "".join("1" if C7N_Rewriter.top_level_logic(x) else "0" for x in scan_texts(text, texts))
        try:
            tree = self._parse(text)
            ob["tree"] = G.lark_to_obj(tree)
        except celparser.CELParseError:
            ob["tree"] = None
        ob["clause_trees"] = []
        for ct in texts:
            if ct not in self._ctree:
                try:
                    self._ctree[ct] = self._parse(ct)
                except celparser.CELParseError:
                    self._ctree[ct] = None
            ob["clause_trees"].append(self._ctree[ct])
        if c["kind"] == "bool" and ob["tree"] is not None:
            if self._env is None:
                self._env = celpy.Environment()
            prog = self._env.program(self._env.compile(text))
            vals = []
            for j, cv in enumerate(self._assignments(c)):
                b = {k: celtypes.BoolType(v) for k, v in self._bindings(c, cv, j).items()}
                try:
                    r = prog.evaluate(b)
                    vals.append("1" if (type(r) is celtypes.BoolType and bool(r)) else ("0" if type(r) is celtypes.BoolType else "?"))
                except Exception:
                    vals.append("E")
            ob["values"] = "".join(vals)
        if c["kind"] == "realval" and ob["tree"] is not None:
            if self._env is None:
                self._env = celpy.Environment()
            prog = self._env.program(self._env.compile(text))
            vals = []
            ls = leaves(c["f"])
            for cv in self._assignments(c):
                try:
                    r = prog.evaluate({"resource": celpy.json_to_cel(realval_resource(ls, cv))})
                    vals.append("1" if (type(r) is celtypes.BoolType and bool(r)) else ("0" if type(r) is celtypes.BoolType else "?"))
                except Exception:
                    vals.append("E")
            ob["values"] = "".join(vals)
        return ob

    def impl(self, c):
        try:
            ob = self._observe(c)
        except Exception as ex:
            return f"EXC {type(ex).__name__}"
        self._extra[G._key(c)] = ob
        shown = (ob.get("values", "-") if c["kind"] == "bool" else "-") if ob["tree"] is not None else "parse-error"
        return f"text={deblank(ob['text'])} | values={shown} | scan={ob['scan']}"

    # -- model ------------------------------------------------------------------------------------
    def model_line(self, c):
        t = c["f"]
        if c["kind"] == "bool":
            def clause_pexpr(leaf):
                ct = clause_text(leaf)
                return pexpr_of(self._ctree.get(ct) or self._parse(ct))
            asg = []
            for j, cv in enumerate(self._assignments(c)):
                b = self._bindings(c, cv, j)
                asg.append(",".join(sorted(k for k, v in b.items() if v)) or "-")
        else:
            ob = self._extra.get(G._key(c))
            if ob is None or any(x is None for x in ob["clause_trees"]):
                return None
            it = iter(ob["clause_trees"])

            def clause_pexpr(leaf, it=it):
                return pexpr_of(next(it))
            asg = []
        ob = self._extra.get(G._key(c))
        if ob is None:
            return None
        xs = "".join(" x" + x.encode("utf-8").hex() for x in scan_texts(ob["text"], ob["clauses"]))
        try:
            return "F " + " ".join(enc_filter(t, clause_pexpr)) + " R" + ("".join(" " + a for a in asg)) + " X" + xs
        except Exception:
            return None

    def model_expect(self, c, m):
        f = dict(x.split("=", 1) for x in m.split(" | ")) if " | " in m else {}
        if not f:
            return "MODEL " + m
        if f["ok"] != "1":
            return "MODEL-DISAGREES the case is outside the theorem's hypotheses (empty connective / clause not well-formed)"
        if f["agree"] != "1":
            return "MODEL-DISAGREES parse(emit f) is not exprOf f"
        if c["kind"] == "bool" and f["values"] != f["denote"]:
            return "MODEL-DISAGREES evalBool (exprOf f) differs from c7nDenote"
        if f.get("lexok") != "1":
            return "MODEL-DISAGREES a clause token's text is outside lexOK (the hypothesis of scanner_text_eq_tokens)"
        if f.get("thm") != "1":
            return "MODEL-DISAGREES scanText (textOf ts) differs from scanTop ts"
        text = "".join(_tok_text(t) for t in f["toks"].split(" ")) if f["toks"] else ""
        return f"text={text} | values={f['values'] if c['kind'] == 'bool' else '-'} | scan={f['scan']}"

    # -- oracle -----------------------------------------------------------------------------------
    def oracle(self, c, out):
        if out.startswith("EXC "):
            return f"{out} escaped from the translator / parser"
        ob = self._extra.get(G._key(c)) or self._observe(c)
        text = ob["text"]
        if any(x is None for x in ob["clause_trees"]):
            # A clause whose text the parser rejects.  The clause by itself is the translation of the one-clause filter, and
            # every clause used here is CEL: the boolean representatives (SHAPES, TOPS x ATOMS) are sentences of the CEL
            # grammar by construction -- e.g. `c ? a || (b) : false` has a conditional-or between `?` and `:` as the language
            # definition allows -- and the real clauses (REAL, realval) are those whose translation is CEL.  So a parse error is
            # a failure of "the CEL text produced by the translator parses" (the parser, or a clause rewriter, changed), not a
            # case outside the statement.  (Before round 4 such cases were skipped, which hid a grammar that lost
            # `||` in the true-branch of `?:`.)
            bad = next(t for t, x in zip(ob["clauses"], ob["clause_trees"]) if x is None)
            if ob["tree"] is None:
                return f"translated filter does not parse: {text!r} (its clause {bad!r} does not parse by itself either)"
            return f"clause {bad!r} does not parse by itself although it is CEL (the whole translation {text!r} parses)"
        if ob["tree"] is None:
            return f"translated filter does not parse: {text!r}"
        # structure: the emitted text, modulo parentheses, is the filter's structure over the clause trees
        it = iter(G.strip_obj(G.lark_to_obj(x)) for x in ob["clause_trees"])

        def want(t):
            if t[0] == "prim":
                return next(it)
            kids = [want(k) for k in t[1]]
            rule = "conditionalor" if t[0] == "or" else "conditionaland"
            acc = kids[0]
            for k in kids[1:]:
                acc = [rule, [acc, k]]
            if t[0] == "not":
                acc = ["unary", [["unary_not", []], acc]]
            return acc
        w = want(c["f"])
        got = G.strip_obj(ob["tree"])
        if got != w:
            return (f"{text!r} does not have the filter's structure: parsed as {G.show_obj(got)[:260]} "
                    f"but the filter means {G.show_obj(w)[:260]}")
        if c["kind"] in ("bool", "realval"):
            exp = []
            for cv in self._assignments(c):
                d = dict(zip([l["i"] for l in leaves(c["f"])], cv))
                exp.append("1" if custodian(c["f"], lambda leaf: d[leaf["i"]]) else "0")
            exp = "".join(exp)
            if ob["values"] != exp:
                k = next(i for i, (a, b) in enumerate(zip(ob["values"], exp)) if a != b)
                cv = self._assignments(c)[k]
                how = (f"bindings {self._bindings(c, cv, k)}" if c["kind"] == "bool"
                       else f"resource {realval_resource(leaves(c['f']), cv)}")
                return (f"{text!r} evaluates to {ob['values'][k]} under clause values {cv} "
                        f"({how}), Custodian's combinators give {exp[k]}")
        return None

    def nontrivial(self, c, out):
        t = c["f"]

        def nested(x, in_multi):
            if x[0] == "prim":
                if not in_multi:
                    return False
                if c["kind"] == "bool":
                    return is_compound(x[1])
                return True
            if in_multi and len(x[1]) > 1:
                return True
            return any(nested(k, len(x[1]) > 1 or in_multi and x[0] != "not") for k in x[1])
        return nested(t, False)

    # -- generation -------------------------------------------------------------------------------
    def generate(self, rng, tier):
        quick = tier == "quick"
        cases: List[Dict[str, Any]] = []
        shapes_all = list(SHAPES)
        trees: List[Any] = []
        for n in range(1, (5 if quick else 6) + 1):
            trees += list(tree_shapes(n, 4))
        if quick:
            for _ in range(150):
                trees.append(rand_tree(rng, rng.randint(6, 7), 4))
        else:
            seven = list(tree_shapes(7, 4))
            trees += rng.sample(seven, 3000)
            for _ in range(500):
                trees.append(rand_tree(rng, rng.randint(8, 10), 4))
        ctr = 0
        for t in trees:
            reps = 1 if (quick or n_nodes(t) > 4) else 2
            for r in range(reps):
                ctr += 1
                # compound shapes are over-represented: they are where embedding can go wrong
                def mk(i, ctr=ctr):
                    if rng.random() < 0.3:
                        return sys_leaf(rng, i, compound=rng.random() < 0.6)
                    pool = COMPOUND if rng.random() < 0.55 else shapes_all
                    return {"shape": rng.choice(pool), "i": i}
                cases.append({"kind": "bool", "f": fill(t, mk), "seed": rng.randrange(1 << 16)})
        # every shape next to every shape under every connective, in both orders
        pairs = [(s1, s2, conn) for s1, s2 in itertools.product(shapes_all, shapes_all) for conn in ("and", "or", "not", "list")]
        if quick:
            pairs = [p for p in pairs if p[0] in COMPOUND or p[1] in COMPOUND]
            pairs = rng.sample(pairs, 260)
        for s1, s2, conn in pairs:
            if True:
                cases.append({"kind": "bool", "f": [conn, [["prim", {"shape": s1, "i": 0}], ["prim", {"shape": s2, "i": 1}]]],
                              "seed": rng.randrange(1 << 16)})
        # the systematic family: every compound top over one atom kind throughout ("homogeneous": what a text-level
        # shortcut keys on is then absent / present everywhere in the clause), and over random atom mixes, next to a sibling
        conns = ("and", "or", "not", "list")
        for top in SYS_COMPOUND:
            for a in range(len(ATOMS)):
                for rep in range(1 if quick else 4):
                    me = {"shape": "sys", "top": top, "atoms": [a, a, a], "i": 0}
                    sib = sys_leaf(rng, 1, compound=False) if rng.random() < 0.7 else {"shape": rng.choice(shapes_all), "i": 1}
                    kids = [["prim", me], ["prim", sib]]
                    if rng.random() < 0.5:
                        kids.reverse()
                    cases.append({"kind": "bool", "f": [rng.choice(conns), kids], "seed": rng.randrange(1 << 16)})
        for conn in conns:
            for top in SYS_COMPOUND:
                for rep in range(4 if quick else 40):
                    kids = [["prim", sys_leaf(rng, 0, top=top)], ["prim", sys_leaf(rng, 1, compound=rng.random() < 0.3)]]
                    if rep % 2:
                        kids.reverse()
                    cases.append({"kind": "bool", "f": [conn, kids], "seed": rng.randrange(1 << 16)})
        # deep, narrow trees: the nesting level is a parameter of the translator (parentheses from level 2 on)
        for _ in range(40 if quick else 400):
            d = rng.randint(5, 9)
            t = rand_tree(rng, rng.randint(d + 1, d + 3), d, deep=True)
            cases.append({"kind": "bool", "f": fill(t, lambda i: sys_leaf(rng, i) if rng.random() < 0.5 else
                                                    {"shape": rng.choice(shapes_all), "i": i}), "seed": rng.randrange(1 << 16)})
        # real clauses
        nreal = 150 if quick else 1500
        for _ in range(nreal):
            res = rng.choice(list(REAL))
            t = rand_tree(rng, rng.randint(2, 7), 4)
            cases.append({"kind": "real", "resource": res, "f": fill(t, lambda i: rng.randrange(len(REAL[res])))})
        # the same clause / group referred to twice through a YAML alias: ONE object in several positions of the tree
        # (class: the translator keeps state between visits -- writes into the clause it is given, memoises by identity, ...).
        # Every real clause X of every resource in `[X, {or: [X, Y]}]`, `{not: [G, {and: [G]}]}` with the group G = {or: [X, Y]}
        # aliased, and three occurrences `{or: [X, [X, X]]}`; plus the random trees above re-run with aliasing.
        for res in REAL:
            n = len(REAL[res])
            for x in range(n):
                y = (x + 1 + rng.randrange(n - 1)) % n
                X, Y = ["prim", x], ["prim", y]
                G = ["or", [X, Y]]
                for f in (["list", [X, ["or", [X, Y]]]], ["not", [G, ["and", [G]]]], ["or", [X, ["list", [X, X]]]],
                          ["and", [Y, ["not", [X]], X]]):
                    cases.append({"kind": "real", "resource": res, "alias": True, "f": json.loads(json.dumps(f))})
        for _ in range(60 if quick else 600):
            res = rng.choice(list(REAL))
            k = len(REAL[res])
            pool = [rng.randrange(k) for _ in range(2)]          # few distinct clauses: repeats are the point
            t = rand_tree(rng, rng.randint(3, 7), 4)
            cases.append({"kind": "real", "resource": res, "alias": True, "f": fill(t, lambda i: rng.choice(pool))})
        # real `type: value` clauses with adversarial strings, evaluated against resources fixing each clause's value
        rv_trees = []
        for n in range(2, (4 if quick else 5) + 1):
            rv_trees += list(tree_shapes(n, 4))
        for _ in range(80 if quick else 1500):
            rv_trees.append(rand_tree(rng, rng.randint(5, 7), 4))
        for t in rv_trees:
            cases.append({"kind": "realval", "seed": rng.randrange(1 << 16),
                          "f": fill(t, lambda i: {"i": i, "v": rng.randrange(len(ADV)), "op": rng.choice(["eq", "eq", "ne"])})})
        cases.sort(key=lambda c: n_nodes(c["f"]))     # small inputs first
        return cases

    def search_cases(self, rng):
        return self.generate(rng, "thorough")


def _tok_text(t: str) -> str:
    if ":" in t:
        return bytes.fromhex(t.split(":x", 1)[1]).decode("utf-8")
    return _ANON_TEXT[t]


_ANON_TEXT = {v: k for k, v in G.ANON.items()}

PROP = C18()
