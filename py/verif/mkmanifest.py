"""Write MANIFEST.json from the table below (kept valid at all times)."""
import json
from pathlib import Path

VERIF = Path(__file__).resolve().parents[2]
BASELINE = "cd /repo && /venv/bin/python -m pytest -ra -q -p no:cacheprovider --timeout=900 --continue-on-collection-errors"

# pid -> (technique, level text, level_note, design_ref)
CHECKS = {
    "C01": ("Lean 4 theorems over Int for every operand pair (IntOps/UintOps exactness, never-wraps, reflected = direct), model regenerated from celtypes.py by py2lean + bridge theorems; differential correspondence vs. the Lean driver and an independent big-int / IEEE oracle",
            "proof: int64/uint64 + - * / % neg are proved exact-or-error for ALL integers (no bound), on definitions regenerated from celtypes.py on every run and proved equal to the model; double division by zero proved at IEEE class level; remaining double arithmetic is host IEEE, compared bit-for-bit",
            "Lean kernel; propext/Quot.sound/Classical.choice only; py2lean translator; CPython int semantics modelled by Int.fdiv/fmod; host binary64; lark", "DESIGN.md §5 C01"),
    "C02": ("Lean 4 theorems: truth tables, commutativity, absorption, and structural induction over ALL nestings of && || ! ?: all exists for both runners (interpreter model evI and transpiled-program denotation evC) against the Kleene specification; logical_* regenerated from celtypes.py + bridge; differential correspondence on rendered CEL",
            "proof: both runners equal the three-valued error-absorbing specification on every logical expression tree (any depth, any list length); logical_and/or/not/condition and result()'s caught classes are regenerated from the source on every run",
            "Lean kernel; standard axioms; py2lean; evaluator control flow hand-modelled and tied by correspondence; lark", "DESIGN.md §5 C02"),
}

NOT_YET = {}


def main():
    props = [json.loads(l) for l in (VERIF / "properties.jsonl").read_text().splitlines() if l.strip()]
    checks, na = [], []
    for p in props:
        pid = p["id"]
        if pid in CHECKS:
            tech, text, note, ref = CHECKS[pid]
            checks.append({
                "property_id": pid,
                "quick_cmd": f"./check {pid} --tier quick",
                "thorough_cmd": f"./check {pid} --tier thorough",
                "evidence_file": f"/verif/evidence/{pid}.json",
                "replay_cmd_template": f"./check {pid} --replay {{path}}",
                "engine": "lean-model+correspondence",
                "level_claimed": {"category": "proof", "text": text, "design_ref": ref},
                "level_note": note,
                "technique": tech,
            })
        else:
            na.append({"property_id": pid, "reason": NOT_YET.get(pid, "check not built yet in this session (Lean model and correspondence planned in DESIGN.md §5); nothing is claimed for it")})
    m = {
        "version": 1,
        "setup_cmd": "./setup.sh",
        "hooks": {"guard": "CELPY_VERIF", "enable": "no hooks are needed: every observation point is public API (reserved guard, unused)",
                  "baseline_off_cmd": BASELINE, "source_commits": [], "add_only": True},
        "engines": [
            {"name": "lean-model", "path": "lean/", "serves_properties": sorted(CHECKS), "kind_free_text": "Lean 4 library Cel: executable model (Model/), theorems (Props/), bridges to regenerated definitions (Bridge/, Gen/), line-protocol driver (Driver.lean)"},
            {"name": "py2lean", "path": "py/verif/translate/", "serves_properties": sorted(CHECKS), "kind_free_text": "translator from the pure/table-like parts of /repo's Python to Lean, re-run on every check"},
            {"name": "correspondence", "path": "py/verif/", "serves_properties": sorted(CHECKS), "kind_free_text": "differential harness: real implementation in-process vs. Lean driver on the same generated inputs + independent property oracle + failing-input search"},
        ],
        "checks": checks,
        "not_applicable": na,
        "notes": "Technique family: machine-checked proof in Lean 4. A broken proof/bridge/correspondence triggers a failing-input search on the real code; see DESIGN.md §1.",
    }
    (VERIF / "MANIFEST.json").write_text(json.dumps(m, indent=1) + "\n")


if __name__ == "__main__":
    main()
