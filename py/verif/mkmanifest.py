"""Write MANIFEST.json from the table below (kept valid at all times)."""
import json
import re
from pathlib import Path

VERIF = Path(__file__).resolve().parents[2]
BASELINE = "cd /repo && /venv/bin/python -m pytest -ra -q -p no:cacheprovider --timeout=900 --continue-on-collection-errors"

def discover():
    """every props module present claims its property; its PROP.manifest supplies the texts"""
    import importlib, pkgutil, sys
    sys.path.insert(0, str(VERIF / "py"))
    import verif.props as pk
    out = {}
    for mi in sorted(pkgutil.iter_modules(pk.__path__), key=lambda m: m.name):
        if re.fullmatch(r"c\d\d+", mi.name):
            mod = importlib.import_module(f"verif.props.{mi.name}")
            pr = mod.PROP
            mf = pr.manifest
            out[pr.pid] = (mf["technique"], mf["text"], mf["note"], mf["ref"])
    return out


NOT_YET = {}


def main():
    CHECKS = discover()
    props = [json.loads(l) for l in (VERIF / "properties.jsonl").read_text().splitlines() if l.strip()]
    checks, na = [], []
    for p in props:
        pid = p["id"]
        if pid in CHECKS:
            tech, text, note, ref = CHECKS[pid]
            checks.append({
                "property_id": pid,
                "quick_cmd": f"./check {pid} --tier quick",
                "thorough_cmd": f"./check {pid} --tier thorough",
                "evidence_file": f"/verif/evidence/{pid}.json",
                "replay_cmd_template": f"./check {pid} --replay {{path}}",
                "engine": "lean-model+correspondence",
                "level_claimed": {"category": "proof", "text": text, "design_ref": ref},
                "level_note": note,
                "technique": tech,
            })
        else:
            na.append({"property_id": pid, "reason": NOT_YET.get(pid, "check not built yet in this session (Lean model and correspondence planned in DESIGN.md §5); nothing is claimed for it")})
    m = {
        "version": 1,
        "setup_cmd": "./setup.sh",
        "hooks": {"guard": "CELPY_VERIF", "enable": "no hooks are needed: every observation point is public API (reserved guard, unused)",
                  "baseline_off_cmd": BASELINE, "source_commits": [], "add_only": True},
        "engines": [
            {"name": "lean-model", "path": "lean/", "serves_properties": sorted(CHECKS), "kind_free_text": "Lean 4 library Cel: executable model (Model/), theorems (Props/), bridges to regenerated definitions (Bridge/, Gen/), line-protocol driver (Driver.lean)"},
            {"name": "py2lean", "path": "py/verif/translate/", "serves_properties": sorted(CHECKS), "kind_free_text": "translator from the pure/table-like parts of /repo's Python to Lean, re-run on every check"},
            {"name": "correspondence", "path": "py/verif/", "serves_properties": sorted(CHECKS), "kind_free_text": "differential harness: real implementation in-process vs. Lean driver on the same generated inputs + independent property oracle + failing-input search"},
        ],
        "checks": checks,
        "not_applicable": na,
        "notes": "Technique family: machine-checked proof in Lean 4. A broken proof/bridge/correspondence triggers a failing-input search on the real code; see DESIGN.md §1.",
    }
    (VERIF / "MANIFEST.json").write_text(json.dumps(m, indent=1) + "\n")


if __name__ == "__main__":
    main()
