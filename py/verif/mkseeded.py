"""Write notes/SEEDED.md: table of all seeded changes (seeded/<id>/meta.json) and which check caught them."""
import json
from pathlib import Path
V = Path(__file__).resolve().parents[2]


def verdict_of(m):
    first = m.get("round2_first_contact") or m.get("round3_first_contact") or m.get("round4_first_contact")
    v = m.get("verdict") or m.get("expected") or ""
    if first:
        v = (v + "; " if v else "") + f"first contact: {first}"
    if m.get("final"):
        v += f"; now: {m['final']}"
        if m.get("final_first_input"):
            v += " — " + m["final_first_input"].replace("first failing input: ", "")[:120]
    return v


rows = []
for d in sorted((V / "seeded").iterdir()):
    mf = d / "meta.json"
    if not mf.exists():
        continue
    m = json.loads(mf.read_text())
    rows.append((d.name, m.get("property", ""), (m.get("summary") or "").replace("\n", " ").replace("|", "\\|")[:220],
                 (m.get("needs") or "").replace("\n", " ").replace("|", "\\|")[:200], verdict_of(m).replace("|", "\\|")))
out = ["# Seeded changes and which check catches them", "",
       "Each change was written by a fresh sub-agent that saw only the property text and its own scratch worktree of /repo;",
       "each is kept as `seeded/<id>/{patch.diff, demo.py, meta.json}` and was re-run by the lead with `seeded/run_seeded.sh`",
       "(436 repo tests pass with the patch; demo.py exits 1 with it and 0 without).", "",
       "| id | property | change | needs | verdict |", "|---|---|---|---|---|"]
for r in rows:
    out.append("| " + " | ".join(r) + " |")
(V / "notes" / "SEEDED.md").write_text("\n".join(out) + "\n")
print(len(rows), "rows")
