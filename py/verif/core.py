"""Shared machinery of every check (`./check Cnn`): regeneration, Lean build and
audit, correspondence (implementation vs. Lean driver), property oracle, decision,
evidence, known findings.  See DESIGN.md §1 for the decision procedure.

A property module `verif.props.cNN` defines a subclass of `Prop`.
"""
from __future__ import annotations

import fcntl
import hashlib
import json
import os
import random
import re
import subprocess
import sys
import time
import traceback
from pathlib import Path
from typing import Any, Dict, Iterable, List, Optional, Tuple

VERIF = Path(__file__).resolve().parents[2]
LEAN = VERIF / "lean"
REPO = Path(os.environ.get("VERIF_REPO", "/repo"))  # scratch worktrees: VERIF_REPO=/tmp/wt ./check Cnn
EVIDENCE = VERIF / "evidence"
REPLAYS = VERIF / "replays"
CORPUS = VERIF / "corpus"
FINDINGS = VERIF / "known_findings.txt"

ALLOWED_AXIOMS = {"propext", "Classical.choice", "Quot.sound"}
FORBIDDEN_RE = re.compile(r"\b(sorry|admit|native_decide|bv_decide|implemented_by|unsafe)\b|^\s*axiom\s|maxHeartbeats\s+0")


# --------------------------------------------------------------------------------------
# Lean side
# --------------------------------------------------------------------------------------

class LeanLock:
    """exclusive lock on the Lean workspace (regeneration + build + audit); re-entrant within a process"""
    depth = 0
    f = None

    def __enter__(self):
        if LeanLock.depth == 0:
            LeanLock.f = open(LEAN / ".lock", "w")
            fcntl.flock(LeanLock.f, fcntl.LOCK_EX)
        LeanLock.depth += 1
        return self

    def __exit__(self, *a):
        LeanLock.depth -= 1
        if LeanLock.depth == 0:
            fcntl.flock(LeanLock.f, fcntl.LOCK_UN)
            LeanLock.f.close()


def lake_build(targets: List[str], timeout: int = 1500) -> Tuple[bool, str]:
    """Build under the lock. Returns (ok, filtered log)."""
    with LeanLock():
        try:
            p = subprocess.run(["lake", "build"] + targets, cwd=LEAN, capture_output=True, text=True, timeout=timeout)
        except subprocess.TimeoutExpired:
            return False, "TIMEOUT lake build " + " ".join(targets)
    log = p.stdout + p.stderr
    keep: List[str] = []
    follow = 0   # an error line plus the lines that explain it (goal, `decide` residue) name the obligation that broke
    for l in log.splitlines():
        if (l.startswith("error") or "error:" in l or l.startswith("✖")
                or "declaration uses `sorry`" in l or "declaration uses 'sorry'" in l):
            keep.append(l)
            follow = 4
        elif follow and l.strip():
            keep.append("    " + l[:300])
            follow -= 1
    return p.returncode == 0, "\n".join(keep[:80])


DRIVER_TMPL = """/- generated: line-protocol driver for {pid} (`lake env lean --run`). One output line per input line. -/
import Cel.Drv.{pid}

partial def loop (h : IO.FS.Stream) (out : IO.FS.Stream) : IO Unit := do
  let line ← h.getLine
  if line.isEmpty then return ()
  let toks := (line.trimAscii.toString.splitOn " ").filter (· ≠ "")
  out.putStrLn (Cel.Drv.{pid}.handle toks)
  loop h out

def main : IO Unit := do
  let out ← IO.getStdout
  loop (← IO.getStdin) out
  out.flush
"""


def run_driver(pid: str, lines: List[str], timeout: int = 900) -> List[str]:
    """Pipe `lines` (tokens separated by single spaces) to `Cel.Drv.<pid>.handle`."""
    if not lines:
        return []
    d = LEAN / ".drivers"
    d.mkdir(exist_ok=True)
    f = d / f"Driver_{pid}.lean"
    text = DRIVER_TMPL.format(pid=pid)
    if not f.exists() or f.read_text() != text:
        f.write_text(text)
    data = "\n".join(lines) + "\n"
    p = subprocess.run(["lake", "env", "lean", "--run", str(f)], cwd=LEAN, input=data,
                       capture_output=True, text=True, timeout=timeout)
    out = p.stdout.split("\n")
    if out and out[-1] == "":
        out.pop()
    if p.returncode != 0 or len(out) != len(lines):
        raise RuntimeError(f"driver failed rc={p.returncode} lines={len(lines)} out={len(out)} stderr={p.stderr[:2000]}")
    return out


AUDIT_TMPL = """import Lean
{imports}
open Lean Elab Command

elab "#audit_ns " ns:ident : command => do
  let env ← getEnv
  let nsn := ns.getId
  let mut names : Array Name := #[]
  for (n, ci) in env.constants.map₁.toList do
    if nsn.isPrefixOf n && !n.isInternalDetail then
      match ci with
      | .thmInfo _ => names := names.push n
      | _ => pure ()
  for n in names.qsort (fun a b => a.toString < b.toString) do
    let axs ← collectAxioms n
    logInfo m!"AUDIT {{n}} :: {{axs.toList}}"

{cmds}
"""


def audit(modules: List[str], namespaces: List[str]) -> Tuple[Dict[str, List[str]], str]:
    """#print axioms for every theorem in the namespaces. Returns ({theorem: axioms}, raw-errors)."""
    d = LEAN / ".audit"
    d.mkdir(exist_ok=True)
    tag = hashlib.sha1((",".join(modules) + "|" + ",".join(namespaces)).encode()).hexdigest()[:10]
    f = d / f"Audit_{tag}.lean"
    f.write_text(AUDIT_TMPL.format(imports="\n".join(f"import {m}" for m in modules),
                                   cmds="\n".join(f"#audit_ns {n}" for n in namespaces)))
    p = subprocess.run(["lake", "env", "lean", str(f)], cwd=LEAN, capture_output=True, text=True, timeout=900)
    res: Dict[str, List[str]] = {}
    txt = p.stdout + p.stderr
    for m in re.finditer(r"AUDIT (\S+) :: \[(.*?)\]", txt, re.S):
        axs = [a.strip() for a in m.group(2).replace("\n", " ").split(",") if a.strip()]
        res[m.group(1)] = axs
    errs = "\n".join(l for l in txt.splitlines() if "error" in l)
    return res, errs


def grep_forbidden(files: List[Path]) -> List[str]:
    hits = []
    for f in files:
        if not f.exists():
            continue
        in_block = 0
        for i, line in enumerate(f.read_text().splitlines(), 1):
            code = line
            # strip comments (line comments and nested block comments, approximately)
            if in_block:
                if "-/" in code:
                    in_block -= 1
                    code = code.split("-/", 1)[1]
                else:
                    continue
            while "/-" in code:
                pre, post = code.split("/-", 1)
                if "-/" in post:
                    code = pre + post.split("-/", 1)[1]
                else:
                    code = pre
                    in_block += 1
            code = code.split("--", 1)[0]
            if FORBIDDEN_RE.search(code):
                hits.append(f"{f.relative_to(VERIF)}:{i}: {line.strip()[:100]}")
    return hits


def module_file(mod: str) -> Path:
    return LEAN / (mod.replace(".", "/") + ".lean")


def module_closure(mods: List[str]) -> List[str]:
    """transitive `import Cel.*` closure of the given modules (project files only)."""
    seen, todo = [], list(mods)
    while todo:
        m = todo.pop()
        if m in seen:
            continue
        f = module_file(m)
        if not f.exists():
            continue
        seen.append(m)
        for l in f.read_text().splitlines():
            mm = re.match(r"\s*import\s+(Cel\.\S+)", l)
            if mm:
                todo.append(mm.group(1))
    return seen


# --------------------------------------------------------------------------------------
# known findings
# --------------------------------------------------------------------------------------

def load_findings(pid: str) -> List[Dict[str, str]]:
    out = []
    if not FINDINGS.exists():
        return out
    for line in FINDINGS.read_text().splitlines():
        line = line.strip()
        if not line or line.startswith("#"):
            continue
        m = re.match(r"known:\s+property=(\S+)\s+id=(\S+)\s+pred=(\S+)\s+(.*)$", line)
        if m and m.group(1) == pid:
            out.append({"id": m.group(2), "pred": m.group(3), "what": m.group(4)})
    return out


# --------------------------------------------------------------------------------------
# property base class
# --------------------------------------------------------------------------------------

class Prop:
    pid = "C00"
    title = ""
    manifest: Dict[str, str] = {}        # technique / text / note / ref for MANIFEST.json
    lean_targets: List[str] = []        # modules to build (Props + Bridge)
    audit_namespaces: List[str] = []    # namespaces whose theorems are the obligations
    gen_names: List[str] = []           # Gen files this property depends on
    trusted: List[str] = []             # property-specific trusted-base entries
    rule = ""                           # how cases are generated; what counts as non-trivial
    uses_driver = True

    # ---- to override ------------------------------------------------------------------
    def generate(self, rng: random.Random, tier: str) -> Iterable[Dict[str, Any]]:
        return []

    def impl(self, case: Dict[str, Any]) -> str:
        """canonical outcome of the real implementation"""
        raise NotImplementedError

    def model_line(self, case: Dict[str, Any]) -> Optional[str]:
        """line for the Lean driver (without the property id), or None if the model has no say"""
        return None

    def model_expect(self, case: Dict[str, Any], model_out: str) -> str:
        """what the implementation's canonical output should be, given the model's output"""
        return model_out

    def oracle(self, case: Dict[str, Any], impl_out: str) -> Optional[str]:
        """the property's own predicate on the implementation's outcome, independent of the
        model; returns a message when the property is violated on this case"""
        return None

    def nontrivial(self, case: Dict[str, Any], impl_out: str) -> bool:
        return True

    def known_preds(self) -> Dict[str, Any]:
        """name -> predicate(case) for known findings"""
        return {}

    def extra_checks(self, tier: str, rng: random.Random) -> List[Dict[str, Any]]:
        """additional whole-run checks; each returns {'name':…, 'ok':bool, 'detail':…, 'case':…}"""
        return []

    def search_cases(self, rng: random.Random) -> Iterable[Dict[str, Any]]:
        """bigger budget used by the failing-input search when a proof/bridge/correspondence broke"""
        return self.generate(rng, "thorough")

    def setup(self):
        pass


def corpus_cases(pid: str) -> List[Dict[str, Any]]:
    d = CORPUS / pid
    out = []
    if d.exists():
        for f in sorted(d.glob("*.json")):
            try:
                data = json.loads(f.read_text())
            except Exception:
                continue
            if isinstance(data, list):
                out += data
            else:
                out.append(data)
    for c in out:
        c.setdefault("_corpus", True)
    return out


def case_key(case: Dict[str, Any]) -> str:
    return json.dumps({k: v for k, v in case.items() if not k.startswith("_")}, sort_keys=True, default=str)


def write_replay(pid: str, seed: int, idx: int, payload: Dict[str, Any]) -> Path:
    REPLAYS.mkdir(exist_ok=True)
    p = REPLAYS / f"{pid}-seed{seed}-{idx}.json"
    p.write_text(json.dumps(payload, indent=1, sort_keys=True, default=str) + "\n")
    return p


# --------------------------------------------------------------------------------------
# the decision procedure
# --------------------------------------------------------------------------------------

def run_check(prop: Prop, tier: str, seed: int, replay: Optional[str] = None) -> int:
    t0 = time.time()
    pid = prop.pid
    rng = random.Random(f"{pid}:{seed}")
    sys.path.insert(0, str(REPO / "src"))
    import logging
    logging.disable(logging.CRITICAL)
    prop.setup()

    if replay:
        return run_replay(prop, replay)

    notes: List[str] = []
    # 1 regenerate ------------------------------------------------------------------------
    from .translate import regen as regen_mod
    with LeanLock():   # regenerate + build + audit as one critical section
        status = regen_mod.regen(prop.gen_names or None) if prop.gen_names else {}
        gen_failed = {k: v for k, v in status.items() if v != "ok"}

        # 2 build + audit -------------------------------------------------------------------
        build_ok, build_log = lake_build(prop.lean_targets + ["Cel.Drv." + pid]) if prop.lean_targets else (True, "")
        obligations: Dict[str, List[str]] = {}
        audit_err = ""
        bad_axioms: Dict[str, List[str]] = {}
        forbidden: List[str] = []
        if build_ok and prop.lean_targets:
            obligations, audit_err = audit(prop.lean_targets, prop.audit_namespaces)
            bad_axioms = {n: [a for a in axs if a not in ALLOWED_AXIOMS] for n, axs in obligations.items()}
            bad_axioms = {n: a for n, a in bad_axioms.items() if a}
            mods = module_closure(prop.lean_targets)
            forbidden = grep_forbidden([module_file(m) for m in mods])
        # thorough tier: independent kernel re-check of the compiled .olean files
        leancheck = "not run (quick tier)"
        if tier == "thorough" and build_ok and prop.lean_targets:
            try:
                pc = subprocess.run(["lake", "env", "leanchecker"] + prop.lean_targets, cwd=LEAN, capture_output=True,
                                    text=True, timeout=1500)
                leancheck = "ok" if pc.returncode == 0 else ("FAILED: " + (pc.stdout + pc.stderr)[-400:])
            except subprocess.TimeoutExpired:
                leancheck = "timeout (no verdict)"
    proof_ok = build_ok and not gen_failed and not bad_axioms and not forbidden and bool(obligations or not prop.lean_targets)
    broken: List[str] = []
    if gen_failed:
        broken += [f"translator:{k}: {v}" for k, v in gen_failed.items()]
    if not build_ok:
        broken.append("lake build " + " ".join(prop.lean_targets) + " FAILED:\n" + build_log)
    if bad_axioms:
        broken.append(f"axioms outside the allowed set: {bad_axioms}")
    if forbidden:
        broken.append("forbidden tokens: " + "; ".join(forbidden[:5]))
    if build_ok and prop.lean_targets and not obligations:
        broken.append("audit found no theorems: " + audit_err[:300])
    if leancheck.startswith("FAILED"):
        broken.append("leanchecker: " + leancheck)

    # 3+4 correspondence and oracle ----------------------------------------------------------
    cases = corpus_cases(pid)
    n_corpus = len(cases)
    cases += list(prop.generate(rng, tier))
    res = evaluate_cases(prop, cases, use_driver=build_ok or driver_available(pid))
    extra = []
    try:
        extra = prop.extra_checks(tier, rng)
    except Exception as ex:  # a harness crash is a tool failure, not a verdict
        print(f"TOOL-FAILURE extra_checks: {type(ex).__name__}: {ex}")
        traceback.print_exc()
        return 2

    oracle_fail = res["oracle_fail"] + [e for e in extra if not e["ok"]]
    mismatches = res["mismatch"]
    if mismatches:
        broken.append(f"correspondence: {len(mismatches)} case(s) where model and implementation differ, first: "
                      + json.dumps(mismatches[0], default=str)[:400])

    # 5 decide ----------------------------------------------------------------------------------
    findings = load_findings(pid)
    preds = prop.known_preds()
    violations: List[Dict[str, Any]] = []
    known_hits: Dict[str, int] = {}

    def classify(item):
        case = item.get("case") or {}
        for f in findings:
            pr = preds.get(f["pred"])
            try:
                if pr and pr(case):
                    known_hits[f["id"]] = known_hits.get(f["id"], 0) + 1
                    return f
            except Exception:
                pass
        return None

    for item in oracle_fail:
        if classify(item) is None:
            violations.append(item)

    searched = 0
    if broken and not violations:
        # failing-input search on the real code with the thorough budget
        srng = random.Random(f"{pid}:{seed}:search")
        # inputs derived from the correspondence mismatches come first, then the thorough generator
        # under a time budget (quick: 90 s, thorough: 600 s)
        mm_cases = [m["case"] for m in mismatches]
        deadline = time.time() + (90 if tier == "quick" else 600)
        import itertools
        stream = itertools.chain(mm_cases, prop.search_cases(srng) if tier != "thorough" else [])
        while time.time() < deadline and not violations:
            chunk = list(itertools.islice(stream, 2000))
            if not chunk:
                break
            sres = evaluate_cases(prop, chunk, use_driver=False)
            searched += len(chunk)
            for item in sres["oracle_fail"]:
                if classify(item) is None:
                    violations.append(item)

    for f in findings:
        print(f"KNOWN-FINDING: property={pid} {f['id']}: {f['what']}"
              + (f" (reproduced {known_hits[f['id']]}x this run)" if known_hits.get(f['id']) else " (not sampled this run)"))

    rc = 0
    if violations:
        v = violations[0]
        path = write_replay(pid, seed, 0, {"property": pid, "kind": "failing-input", "case": v.get("case"),
                                            "impl_out": v.get("impl_out"), "message": v.get("msg") or v.get("detail"),
                                            "broken_obligations": broken, "n_violations": len(violations),
                                            "more": [x.get("case") for x in violations[1:10]]})
        print(f"VIOLATION property={pid} replay={path}")
        print(f"  first failing input: {json.dumps(v.get('case'), default=str)[:300]}")
        print(f"  {v.get('msg') or v.get('detail')}")
        rc = 1
    elif broken:
        path = write_replay(pid, seed, 0, {"property": pid, "kind": "no-failing-input-found",
                                            "broken_obligations": broken, "searched_inputs": searched + len(cases)})
        print(f"VIOLATION property={pid} replay={path} no-failing-input-found")
        for b in broken:
            print("  " + b[:1500])
        rc = 1

    # evidence -----------------------------------------------------------------------------------
    n_obl = len(obligations)
    n_dis = len([n for n in obligations if n not in bad_axioms]) if proof_ok or build_ok else 0
    samples = []
    for c, o in res["samples"][:6]:
        samples.append({"case": {k: v for k, v in c.items() if not k.startswith("_")}, "impl": o})
    samples += [{"theorem": n, "axioms": obligations[n]} for n in sorted(obligations)[:6]]
    ev = {
        "property_id": pid, "tier": tier, "seed": seed, "level": "proof",
        "coverage": {
            "obligations": max(n_obl, 0), "discharged": n_dis,
            "checker_cmd": f"cd lean && lake build {' '.join(prop.lean_targets)} && lake env lean .audit/Audit_*.lean  (Lean 4.33 kernel; #print-axioms audit of every theorem in {', '.join(prop.audit_namespaces)})",
            "trusted_base": ["Lean 4.33 kernel", "axioms: " + ", ".join(sorted({a for axs in obligations.values() for a in axs}) or ["none"]),
                             "py2lean translator / source extractors (py/verif/translate)",
                             "correspondence harness + oracle (py/verif/props/%s.py)" % pid.lower()] + list(prop.trusted),
            "theorems": sorted(obligations),
            "evaluations": res["n"] + len(extra),
            "distinct_nontrivial": res["distinct_nontrivial"],
            "rule": prop.rule,
            "samples": samples or [{"note": "no cases"}],
            "corpus_cases": n_corpus,
            "model_compared": res["compared"],
            "mismatches": len(mismatches),
            "distribution": res["dist"],
            "extra_checks": [{k: e[k] for k in ("name", "ok", "detail") if k in e} for e in extra][:40],
            "known_findings_reproduced": known_hits,
            "leanchecker": leancheck,
            "proof_ok": proof_ok, "broken": [b[:300] for b in broken],
            "gen_status": status,
            "exhaustive": False,
        },
        "assumptions": list(prop.trusted),
        "wall_s": round(time.time() - t0, 2),
        "violations": len(violations) + (1 if (broken and not violations) else 0),
    }
    EVIDENCE.mkdir(exist_ok=True)
    (EVIDENCE / f"{pid}.json").write_text(json.dumps(ev, indent=1, default=str) + "\n")
    print(f"{pid} {tier} seed={seed}: obligations={n_obl} discharged={n_dis} cases={res['n']} compared={res['compared']} "
          f"mismatches={len(mismatches)} oracle_failures={len(oracle_fail)} known={sum(known_hits.values())} "
          f"wall={ev['wall_s']}s -> exit {rc}")
    return rc


def driver_available(pid: str) -> bool:
    return (LEAN / ".lake" / "build" / "lib" / "lean" / "Cel" / "Drv" / f"{pid}.olean").exists()


def evaluate_cases(prop: Prop, cases: List[Dict[str, Any]], use_driver: bool) -> Dict[str, Any]:
    pid = prop.pid
    outs: List[str] = []
    for c in cases:
        try:
            outs.append(prop.impl(c))
        except Exception as ex:  # the harness canonicalises exceptions itself; reaching here is a harness bug
            outs.append(f"HARNESS-EXC {type(ex).__name__}: {ex}")
    lines, idx = [], []
    if use_driver and prop.uses_driver:
        for i, c in enumerate(cases):
            l = prop.model_line(c)
            if l is not None:
                lines.append(l)
                idx.append(i)
    model_outs: Dict[int, str] = {}
    if lines:
        try:
            mo = run_driver(pid, lines)
            model_outs = dict(zip(idx, mo))
        except Exception as ex:
            print(f"note: Lean driver unavailable ({str(ex)[:200]})")
            model_outs = {}
    mismatch, oracle_fail = [], []
    seen = set()
    dist: Dict[str, int] = {}
    samples = []
    for i, c in enumerate(cases):
        o = outs[i]
        if o.startswith("HARNESS-EXC"):
            oracle_fail.append({"case": c, "impl_out": o, "msg": "harness exception (treated as failure of the check's own code)"})
            continue
        if i in model_outs:
            exp = prop.model_expect(c, model_outs[i])
            if exp != o:
                mismatch.append({"case": c, "impl_out": o, "model_out": model_outs[i], "expected": exp})
        msg = prop.oracle(c, o)
        if msg:
            oracle_fail.append({"case": c, "impl_out": o, "msg": msg})
        k = case_key(c)
        if k not in seen:
            seen.add(k)
            if prop.nontrivial(c, o):
                dist["nontrivial"] = dist.get("nontrivial", 0) + 1
        tag = str(c.get("kind", "")) + ":" + re.sub(r"[-0-9]+", "#", o)[:24]
        dist[tag] = dist.get(tag, 0) + 1
        if len(samples) < 6 and (i % max(1, len(cases) // 6) == 0):
            samples.append((c, o))
    dn = dist.pop("nontrivial", 0)
    # keep the distribution readable
    top = dict(sorted(dist.items(), key=lambda kv: -kv[1])[:40])
    return {"n": len(cases), "compared": len(model_outs), "mismatch": mismatch, "oracle_fail": oracle_fail,
            "distinct_nontrivial": dn, "dist": top, "samples": samples}


def run_replay(prop: Prop, path: str) -> int:
    data = json.loads(Path(path).read_text())
    pid = prop.pid
    if data.get("kind") == "no-failing-input-found":
        print(f"replay {path}: no input recorded; broken obligations were:")
        for b in data.get("broken_obligations", []):
            print("  " + b[:500])
        return 1
    case = data["case"]
    if "name" in (case or {}) and "detail" in data.get("message", "") and not case:
        print("replay of an extra check: re-run the check")
        return 1
    out = prop.impl(case)
    msg = prop.oracle(case, out)
    print(f"replay {pid}: case={json.dumps(case, default=str)[:400]}\n  implementation -> {out}")
    if msg:
        print(f"VIOLATION property={pid} replay={path}\n  {msg}")
        return 1
    print("  property holds on this input now")
    return 0


def main(argv: List[str]) -> int:
    import argparse, importlib
    ap = argparse.ArgumentParser()
    ap.add_argument("pid")
    ap.add_argument("--tier", default=os.environ.get("VERIF_TIER", "quick"), choices=["quick", "thorough"])
    ap.add_argument("--replay")
    ap.add_argument("--seed", type=int, default=int(os.environ.get("VERIF_SEED", "0") or 0))
    a = ap.parse_args(argv)
    mod = importlib.import_module(f"verif.props.{a.pid.lower()}")
    prop = mod.PROP
    try:
        return run_check(prop, a.tier, a.seed, a.replay)
    except subprocess.TimeoutExpired as ex:
        print(f"TIMEOUT: {ex}")
        return 2
    except Exception as ex:
        print(f"TOOL-FAILURE: {type(ex).__name__}: {ex}")
        traceback.print_exc()
        return 2


if __name__ == "__main__":
    sys.exit(main(sys.argv[1:]))
