"""Mechanical mutation campaign — measures which small source changes inside the anchored code of a
property the property's check detects.  NOT part of any verdict (a self-test of the machinery):

    PYTHONPATH=py /venv/bin/python -m verif.mutcamp C09 [--max 40] [--jobs 6] [--seed 0] [--out notes/mutcamp]

For the property's anchored functions (the functions enclosing the `where` ranges of properties.jsonl in the
pinned snapshot commit, looked up by name in the current tree) every applicable operator below yields one
mutant (one function re-written with `ast.unparse`, spliced into the file).  For each sampled mutant:
  1. copy /repo (without .git/docs) to a scratch dir, apply the mutant, run the repo's pinned test suite there;
     a mutant the tests kill is outside our brief ("still passing the existing tests") and is dropped;
  2. copy /verif to a scratch dir and run `./check Cnn --tier quick` against the mutated copy;
  3. record: killed-by-check (exit 1 and a VIOLATION line; with/without a failing input) or SURVIVED (exit 0).
Survivors are either equivalent mutants (the property still holds) or holes in the check; they are triaged
by hand (notes/mutcamp/<pid>.md).
"""
from __future__ import annotations

import argparse
import ast
import concurrent.futures as cf
import copy
import json
import os
import random
import re
import shutil
import subprocess
import sys
import tempfile
import time
from pathlib import Path

VERIF = Path(__file__).resolve().parents[2]
REPO = Path("/repo")
BASE_COMMIT = "10ec74f"   # the pinned snapshot the anchors' line numbers refer to


def anchored_functions(pid: str):
    """[(relative file, qualified function name)] enclosing the anchor ranges, by name"""
    prop = None
    for l in (VERIF / "properties.jsonl").read_text().splitlines():
        p = json.loads(l)
        if p["id"] == pid:
            prop = p
    out = []
    for m in prop["anchors"].get("mechanism", []):
        for part in m["where"].split(";"):
            part = part.strip()
            mm = re.match(r"(\S+?):([\d,\-]+)", part)
            if not mm:
                continue
            rel = mm.group(1)
            if not rel.endswith(".py"):
                continue
            try:
                src = subprocess.run(["git", "-C", str(REPO), "show", f"{BASE_COMMIT}:{rel}"], capture_output=True,
                                     text=True, check=True).stdout
            except subprocess.CalledProcessError:
                continue
            tree = ast.parse(src)
            ranges = []
            for r in mm.group(2).split(","):
                if "-" in r:
                    a, b = r.split("-")
                    ranges.append((int(a), int(b)))
                elif r:
                    ranges.append((int(r), int(r)))
            for qn, node in walk_functions(tree):
                for a, b in ranges:
                    if node.lineno <= b and node.end_lineno >= a:
                        if (rel, qn) not in out:
                            out.append((rel, qn))
    return out


def walk_functions(tree):
    def rec(node, prefix):
        for ch in ast.iter_child_nodes(node):
            if isinstance(ch, (ast.FunctionDef, ast.AsyncFunctionDef)):
                yield (prefix + ch.name, ch)
                yield from rec(ch, prefix + ch.name + ".")
            elif isinstance(ch, ast.ClassDef):
                yield from rec(ch, prefix + ch.name + ".")
    yield from rec(tree, "")


CMP_SWAP = {ast.Lt: ast.LtE, ast.LtE: ast.Lt, ast.Gt: ast.GtE, ast.GtE: ast.Gt, ast.Eq: ast.NotEq, ast.NotEq: ast.Eq,
            ast.Is: ast.IsNot, ast.IsNot: ast.Is, ast.In: ast.NotIn, ast.NotIn: ast.In}
BIN_SWAP = {ast.Add: ast.Sub, ast.Sub: ast.Add, ast.Mult: ast.FloorDiv, ast.FloorDiv: ast.Mult, ast.Mod: ast.FloorDiv,
            ast.Div: ast.Mult}


def is_logger_call(node):
    return (isinstance(node, ast.Call) and isinstance(node.func, ast.Attribute)
            and isinstance(node.func.value, ast.Name) and node.func.value.id in ("logger", "logging", "warnings"))


class Mutator(ast.NodeTransformer):
    """applies the k-th applicable mutation; counting pass when target < 0"""

    def __init__(self, target: int):
        self.target = target
        self.count = 0
        self.desc = None

    def hit(self, desc):
        me = self.count
        self.count += 1
        if me == self.target:
            self.desc = desc
            return True
        return False

    def visit_Compare(self, node):
        self.generic_visit(node)
        for i, op in enumerate(node.ops):
            t = CMP_SWAP.get(type(op))
            if t and self.hit(f"L{node.lineno}: compare {type(op).__name__} -> {t.__name__}"):
                node.ops[i] = t()
        return node

    def visit_BinOp(self, node):
        self.generic_visit(node)
        t = BIN_SWAP.get(type(node.op))
        if t and self.hit(f"L{node.lineno}: binop {type(node.op).__name__} -> {t.__name__}"):
            node.op = t()
        return node

    def visit_BoolOp(self, node):
        self.generic_visit(node)
        t = ast.Or if isinstance(node.op, ast.And) else ast.And
        if self.hit(f"L{node.lineno}: boolop {type(node.op).__name__} -> {t.__name__}"):
            node.op = t()
        if len(node.values) >= 2 and self.hit(f"L{node.lineno}: boolop drop last operand"):
            if len(node.values) == 2:
                return node.values[0]
            node.values = node.values[:-1]
        return node

    def visit_UnaryOp(self, node):
        self.generic_visit(node)
        if isinstance(node.op, ast.Not) and self.hit(f"L{node.lineno}: drop not"):
            return node.operand
        if isinstance(node.op, ast.USub) and self.hit(f"L{node.lineno}: drop unary minus"):
            return node.operand
        return node

    def visit_Constant(self, node):
        if isinstance(node.value, bool):
            if self.hit(f"L{node.lineno}: {node.value} -> {not node.value}"):
                return ast.copy_location(ast.Constant(not node.value), node)
        elif isinstance(node.value, int):
            if self.hit(f"L{node.lineno}: int {node.value} -> {node.value + 1}"):
                return ast.copy_location(ast.Constant(node.value + 1), node)
            if node.value != 0 and self.hit(f"L{node.lineno}: int {node.value} -> {node.value - 1}"):
                return ast.copy_location(ast.Constant(node.value - 1), node)
        elif isinstance(node.value, str) and node.value and not getattr(node, "_doc", False):
            if len(node.value) <= 12 and self.hit(f"L{node.lineno}: str {node.value!r} -> ''"):
                return ast.copy_location(ast.Constant(""), node)
        return node

    def visit_If(self, node):
        self.generic_visit(node)
        if self.hit(f"L{node.lineno}: negate if condition"):
            node.test = ast.UnaryOp(ast.Not(), node.test)
        if node.orelse and self.hit(f"L{node.lineno}: drop else branch"):
            node.orelse = []
        return node

    def visit_IfExp(self, node):
        self.generic_visit(node)
        if self.hit(f"L{node.lineno}: swap conditional-expression arms"):
            node.body, node.orelse = node.orelse, node.body
        return node

    def visit_ExceptHandler(self, node):
        self.generic_visit(node)
        if isinstance(node.type, ast.Tuple) and len(node.type.elts) > 1:
            for i in range(len(node.type.elts)):
                if self.hit(f"L{node.lineno}: except tuple drop {ast.unparse(node.type.elts[i])}"):
                    node.type = copy.deepcopy(node.type)
                    del node.type.elts[i]
                    break
        return node

    def visit_Return(self, node):
        self.generic_visit(node)
        if node.value is not None and not isinstance(node.value, ast.Constant):
            if self.hit(f"L{node.lineno}: return -> return None"):
                node.value = ast.Constant(None)
        return node

    def visit_Call(self, node):
        if is_logger_call(node):
            return node          # log text is not behaviour
        self.generic_visit(node)
        if len(node.args) == 2 and not node.keywords and not any(isinstance(a, ast.Starred) for a in node.args):
            if self.hit(f"L{node.lineno}: swap the two call arguments of {ast.unparse(node.func)[:30]}"):
                node.args = [node.args[1], node.args[0]]
        return node

    def visit_Subscript(self, node):
        self.generic_visit(node)
        if isinstance(node.slice, ast.Slice):
            s = node.slice
            if s.lower is not None and self.hit(f"L{node.lineno}: slice drop lower bound"):
                s.lower = None
            if s.upper is not None and self.hit(f"L{node.lineno}: slice drop upper bound"):
                s.upper = None
        return node

    def generic_stmt_delete(self, body):
        """statement deletion for expression statements / assignments / raise (not the only statement of a body)"""
        if len(body) < 2:
            return body
        out = []
        for st in body:
            if isinstance(st, (ast.Expr, ast.Assign, ast.AugAssign, ast.Raise)) and not (
                    isinstance(st, ast.Expr) and (isinstance(st.value, ast.Constant) or is_logger_call(st.value))):
                if self.hit(f"L{st.lineno}: delete statement `{ast.unparse(st)[:50]}`"):
                    continue
            out.append(st)
        return out or body

    def visit_FunctionDef(self, node):
        # mark docstring
        if node.body and isinstance(node.body[0], ast.Expr) and isinstance(node.body[0].value, ast.Constant):
            node.body[0].value._doc = True
        # annotations are not behaviour: mutate the body (and nested defs) only
        node.body = [self.visit(st) for st in node.body]
        node.body = [x for st in node.body for x in (st if isinstance(st, list) else [st])]
        node.body = self.generic_stmt_delete(node.body)
        return node

    visit_AsyncFunctionDef = visit_FunctionDef

    def visit_AnnAssign(self, node):
        if node.value is not None:
            node.value = self.visit(node.value)
        return node

    def visit_For(self, node):
        self.generic_visit(node)
        node.body = self.generic_stmt_delete(node.body)
        return node

    def visit_With(self, node):
        self.generic_visit(node)
        node.body = self.generic_stmt_delete(node.body)
        return node

    def visit_Try(self, node):
        self.generic_visit(node)
        node.body = self.generic_stmt_delete(node.body)
        if node.finalbody and self.hit(f"L{node.lineno}: drop finally body"):
            node.finalbody = []
            if not node.handlers:
                return node.body
        return node


def find_function(tree, qn):
    for q, n in walk_functions(tree):
        if q == qn:
            return n
    return None


def mutants_of(rel: str, qn: str, root: Path = REPO):
    """yield (description, new file text)"""
    path = root / rel
    text = path.read_text()
    tree = ast.parse(text)
    fn = find_function(tree, qn)
    if fn is None:
        return
    counter = Mutator(-1)
    counter.visit(copy.deepcopy(fn))
    lines = text.splitlines(keepends=True)
    start = min([fn.lineno] + [d.lineno for d in fn.decorator_list])
    indent = re.match(r"\s*", lines[start - 1]).group(0)
    for k in range(counter.count):
        m = Mutator(k)
        new = m.visit(copy.deepcopy(fn))
        if isinstance(new, list):
            continue
        ast.fix_missing_locations(new)
        try:
            code = ast.unparse(new)
        except Exception:
            continue
        if code == ast.unparse(fn):
            continue
        code = "".join(indent + l + "\n" if l.strip() else "\n" for l in code.splitlines())
        newtext = "".join(lines[:start - 1]) + code + "".join(lines[fn.end_lineno:])
        try:
            ast.parse(newtext)
        except SyntaxError:
            continue
        yield (f"{rel}::{qn} {m.desc}", newtext)


TEST_CMD = ["/venv/bin/python", "-m", "pytest", "-q", "-p", "no:cacheprovider", "--timeout=900",
            "--continue-on-collection-errors", "-x"]


def run_one(job):
    pid, idx, rel, desc, newtext, workdir, seed = job[:7]
    phase = job[7] if len(job) > 7 else 'both'
    t0 = time.time()
    wd = Path(workdir) / f"{pid}-{idx}"
    if wd.exists():
        shutil.rmtree(wd)
    rp = wd / "repo"
    res = {"idx": idx, "desc": desc}
    try:
        shutil.copytree(REPO, rp, ignore=shutil.ignore_patterns(".git", "docs", "__pycache__", ".pytest_cache"))
        orig = (rp / rel).read_text()
        (rp / rel).write_text(newtext)
        import difflib
        try:
            a = ast.unparse(ast.parse(orig)).splitlines(True)
            b = ast.unparse(ast.parse(newtext)).splitlines(True)
        except Exception:
            a, b = orig.splitlines(True), newtext.splitlines(True)
        res["diff"] = "".join(list(difflib.unified_diff(a, b, rel, rel, n=2))[:60])
        env = dict(os.environ, PYTHONPATH=str(rp / "src"))
        # the -x run stops at the two tools/ collection errors of the baseline, so run without -x but with a cap
        last = ""
        if phase != "check":
            p = subprocess.run([c for c in TEST_CMD if c != "-x"], cwd=rp, env=env, capture_output=True, text=True, errors="replace", timeout=900)
            last = (p.stdout.strip().splitlines() or [""])[-1]
            res["tests"] = last[-120:]
        if phase != "check":
            if "436 passed" not in last or "failed" in last:
                res["verdict"] = "killed-by-tests"
                return res
            if phase == "tests":
                res["verdict"] = "passes-tests"
                return res
        vc = wd / "verif"
        subprocess.run(["rsync", "-a", "--exclude", ".git", "--exclude", "replays", str(VERIF) + "/", str(vc) + "/"], check=True)
        env = dict(os.environ, VERIF_REPO=str(rp), VERIF_SEED=str(seed))
        env.pop("PYTHONPATH", None)
        p = subprocess.run(["./check", pid, "--tier", "quick"], cwd=vc, env=env, capture_output=True, text=True, errors="replace", timeout=1800)
        out = p.stdout + p.stderr
        res["check_exit"] = p.returncode
        vl = [l for l in out.splitlines() if l.startswith("VIOLATION")]
        res["violation"] = vl[0][:200] if vl else ""
        ffi = [l for l in out.splitlines() if "first failing input" in l]
        res["first"] = ffi[0][:300] if ffi else ""
        if p.returncode == 1 and vl:
            res["verdict"] = "caught-nfi" if "no-failing-input-found" in vl[0] else "caught"
        elif p.returncode == 0:
            res["verdict"] = "SURVIVED"
        else:
            res["verdict"] = f"tool-failure({p.returncode})"
            res["tail"] = out[-600:]
    except subprocess.TimeoutExpired:
        res["verdict"] = "timeout"
    except Exception as ex:
        res["verdict"] = f"harness-error {type(ex).__name__}: {ex}"
    finally:
        shutil.rmtree(wd, ignore_errors=True)
        res["wall"] = round(time.time() - t0, 1)
    return res


def main():
    ap = argparse.ArgumentParser()
    ap.add_argument("pids", nargs="+")
    ap.add_argument("--max", type=int, default=40)
    ap.add_argument("--jobs", type=int, default=4)
    ap.add_argument("--test-jobs", type=int, default=8)
    ap.add_argument("--max-checks", type=int, default=1000)
    ap.add_argument("--seed", type=int, default=0)
    ap.add_argument("--out", default=str(VERIF / "notes" / "mutcamp"))
    ap.add_argument("--list", action="store_true")
    a = ap.parse_args()
    outdir = Path(a.out)
    outdir.mkdir(parents=True, exist_ok=True)
    workdir = tempfile.mkdtemp(prefix="mutcamp-")
    try:
        for pid in a.pids:
            fns = anchored_functions(pid)
            allm, seen = [], set()
            for rel, qn in fns:
                for desc, newtext in mutants_of(rel, qn):
                    if newtext not in seen:
                        seen.add(newtext)
                        allm.append((rel, desc, newtext))
            rng = random.Random(f"mutcamp:{pid}:{a.seed}")
            rng.shuffle(allm)
            sample = allm[:a.max]
            print(f"{pid}: {len(fns)} anchored functions, {len(allm)} mutants, running {len(sample)}", flush=True)
            if a.list:
                for rel, desc, _ in sample:
                    print("  ", desc)
                continue
            # phase 1: the repo's own tests on every sampled mutant (cheap); phase 2: the check on those that pass
            jobs = [(pid, i, rel, desc, newtext, workdir, a.seed, "tests") for i, (rel, desc, newtext) in enumerate(sample)]
            results = []
            with cf.ThreadPoolExecutor(max_workers=a.test_jobs) as ex:
                phase1 = list(ex.map(run_one, jobs))
            surv = [j for j, r in zip(jobs, phase1) if r["verdict"] == "passes-tests"]
            results += [r for r in phase1 if r["verdict"] != "passes-tests"]
            print(f"{pid}: {len(sample)} mutants, {len(surv)} pass the repo's tests", flush=True)
            surv = surv[:a.max_checks]
            jobs2 = [j[:7] + ("check",) for j in surv]
            with cf.ThreadPoolExecutor(max_workers=a.jobs) as ex:
                for r in ex.map(run_one, jobs2):
                    results.append(r)
                    print(f"  [{pid} {r['idx']}] {r['verdict']:16s} {r.get('wall')}s {r['desc']}", flush=True)
            summary = {}
            for r in results:
                summary[r["verdict"]] = summary.get(r["verdict"], 0) + 1
            (outdir / f"{pid}.json").write_text(json.dumps({"property": pid, "functions": fns, "total_mutants": len(allm),
                                                            "ran": len(sample), "summary": summary, "results": results},
                                                           indent=1) + "\n")
            print(f"{pid}: {summary}", flush=True)
    finally:
        shutil.rmtree(workdir, ignore_errors=True)


if __name__ == "__main__":
    main()
