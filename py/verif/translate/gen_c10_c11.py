"""Generators for Gen/Time.lean (C11) and Gen/Conv.lean (C10): what celtypes.py / evaluation.py say
NOW about constants, tables, regexes, dispatch ladders, `__str__` formats, accessor expressions and
exception handlers.  Three kinds of output:
  * values computed from the extracted literals exactly as the source computes them (scale table,
    unit order);
  * small semantic translations (accessor expressions -> `AExp`, handler lists -> `List Exc`);
  * normalised source text (`ast.unparse`) of the statements the hand model was written from,
    compared literally by the bridge (any edit of those statements breaks the bridge and triggers
    the failing-input search; a harmless rewrite then ends in `no-failing-input-found`);
  * (C10, round 2) the `__new__` dispatch of IntType/UintType/DoubleType/StringType/BytesType/BoolType
    as Lean functions `Cls → text → statements executed` (`_Dispatch`): if/elif/else chains, nested ifs,
    early returns, `and`/`or`/`not`, `isinstance` tuples and membership sets in any order all lead to
    the same function; the bridge proves it equal to the pinned one for ALL classes and ALL texts.
"""
from __future__ import annotations
import ast
from fractions import Fraction
from .py2lean import TranslationError, find_class, find_func, lean_list, strip_doc
from .common import parse, HEADER, exc_names, lean_exc
from .c11_norm import Norm, _loads, _simple_assign
from .c11_tz import gen_tz


def lean_str(s: str) -> str:
    """Lean string literal; non-ASCII characters are written as themselves"""
    out = ['"']
    for ch in s:
        o = ord(ch)
        if ch == '"':
            out.append('\\"')
        elif ch == "\\":
            out.append("\\\\")
        elif ch == "\n":
            out.append("\\n")
        elif ch == "\t":
            out.append("\\t")
        elif ch == "\r":
            out.append("\\r")
        elif o < 32 or o == 127:
            out.append("\\x%02x" % o)
        else:
            out.append(ch)
    out.append('"')
    return "".join(out)


def _cls_const(cls: ast.ClassDef, name: str) -> int:
    for st in cls.body:
        if isinstance(st, ast.Assign) and len(st.targets) == 1 and isinstance(st.targets[0], ast.Name) and st.targets[0].id == name:
            try:
                v = ast.literal_eval(st.value)
            except Exception:
                raise TranslationError(f"{cls.name}.{name}: not a literal")
            if not isinstance(v, int):
                raise TranslationError(f"{cls.name}.{name}: not an int")
            return v
    raise TranslationError(f"{cls.name}.{name}: not found")


def _scale_dict(cls: ast.ClassDef) -> dict:
    for st in cls.body:
        tgt = st.target if isinstance(st, ast.AnnAssign) else (st.targets[0] if isinstance(st, ast.Assign) else None)
        if isinstance(tgt, ast.Name) and tgt.id == "scale":
            node = st.value
            if not isinstance(node, ast.Dict):
                raise TranslationError("DurationType.scale: not a dict literal")
            out = {}
            for k, v in zip(node.keys, node.values):
                if not (isinstance(k, ast.Constant) and isinstance(k.value, str)):
                    raise TranslationError("DurationType.scale: key")
                for n in ast.walk(v):
                    if not isinstance(n, (ast.Constant, ast.BinOp, ast.Mult, ast.Div, ast.Add, ast.Sub, ast.UnaryOp, ast.USub, ast.UAdd, ast.Pow)):
                        raise TranslationError(f"DurationType.scale[{k.value!r}]: not constant arithmetic")
                out[k.value] = eval(compile(ast.Expression(v), "<scale>", "eval"), {"__builtins__": {}})
            return out
    raise TranslationError("DurationType.scale: not found")


def _last_func(body, name: str) -> ast.FunctionDef:
    """the last `def name` in a class body (earlier ones are @overload stubs)"""
    fs = [st for st in body if isinstance(st, ast.FunctionDef) and st.name == name]
    if not fs:
        raise TranslationError(f"function {name} not found")
    return fs[-1]


def _body_text(fn: ast.FunctionDef) -> str:
    return "\n".join(ast.unparse(s) for s in strip_doc(fn.body))


def _body_text_norm(fn: ast.FunctionDef) -> str:
    """like `_body_text`, after folding `x = E` immediately followed by `return x` into `return E` (repeatedly):
    a result bound to a local just to be returned is the same as returning it"""
    body = list(strip_doc(fn.body))
    changed = True
    while changed and len(body) >= 2:
        changed = False
        a, b = body[-2], body[-1]
        tgt = None
        if isinstance(a, ast.Assign) and len(a.targets) == 1 and isinstance(a.targets[0], ast.Name):
            tgt, val = a.targets[0].id, a.value
        elif isinstance(a, ast.AnnAssign) and isinstance(a.target, ast.Name) and a.value is not None:
            tgt, val = a.target.id, a.value
        if tgt and isinstance(b, ast.Return) and isinstance(b.value, ast.Name) and b.value.id == tgt:
            body = body[:-2] + [ast.Return(value=val)]
            changed = True
    return "\n".join(ast.unparse(ast.fix_missing_locations(st)) for st in body)


class _StrNF:
    """Normal form of a `__str__` body (round 4): the body is evaluated symbolically into ONE expression over
      cat(p, ...)            string concatenation; parts: 'literal', fmt(X|spec|conv) = format(X, spec) (what an f-string field,
                             `format(X, spec)` and a `'..{0}..'.format(X)` field all do), or a string-valued sub-expression
      slice(X, lo, hi)       X[lo:hi] with constant bounds
      ite(C, A, B)           `if C: return A` / `return B` and `A if C else B`
      endswith(X, 'K')       X.endswith('K') and X[-len(K):] == 'K' (equal for every X: a shorter X gives a shorter slice)
      anything else          its source text with the locals replaced by their definitions
    Locals are evaluated away (the expressions of a `__str__` body — attribute reads, strftime, total_seconds, int — are
    pure, so binding one to a name, renaming it or using it twice is invisible).  f'{S}' of a value already known to be a
    str (a cat / slice) is S.  Format specs, literals, slice bounds, the tested suffix and every call stay in the text:
    `04d` -> `4d`, `[:-5]` -> `[:-4]`, `'+0000'` -> `'+000'`, `int(` -> `round(` all change it."""

    def __init__(self, name):
        self.name = name

    def fail(self, what):
        raise TranslationError(f"{self.name}.__str__: {what}")

    @staticmethod
    def is_str(v):
        return v[0] in ("cat", "slice_s") or (v[0] == "ite" and _StrNF.is_str(v[2]) and _StrNF.is_str(v[3]))

    def cat(self, parts):
        flat = []
        for p in parts:
            for q in (p[1] if p[0] == "cat" else [p]):
                if q[0] == "lit" and flat and flat[-1][0] == "lit":
                    flat[-1] = ("lit", flat[-1][1] + q[1])
                elif q != ("lit", ""):
                    flat.append(q)
        return ("cat", flat)

    def render(self, v) -> str:
        k = v[0]
        if k == "lit":
            return repr(v[1])
        if k == "atom":
            return v[1]
        if k == "fmt":
            return f"fmt({self.render(v[1])}|{v[2]}|{v[3]})"
        if k == "cat":
            return "cat(" + ", ".join(self.render(p) for p in v[1]) + ")"
        if k in ("slice", "slice_s"):
            return f"slice({self.render(v[1])}, {v[2]}, {v[3]})"
        if k == "ite":
            return f"ite({self.render(v[1])}, {self.render(v[2])}, {self.render(v[3])})"
        if k == "endswith":
            return f"endswith({self.render(v[1])}, {v[2]!r})"
        if k == "not":
            return f"not({self.render(v[1])})"
        self.fail(f"render {k}")

    def generic(self, e, env):
        """source text of `e` with the locals replaced by (the rendering of) their definitions"""
        import copy
        nf = self

        class Sub(ast.NodeTransformer):
            def visit_Name(self, node):
                if node.id in env and isinstance(node.ctx, ast.Load):
                    return ast.Name(id="(" + nf.render(env[node.id]) + ")", ctx=ast.Load())
                return node

            def visit_Lambda(self, node):
                nf.fail("lambda")

        for n in ast.walk(e):
            if isinstance(n, (ast.NamedExpr, ast.ListComp, ast.SetComp, ast.DictComp, ast.GeneratorExp, ast.Await, ast.Yield)):
                self.fail(f"expression {type(n).__name__}")
        return ("atom", ast.unparse(ast.fix_missing_locations(Sub().visit(copy.deepcopy(e)))))

    def field(self, value, spec, conv, env):
        v = self.ev(value, env)
        if spec == "" and conv == -1 and self.is_str(v):
            return v                               # format(s, '') of a str is the str
        return ("fmt", v, spec, conv)

    def const_int(self, e):
        if e is None:
            return None
        if isinstance(e, ast.UnaryOp) and isinstance(e.op, ast.USub) and isinstance(e.operand, ast.Constant) and type(e.operand.value) is int:
            return -e.operand.value
        if isinstance(e, ast.Constant) and type(e.value) is int:
            return e.value
        self.fail("slice bound")

    def ev(self, e, env):
        if isinstance(e, ast.Constant) and isinstance(e.value, str):
            return self.cat([("lit", e.value)])
        if isinstance(e, ast.Name) and e.id in env:
            return env[e.id]
        if isinstance(e, ast.JoinedStr):
            parts = []
            for p in e.values:
                if isinstance(p, ast.Constant):
                    parts.append(("lit", p.value))
                else:
                    spec = ""
                    if p.format_spec is not None:
                        if not all(isinstance(x, ast.Constant) for x in p.format_spec.values):
                            self.fail("nested format spec")
                        spec = "".join(x.value for x in p.format_spec.values)
                    parts.append(self.field(p.value, spec, p.conversion, env))
            return self.cat(parts)
        if isinstance(e, ast.Call) and not e.keywords:
            if isinstance(e.func, ast.Name) and e.func.id == "format" and e.func.id not in env and len(e.args) in (1, 2):
                spec = ""
                if len(e.args) == 2:
                    if not (isinstance(e.args[1], ast.Constant) and isinstance(e.args[1].value, str)):
                        return self.generic(e, env)
                    spec = e.args[1].value
                return self.cat([self.field(e.args[0], spec, -1, env)])
            if isinstance(e.func, ast.Attribute) and e.func.attr == "format" and isinstance(e.func.value, ast.Constant) \
                    and isinstance(e.func.value.value, str) and not any(isinstance(a, ast.Starred) for a in e.args):
                import string
                parts, auto = [], 0
                for lit, fld, spec, conv in string.Formatter().parse(e.func.value.value):
                    if lit:
                        parts.append(("lit", lit))
                    if fld is None:
                        continue
                    if fld == "":
                        idx, auto = auto, auto + 1
                    elif fld.isdigit():
                        idx = int(fld)
                    else:
                        self.fail(f"format field {fld!r}")
                    if idx >= len(e.args) or "{" in (spec or ""):
                        self.fail("format field")
                    parts.append(self.field(e.args[idx], spec or "", ord(conv) if conv else -1, env))
                return self.cat(parts)
        if isinstance(e, ast.BinOp) and isinstance(e.op, ast.Add):
            a, b = self.ev(e.left, env), self.ev(e.right, env)
            if self.is_str(a) or self.is_str(b):
                return self.cat([a, b])           # str + x is concatenation (or a TypeError on both sides of the bridge)
            return self.generic(e, env)
        if isinstance(e, ast.Subscript) and isinstance(e.slice, ast.Slice) and e.slice.step is None:
            x = self.ev(e.value, env)
            return ("slice_s" if self.is_str(x) else "slice", x, self.const_int(e.slice.lower), self.const_int(e.slice.upper))
        if isinstance(e, ast.IfExp):
            return self.ite(self.cond(e.test, env), self.ev(e.body, env), self.ev(e.orelse, env))
        if isinstance(e, ast.Compare) or (isinstance(e, ast.UnaryOp) and isinstance(e.op, ast.Not)) or \
                (isinstance(e, ast.Call) and isinstance(e.func, ast.Attribute) and e.func.attr == "endswith"):
            return self.cond(e, env)
        return self.generic(e, env)

    def ite(self, c, a, b):
        if c[0] == "not":
            return ("ite", c[1], b, a)
        return ("ite", c, a, b)

    def cond(self, e, env):
        if isinstance(e, ast.Name) and e.id in env:
            return env[e.id]
        if isinstance(e, ast.UnaryOp) and isinstance(e.op, ast.Not):
            c = self.cond(e.operand, env)
            return c[1] if c[0] == "not" else ("not", c)
        if isinstance(e, ast.Call) and isinstance(e.func, ast.Attribute) and e.func.attr == "endswith" and len(e.args) == 1 \
                and not e.keywords and isinstance(e.args[0], ast.Constant) and isinstance(e.args[0].value, str):
            return ("endswith", self.ev(e.func.value, env), e.args[0].value)
        if isinstance(e, ast.Compare) and len(e.ops) == 1 and isinstance(e.ops[0], (ast.Eq, ast.NotEq)):
            l, r = e.left, e.comparators[0]
            if isinstance(l, ast.Constant):
                l, r = r, l
            if isinstance(r, ast.Constant) and isinstance(r.value, str) and r.value and isinstance(l, ast.Subscript) \
                    and isinstance(l.slice, ast.Slice) and l.slice.step is None and l.slice.upper is None \
                    and l.slice.lower is not None and self.const_int(l.slice.lower) == -len(r.value):
                c = ("endswith", self.ev(l.value, env), r.value)
                return c if isinstance(e.ops[0], ast.Eq) else ("not", c)
        return self.generic(e, env)

    def body(self, stmts, env):
        env = dict(env)
        for i, st in enumerate(stmts):
            if isinstance(st, ast.Assign) and len(st.targets) == 1 and isinstance(st.targets[0], ast.Name):
                env[st.targets[0].id] = self.ev(st.value, env)
            elif isinstance(st, ast.AnnAssign) and isinstance(st.target, ast.Name):
                if st.value is not None:
                    env[st.target.id] = self.ev(st.value, env)
            elif isinstance(st, ast.Return) and st.value is not None:
                return self.ev(st.value, env)
            elif isinstance(st, ast.If):
                rest = list(stmts[i + 1:])
                return self.ite(self.cond(st.test, env), self.body(list(st.body) + rest, env), self.body(list(st.orelse) + rest, env))
            else:
                self.fail(f"statement {ast.unparse(st)[:50]}")
        self.fail("no return")

    def run(self, fn: ast.FunctionDef) -> str:
        if len(fn.args.args) != 1 or fn.args.vararg or fn.args.kwarg or fn.args.kwonlyargs:
            self.fail("signature")
        return "return " + self.render(self.body(list(strip_doc(fn.body)), {}))


def _str_body(cname: str, fn: ast.FunctionDef) -> str:
    try:
        return _StrNF(cname).run(fn)
    except TranslationError as ex:
        return f"<not followed: {ex}>\n" + _body_text_norm(fn)


def _ladder(fn: ast.FunctionDef) -> list:
    """[(test, body)] of the first if/elif/else chain of a `__new__`, plus trailing statements"""
    out = []
    for st in strip_doc(fn.body):
        if isinstance(st, ast.If):
            c = st
            while True:
                out.append((ast.unparse(c.test), "; ".join(ast.unparse(b) for b in c.body)))
                if len(c.orelse) == 1 and isinstance(c.orelse[0], ast.If):
                    c = c.orelse[0]
                else:
                    if c.orelse:
                        out.append(("else", "; ".join(ast.unparse(b) for b in c.orelse)))
                    break
        elif isinstance(st, ast.AnnAssign) and st.value is None:
            continue                               # bare annotation `convert: Callable[..., int]`
        else:
            out.append(("then", ast.unparse(st)))
    return out


def _pairs(items) -> str:
    return "[" + ",\n   ".join(f"({lean_str(a)}, {lean_str(b)})" for a, b in items) + "]"


def _handlers(evcls: ast.ClassDef, rule: str) -> list:
    f = find_func(evcls.body, rule)
    hs = []
    for node in ast.walk(f):
        if isinstance(node, ast.Try):
            for h in node.handlers:
                hs += exc_names(h.type)
    return hs


# ---- accessor expressions ---------------------------------------------------------------------
class _Acc:
    """symbolic evaluation of a `getX` body into the little expression language `AExp`.

    Values: SELF (the timestamp), TZNAME (the accessor's zone argument), TZ (`tz_parse(TZNAME)`), WD
    (`SELF.astimezone(TZ)`), JAN1, ("K", int), ("A", lean) an integer expression over the fields of WD, ("I", lean)
    the same wrapped by `IntType(...)`, ("M", name) the result of `SELF.<accessor>(TZNAME)`.
    Locals are evaluated away (renaming / hoisting / inlining a local is invisible) and calls of other methods of
    the class (`self._civil(tz_name)`) or of module-level functions are INLINED (up to 3 levels): their bodies go
    through the same evaluation, so an extracted helper is followed, and a helper that does anything else than
    the recognised primitives is a translation failure."""
    def __init__(self, name, cls: ast.ClassDef = None, mod: ast.Module = None):
        self.name = name
        self.cls = cls
        self.mod = mod

    def fail(self, what):
        raise TranslationError(f"{self.name}: {what}")

    INT_WRAPPERS = ("IntType", "celtypes.IntType", "celpy.celtypes.IntType")

    def ev(self, e, env, depth):
        if isinstance(e, ast.Constant) and isinstance(e.value, int) and not isinstance(e.value, bool):
            return ("K", e.value)
        if isinstance(e, ast.Name):
            if e.id in env:
                return env[e.id]
            self.fail(f"name {e.id}")
        if isinstance(e, ast.Call):
            fsrc = ast.unparse(e.func)
            if fsrc in self.INT_WRAPPERS and len(e.args) == 1 and not e.keywords:
                r = self.ev(e.args[0], env, depth)
                if r[0] in ("A", "I"):
                    return ("I", r[1])          # IntType(IntType(x)) == IntType(x)
                if r[0] == "M":
                    return r                     # accessors return an IntType already
                self.fail("IntType(...) of a non-integer expression")
            if fsrc == "datetime.datetime":
                args = [self.ev(a, env, depth) for a in e.args]
                kws = {k.arg: self.ev(k.value, env, depth) for k in e.keywords}
                if args == [("A", ".fld \"year\""), ("K", 1), ("K", 1)] and kws == {"tzinfo": ("TZ",)}:
                    return ("JAN1",)
                self.fail("datetime.datetime(...) shape")
            if isinstance(e.func, ast.Attribute):
                static = fsrc in ("TimestampType.tz_parse",)
                base = ("SELF",) if static else self.ev(e.func.value, env, depth)
                attr = e.func.attr
                if base == ("SELF",):
                    args = [self.ev(a, env, depth) for a in e.args]
                    if e.keywords:
                        self.fail(f"keyword arguments in {fsrc}(...)")
                    if attr == "tz_parse":
                        if args == [("TZNAME",)]:
                            return ("TZ",)
                        self.fail("tz_parse(...) of something else than the zone argument")
                    if attr == "astimezone":
                        if args == [("TZ",)]:
                            return ("WD",)
                        self.fail("astimezone(...) of something else than tz_parse(tz_name)")
                    if attr in ACCESSORS and args == [("TZNAME",)]:
                        return ("M", attr)
                    helper = None
                    if self.cls is not None:
                        helper = next((st for st in self.cls.body if isinstance(st, ast.FunctionDef) and st.name == attr), None)
                    if helper is None:
                        self.fail(f"call {fsrc}")
                    decs = [ast.unparse(d) for d in helper.decorator_list]
                    if decs == ["staticmethod"]:
                        return self.inline(helper, args, depth)
                    if decs == []:
                        return self.inline(helper, [("SELF",)] + args, depth)
                    self.fail(f"helper {attr} is decorated")
                if not e.args and not e.keywords:
                    if base == ("WD",):
                        return ("A", f".call {lean_str(attr)}")
                    if base == ("JAN1",) and attr == "toordinal":
                        return ("A", ".jan1ord")
                self.fail(f"call {fsrc}")
            if isinstance(e.func, ast.Name) and self.mod is not None and not e.keywords:
                helper = next((st for st in self.mod.body if isinstance(st, ast.FunctionDef) and st.name == e.func.id), None)
                if helper is not None and not helper.decorator_list:
                    return self.inline(helper, [self.ev(a, env, depth) for a in e.args], depth)
            self.fail(f"call {fsrc}")
        if isinstance(e, ast.Attribute):
            base = self.ev(e.value, env, depth)
            if base == ("WD",):
                return ("A", f".fld {lean_str(e.attr)}")
            self.fail(f"attribute {e.attr}")
        if isinstance(e, ast.BinOp):
            a = self.ev(e.left, env, depth)
            if a[0] != "A":
                self.fail("operand")
            b = self.ev(e.right, env, depth)
            if b[0] == "K" and b[1] >= 0:
                op = {ast.Sub: "subk", ast.Mod: "modk", ast.FloorDiv: "floordivk", ast.Add: "addk"}.get(type(e.op))
                if op is None:
                    self.fail("operator")
                return ("A", f".{op} ({a[1]}) {b[1]}")
            if isinstance(e.op, ast.Sub) and b[0] == "A":
                return ("A", f".sub ({a[1]}) ({b[1]})")
            self.fail("operator")
        self.fail(f"expression {ast.unparse(e)}")

    def inline(self, fn: ast.FunctionDef, args, depth):
        if depth >= 3:
            self.fail(f"helper calls nested too deeply at {fn.name}")
        a = fn.args
        if a.vararg or a.kwarg or a.kwonlyargs or a.posonlyargs or len(args) != len(a.args):
            self.fail(f"helper {fn.name}: argument shape")
        return self.body(fn, {p.arg: v for p, v in zip(a.args, args)}, depth + 1)

    def body(self, fn: ast.FunctionDef, env, depth):
        env = dict(env)
        for st in strip_doc(fn.body):
            if isinstance(st, ast.Assign) and len(st.targets) == 1 and isinstance(st.targets[0], ast.Name):
                env[st.targets[0].id] = self.ev(st.value, env, depth)
            elif isinstance(st, ast.AnnAssign) and isinstance(st.target, ast.Name) and st.value is not None:
                env[st.target.id] = self.ev(st.value, env, depth)
            elif isinstance(st, ast.Return) and st.value is not None:
                return self.ev(st.value, env, depth)
            else:
                self.fail(f"statement {ast.unparse(st)[:60]}")
        self.fail("no return")

    def _entry(self, fn: ast.FunctionDef):
        a = fn.args
        if a.vararg or a.kwarg or a.kwonlyargs or a.posonlyargs or len(a.args) != 2 or len(a.defaults) != 1 \
                or not (isinstance(a.defaults[0], ast.Constant) and a.defaults[0].value is None):
            self.fail("signature is not (timestamp, tz_name=None)")
        return {a.args[0].arg: ("SELF",), a.args[1].arg: ("TZNAME",)}

    def run(self, fn: ast.FunctionDef) -> str:
        r = self.body(fn, self._entry(fn), 0)
        if r[0] != "I":
            self.fail("return value is not IntType(<integer expression>)")
        return r[1]

    def run_wrapper(self, fn: ast.FunctionDef) -> str:
        """evaluation.function_getX: must hand the timestamp and the zone to the method of the same timestamp"""
        r = self.body(fn, self._entry(fn), 0)
        if r[0] != "M":
            self.fail("wrapper does not return ts.<accessor>(tz_name)")
        return r[1]


ACCESSORS = ["getDate", "getDayOfMonth", "getDayOfWeek", "getDayOfYear", "getFullYear", "getMonth",
             "getHours", "getMinutes", "getSeconds", "getMilliseconds"]


def gen_time() -> str:
    m = parse("src/celpy/celtypes.py")
    ev = parse("src/celpy/evaluation.py")
    D = find_class(m, "DurationType")
    T = find_class(m, "TimestampType")
    out = [HEADER.format(src="src/celpy/celtypes.py (TimestampType, DurationType), src/celpy/evaluation.py (addition, method_eval)"),
           "import Cel.Model.Basic\nnamespace Cel.Gen.Time\n"]
    out.append(f"def maxSeconds : Int := {_cls_const(D, 'MaxSeconds')}")
    out.append(f"def minSeconds : Int := {_cls_const(D, 'MinSeconds')}")
    nps = _cls_const(D, "NanosecondsPerSecond")
    out.append(f"def nanosPerSecond : Nat := {nps}")
    scale = _scale_dict(D)
    new = find_func(D.body, "__new__")
    # Everything below is taken from the NORMAL FORM of `__new__` (c11_norm: accumulation loops -> sum(...),
    # single-assigned locals replaced by their definitions, surviving locals / comprehension variables renamed
    # canonically), so hoisting a sub-expression into a local, renaming a local or writing the sum as a loop
    # leaves the text unchanged, while any change of a regex / factor / check changes it.
    nf = Norm(new)
    new = nf.fn

    def calls(name):
        return [n for n in ast.walk(new) if isinstance(n, ast.Call) and ast.unparse(n.func) == name and n.args]

    def one_call(name):
        cs = calls(name)
        if len(cs) != 1:
            raise TranslationError(f"DurationType.__new__: {len(cs)} calls of {name} (expected 1)")
        return cs[0]

    comp, fit = one_call("re.compile"), one_call("re.finditer")
    duration_pat = nf.expand(comp.args[0], nf.stmt_line(comp))
    # the table the parser uses: Fraction(scale[u]).limit_denominator(NanosecondsPerSecond), computed as the
    # source computes it (the expression itself is pinned below as `durTotalExpr`)
    rows = []
    for k, v in scale.items():
        fr = Fraction(v).limit_denominator(nps)
        rows.append(f"({lean_str(k)}, {fr.numerator}, {fr.denominator})")
    out.append("/-- unit, numerator, denominator of the unit in seconds -/")
    out.append("def scaleTable : List (String × Nat × Nat) := " + lean_list(rows))
    holes = [ast.unparse(nf.canon(h.value)) for h in ast.walk(duration_pat) if isinstance(h, ast.FormattedValue)]
    if len(holes) != 1 or "sorted(cls.scale.keys(), key=len, reverse=True)" not in holes[0]:
        raise TranslationError("DurationType.__new__: the unit alternation is not built from sorted(scale, key=len, reverse=True)")
    order = sorted(scale.keys(), key=len, reverse=True)
    out.append("def unitOrder : List String := " + lean_list([lean_str(u) for u in order]))
    out.append("def unitsPatternExpr : String := " + lean_str(holes[0]))
    # readability: a pinned text that contains another pinned text shows it as ‹name› (purely textual)
    P = ast.unparse(nf.canon(duration_pat))
    F = nf.text(fit.args[0], nf.stmt_line(fit))
    out.append("def durationPat : String := " + lean_str(P.replace(holes[0], "‹units›")))
    out.append("def finditerPat : String := " + lean_str(F.replace(holes[0], "‹units›")))
    # the sum over the components: the last assignment whose (expanded) value runs re.finditer
    tot = None
    for st in ast.walk(new):
        sa = _simple_assign(st)
        if sa:
            val = nf.expand(sa[1], st.lineno)
            if any(isinstance(n, ast.Call) and ast.unparse(n.func) == "re.finditer" for n in ast.walk(val)):
                if tot is None or st.lineno > tot[0].lineno:
                    tot = (st, val)
    if tot is None:
        raise TranslationError("DurationType.__new__: no assignment computes the sum over re.finditer")
    TOT = ast.unparse(nf.canon(tot[1]))
    out.append("def durTotalExpr : String := " + lean_str(TOT.replace(F, "‹finditerPat›")))

    def short(t):
        return t.replace(TOT, "‹total›").replace(P, "‹durationPat›")
    # the sign has been consumed (and `seconds` stripped of it) before the sum is computed
    late = [nm for nm in set(_loads(tot[1])) if nm in nf.multi
            and any(b is not new and b.lineno >= tot[0].lineno for b in nf.binds[nm])]
    out.append("def durSignBeforeTotal : Bool := " + ("true" if not late else "false"))
    # exception classes under which the sum is computed (`except KeyError: raise ValueError`)
    hs = []
    for t in ast.walk(new):
        if isinstance(t, ast.Try) and any(n is tot[0] for b in t.body for n in ast.walk(b)):
            for h in t.handlers:
                hs += exc_names(h.type)
    out.append("def durTotalHandlers : List String := " + lean_list([lean_str(h) for h in sorted(set(hs))]))
    # branch tests, range checks and constructor calls of DurationType.__new__, in source order
    out.append("def durNewTests : List String := " + lean_list([lean_str(t) for t, _ in _ladder(new)]))
    checks = [nf.text(n.test, n.lineno) for n in ast.walk(new) if isinstance(n, ast.If) and any(isinstance(b, ast.Raise) for b in n.body)]
    out.append("def durRaiseTests : List String := " + lean_list([lean_str(short(c)) for c in checks]))
    ctors = [nf.text(n.value, n.lineno) for n in ast.walk(new) if isinstance(n, ast.Return) and n.value is not None]
    out.append("def durCtorCalls : List String := " + lean_list([lean_str(short(c)) for c in ctors]))
    # timestamp arithmetic dunders (normalised source)
    for n in ["__add__", "__radd__", "__sub__"]:
        out.append(f"def ts{n.strip('_').capitalize()}Body : String := " + lean_str(_body_text(_last_func(T.body, n))))
    # tz_offset_parse
    # (round 4) translated by symbolic execution into Lean functions (c11_tz), no longer pinned as text
    out.append(gen_tz(T, m, find_func(T.body, "tz_offset_parse"), find_func(T.body, "tz_parse")))
    # accessors
    out.append("""
/-- the expression language of the accessor bodies: fields / methods of `self.astimezone(new_tz)` -/
inductive AExp where
  | fld (name : String)
  | call (name : String)
  | jan1ord
  | sub (a b : AExp)
  | subk (a : AExp) (k : Nat)
  | addk (a : AExp) (k : Nat)
  | modk (a : AExp) (k : Nat)
  | floordivk (a : AExp) (k : Nat)
deriving DecidableEq, Repr
""")
    rows = []
    for a in ACCESSORS:
        rows.append(f"({lean_str(a)}, {_Acc("TimestampType." + a, T, m).run(find_func(T.body, a))})")
    out.append("def accessors : List (String × AExp) :=\n  [" + ",\n   ".join(rows) + "]")
    # the CEL-level functions: base_functions["getX"] -> evaluation.function_getX -> ts.<method>(tz_name)
    bf = {}
    for node in ast.walk(ev):
        tgt = val = None
        if isinstance(node, ast.AnnAssign) and isinstance(node.target, ast.Name):
            tgt, val = node.target.id, node.value
        elif isinstance(node, ast.Assign) and len(node.targets) == 1 and isinstance(node.targets[0], ast.Name):
            tgt, val = node.targets[0].id, node.value
        if tgt == "base_functions" and isinstance(val, ast.Dict):
            for k, v in zip(val.keys, val.values):
                if isinstance(k, ast.Constant) and k.value in ACCESSORS:
                    bf[k.value] = v
    rows = []
    for a in ACCESSORS:
        if a not in bf or not isinstance(bf[a], ast.Name):
            raise TranslationError(f"base_functions[{a!r}] is not a plain function name")
        w = _Acc("evaluation." + bf[a].id, None, ev).run_wrapper(find_func(ev.body, bf[a].id))
        rows.append(f"({lean_str(a)}, {lean_str(w)})")
    out.append("/-- CEL function name ↦ the `TimestampType` method its wrapper in evaluation.py calls with (ts, tz_name) -/")
    out.append("def accessorWrappers : List (String × String) :=\n  [" + ",\n   ".join(rows) + "]")
    # interpreter handlers
    evcls = find_class(ev, "Evaluator")
    for rule in ("addition", "method_eval", "function_eval"):
        out.append(f"def handlers_{rule} : List Cel.Exc := " + lean_list([lean_exc(c) for c in _handlers(evcls, rule)]))
    out.append("\nend Cel.Gen.Time\n")
    return "\n".join(out)


# ---- semantic dispatch of the `__new__` ladders (C10 round 2) ------------------------------------
CLS = ["NoneType", "object", "bool", "int", "float", "str", "bytes", "list", "dict", "datetime", "timedelta", "Iterable",
       "BoolType", "IntType", "UintType", "DoubleType", "StringType", "BytesType", "ListType", "MapType",
       "MessageType", "PackageType", "TimestampType", "DurationType", "NullType"]
BASE_EXPR = {"int": "int", "float": "float", "str": "str", "bytes": "bytes", "List[Value]": "list", "Dict[Value, Value]": "dict",
             "datetime.datetime": "datetime", "datetime.timedelta": "timedelta", "MapType": "MapType"}
TEXT_CLS = {"str", "StringType"}


def _codes(s: str) -> str:
    return "[" + ", ".join(str(ord(c)) for c in s) + "]"


class _Dispatch:
    """`__new__(cls, source)` → Lean function `Cls → List Nat → String`: for an object of exactly class `k`
    (and text `t` when it is a str) the statements that run, as `'; '`-joined normalised source.
    Tests: `source is None`, `isinstance(source, C | (C, …))`, `and` / `or` / `not`, and — only where the
    source is known to be text (to the right of / underneath an isinstance test for str classes) —
    `source[:n] in {…}` and `source in (…)` over string constants.  Anything else: TranslationError."""

    def __init__(self, cname: str, arg: str = "source"):
        self.cname = cname
        self.arg = arg

    def fail(self, what):
        raise TranslationError(f"{self.cname}.__new__: {what}")

    def classes(self, node) -> list:
        elts = node.elts if isinstance(node, ast.Tuple) else [node]
        out = []
        for e in elts:
            name = ast.unparse(e)
            name = {"datetime.datetime": "datetime", "datetime.timedelta": "timedelta"}.get(name, name)
            if name not in CLS:
                self.fail(f"isinstance against {name}")
            out.append(name)
        return sorted(set(out), key=CLS.index)

    def is_arg(self, e) -> bool:
        return isinstance(e, ast.Name) and e.id == self.arg

    def str_consts(self, node) -> list:
        if not isinstance(node, (ast.Set, ast.Tuple, ast.List)):
            self.fail(f"membership in {ast.unparse(node)[:40]}")
        vals = []
        for e in node.elts:
            if not (isinstance(e, ast.Constant) and isinstance(e.value, str)):
                self.fail("membership in a collection of non-string constants")
            vals.append(e.value)
        return sorted(set(vals))

    def implies_text(self, e) -> bool:
        """the test can only be true for a str / StringType source"""
        if isinstance(e, ast.Call) and ast.unparse(e.func) == "isinstance" and len(e.args) == 2 and self.is_arg(e.args[0]):
            return set(self.classes(e.args[1])) <= TEXT_CLS
        if isinstance(e, ast.BoolOp) and isinstance(e.op, ast.And):
            return any(self.implies_text(v) for v in e.values)
        if isinstance(e, ast.BoolOp) and isinstance(e.op, ast.Or):
            return all(self.implies_text(v) for v in e.values)
        return False

    def test(self, e, text_ok: bool) -> str:
        if isinstance(e, ast.Compare) and len(e.ops) == 1:
            op, rhs = e.ops[0], e.comparators[0]
            if isinstance(op, (ast.Is, ast.IsNot)) and self.is_arg(e.left) and isinstance(rhs, ast.Constant) and rhs.value is None:
                r = "Cel.Conv.isInst k [.NoneType]"
                return r if isinstance(op, ast.Is) else f"(!{r})"
            if isinstance(op, (ast.In, ast.NotIn)):
                if not text_ok:
                    self.fail(f"text test `{ast.unparse(e)[:50]}` where the source is not known to be a str")
                opts = "[" + ", ".join(_codes(v) for v in self.str_consts(rhs)) + "]"
                if self.is_arg(e.left):
                    r = f"Cel.Conv.textIn t {opts}"
                elif (isinstance(e.left, ast.Subscript) and self.is_arg(e.left.value) and isinstance(e.left.slice, ast.Slice)
                      and e.left.slice.lower is None and e.left.slice.step is None
                      and isinstance(e.left.slice.upper, ast.Constant) and isinstance(e.left.slice.upper.value, int)
                      and e.left.slice.upper.value >= 0):
                    r = f"Cel.Conv.prefixIn t {e.left.slice.upper.value} {opts}"
                else:
                    self.fail(f"test {ast.unparse(e)[:50]}")
                return r if isinstance(op, ast.In) else f"(!{r})"
            self.fail(f"test {ast.unparse(e)[:50]}")
        if isinstance(e, ast.Call) and ast.unparse(e.func) == "isinstance" and len(e.args) == 2 and not e.keywords:
            if not self.is_arg(e.args[0]):
                self.fail(f"isinstance of {ast.unparse(e.args[0])[:30]}")
            return "Cel.Conv.isInst k [" + ", ".join("." + c for c in self.classes(e.args[1])) + "]"
        if isinstance(e, ast.UnaryOp) and isinstance(e.op, ast.Not):
            return f"(!{self.test(e.operand, text_ok)})"
        if isinstance(e, ast.BoolOp):
            parts = []
            ok = text_ok
            for v in e.values:
                parts.append(self.test(v, ok))
                if isinstance(e.op, ast.And) and self.implies_text(v):
                    ok = True                     # operands to the right run only when this one was true
            return "(" + (" && " if isinstance(e.op, ast.And) else " || ").join(parts) + ")"
        self.fail(f"test {ast.unparse(e)[:50]}")

    def paths(self, stmts: list, acc: list, text_ok: bool, ind: str) -> str:
        for i, st in enumerate(stmts):
            if isinstance(st, ast.AnnAssign) and st.value is None:
                continue                          # bare annotation `convert: Callable[..., int]`
            if isinstance(st, ast.If):
                rest = stmts[i + 1:]
                c = self.test(st.test, text_ok)
                thn = self.paths(list(st.body) + rest, list(acc), text_ok or self.implies_text(st.test), ind + "  ")
                els = self.paths(list(st.orelse) + rest, list(acc), text_ok, ind + "  ")
                return f"\n{ind}if {c} then {thn}\n{ind}else {els}"
            if isinstance(st, (ast.For, ast.While, ast.Try, ast.With, ast.Match, ast.FunctionDef)):
                self.fail(f"statement {type(st).__name__}")
            acc.append(st)
            if isinstance(st, (ast.Return, ast.Raise)):
                return lean_str("; ".join(self.leaf(acc)))
        return lean_str("; ".join(self.leaf(acc) + ["<falls off the end>"]))

    @staticmethod
    def leaf(stmts: list) -> list:
        """normal form of the statements of one path (round 4):
        * `cast(T, x)` / `typing.cast(T, x)` is `x` (typing.cast returns its second argument unchanged at run time);
        * `name = E` IMMEDIATELY followed by a statement that reads `name` exactly once (and nothing later reads it) is
          folded into that statement — a value bound to a local just to be used in the next statement.  (The only
          thing that moves is the evaluation of E past the pure name / attribute look-ups to its left in the next
          statement.)  Everything else stays as written: which calls run with which arguments is still pinned."""
        import copy

        class Uncast(ast.NodeTransformer):
            def visit_Call(self, node):
                self.generic_visit(node)
                if ast.unparse(node.func) in ("cast", "typing.cast") and len(node.args) == 2 and not node.keywords:
                    return node.args[1]
                return node

        stmts = [Uncast().visit(copy.deepcopy(st)) for st in stmts]

        def loads(node, name):
            return sum(1 for n in ast.walk(node) if isinstance(n, ast.Name) and n.id == name and isinstance(n.ctx, ast.Load))

        def binds(node, name):
            return any(isinstance(n, ast.Name) and n.id == name and not isinstance(n.ctx, ast.Load) for n in ast.walk(node)) \
                or any(isinstance(n, (ast.Lambda, ast.FunctionDef)) and any(a.arg == name for a in n.args.args) for n in ast.walk(node))

        changed = True
        while changed:
            changed = False
            for i in range(len(stmts) - 1):
                a, b = stmts[i], stmts[i + 1]
                sa = None
                if isinstance(a, ast.Assign) and len(a.targets) == 1 and isinstance(a.targets[0], ast.Name):
                    sa = (a.targets[0].id, a.value)
                elif isinstance(a, ast.AnnAssign) and isinstance(a.target, ast.Name) and a.value is not None:
                    sa = (a.target.id, a.value)
                if sa is None:
                    continue
                name, val = sa
                if loads(b, name) != 1 or binds(b, name) or any(loads(x, name) or binds(x, name) for x in stmts[i + 2:]):
                    continue
                if any(isinstance(n, (ast.Lambda, ast.ListComp, ast.SetComp, ast.DictComp, ast.GeneratorExp)) and loads(n, name)
                       for n in ast.walk(b)):
                    continue                      # read inside a deferred / repeated body: not the same evaluation

                class Sub(ast.NodeTransformer):
                    def visit_Name(self, node):
                        return copy.deepcopy(val) if node.id == name and isinstance(node.ctx, ast.Load) else node

                stmts[i:i + 2] = [Sub().visit(b)]
                changed = True
                break
        return [ast.unparse(ast.fix_missing_locations(st)) for st in stmts]

    def run(self, fn: ast.FunctionDef, lname: str) -> str:
        args = [a.arg for a in fn.args.args]
        if len(args) < 2 or args[1] != self.arg:
            self.fail(f"signature ({', '.join(args)})")
        body = self.paths(strip_doc(fn.body), [], False, "  ")
        return f"def {lname} (k : Cel.Conv.Cls) (t : List Nat) : String :={body}"


def _class_bases(m: ast.Module) -> str:
    rows = []
    for n in m.body:
        if isinstance(n, ast.ClassDef) and n.name in CLS:
            if len(n.bases) > 1:
                raise TranslationError(f"class {n.name}: several bases")
            b = ast.unparse(n.bases[0]) if n.bases else "object"
            b = BASE_EXPR.get(b, b if b == "object" else None)
            if b is None:
                raise TranslationError(f"class {n.name}: base {ast.unparse(n.bases[0])}")
            rows.append((n.name, b))
    return lean_list([f"(.{a}, .{b})" for a, b in sorted(rows)])


def gen_conv() -> str:
    m = parse("src/celpy/celtypes.py")
    ev = parse("src/celpy/evaluation.py")
    out = [HEADER.format(src="src/celpy/celtypes.py (constructors, __str__), src/celpy/evaluation.py (base_functions, function_eval)"),
           "import Cel.Model.Basic\nimport Cel.Model.ConvDispatch\nnamespace Cel.Gen.Conv\n"]
    out.append("/-- direct bases of the celtypes classes -/\ndef classBases : List (Cel.Conv.Cls × Cel.Conv.Cls) := " + _class_bases(m))
    for cname in ("IntType", "UintType", "DoubleType", "StringType", "BytesType", "BoolType"):
        C = find_class(m, cname)
        out.append(_Dispatch(cname).run(_last_func(C.body, "__new__"), cname[0].lower() + cname[1:] + "New"))
    T = find_class(m, "TimestampType")
    lad = _ladder(find_func(T.body, "__new__"))
    out.append("def timestampTypeNewTests : List String := " + lean_list([lean_str(t) for t, _ in lad]))
    strb = [b for t, b in lad if t == "isinstance(source, str)"]
    out.append("def timestampTypeStrBranch : String := " + lean_str(strb[0] if strb else "<absent>"))
    for cname in ("IntType", "UintType", "DoubleType", "BoolType", "TimestampType", "DurationType"):
        C = find_class(m, cname)
        try:
            body = _str_body(cname, find_func(C.body, "__str__"))
        except TranslationError:
            body = "<absent>"
        out.append(f"def {cname[0].lower() + cname[1:]}Str : String := " + lean_str(body))
    # int64 / uint64 decorators are translated in Gen/Num.lean (bridge Cel.Bridge.Num)
    # conversion names in base_functions
    conv = {}
    for node in ast.walk(ev):
        tgt = None
        if isinstance(node, ast.AnnAssign) and isinstance(node.target, ast.Name):
            tgt, val = node.target.id, node.value
        elif isinstance(node, ast.Assign) and len(node.targets) == 1 and isinstance(node.targets[0], ast.Name):
            tgt, val = node.targets[0].id, node.value
        if tgt == "base_functions" and isinstance(val, ast.Dict):
            for k, v in zip(val.keys, val.values):
                if isinstance(k, ast.Constant) and k.value in ("bool", "bytes", "double", "duration", "int", "string", "timestamp", "uint"):
                    conv[k.value] = ast.unparse(v)
    if len(conv) != 8:
        raise TranslationError("base_functions: conversion entries not found")
    out.append("def conversions : List (String × String) :=\n  " + _pairs(sorted(conv.items())))
    evcls = find_class(ev, "Evaluator")
    out.append("def handlers_function_eval : List Cel.Exc := " + lean_list([lean_exc(c) for c in _handlers(evcls, "function_eval")]))
    out.append("\nend Cel.Gen.Conv\n")
    return "\n".join(out)


GENERATORS = {"Time": gen_time, "Conv": gen_conv}
