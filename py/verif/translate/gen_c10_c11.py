"""Generators for Gen/Time.lean (C11) and Gen/Conv.lean (C10): what celtypes.py / evaluation.py say
NOW about constants, tables, regexes, dispatch ladders, `__str__` formats, accessor expressions and
exception handlers.  Three kinds of output:
  * values computed from the extracted literals exactly as the source computes them (scale table,
    unit order);
  * small semantic translations (accessor expressions -> `AExp`, handler lists -> `List Exc`);
  * normalised source text (`ast.unparse`) of the statements the hand model was written from,
    compared literally by the bridge (any edit of those statements breaks the bridge and triggers
    the failing-input search; a harmless rewrite then ends in `no-failing-input-found`).
"""
from __future__ import annotations
import ast
from fractions import Fraction
from .py2lean import TranslationError, find_class, find_func, lean_list, strip_doc
from .common import parse, HEADER, exc_names, lean_exc


def lean_str(s: str) -> str:
    """Lean string literal; non-ASCII characters are written as themselves"""
    out = ['"']
    for ch in s:
        o = ord(ch)
        if ch == '"':
            out.append('\\"')
        elif ch == "\\":
            out.append("\\\\")
        elif ch == "\n":
            out.append("\\n")
        elif ch == "\t":
            out.append("\\t")
        elif ch == "\r":
            out.append("\\r")
        elif o < 32 or o == 127:
            out.append("\\x%02x" % o)
        else:
            out.append(ch)
    out.append('"')
    return "".join(out)


def _cls_const(cls: ast.ClassDef, name: str) -> int:
    for st in cls.body:
        if isinstance(st, ast.Assign) and len(st.targets) == 1 and isinstance(st.targets[0], ast.Name) and st.targets[0].id == name:
            try:
                v = ast.literal_eval(st.value)
            except Exception:
                raise TranslationError(f"{cls.name}.{name}: not a literal")
            if not isinstance(v, int):
                raise TranslationError(f"{cls.name}.{name}: not an int")
            return v
    raise TranslationError(f"{cls.name}.{name}: not found")


def _scale_dict(cls: ast.ClassDef) -> dict:
    for st in cls.body:
        tgt = st.target if isinstance(st, ast.AnnAssign) else (st.targets[0] if isinstance(st, ast.Assign) else None)
        if isinstance(tgt, ast.Name) and tgt.id == "scale":
            node = st.value
            if not isinstance(node, ast.Dict):
                raise TranslationError("DurationType.scale: not a dict literal")
            out = {}
            for k, v in zip(node.keys, node.values):
                if not (isinstance(k, ast.Constant) and isinstance(k.value, str)):
                    raise TranslationError("DurationType.scale: key")
                for n in ast.walk(v):
                    if not isinstance(n, (ast.Constant, ast.BinOp, ast.Mult, ast.Div, ast.Add, ast.Sub, ast.UnaryOp, ast.USub, ast.UAdd, ast.Pow)):
                        raise TranslationError(f"DurationType.scale[{k.value!r}]: not constant arithmetic")
                out[k.value] = eval(compile(ast.Expression(v), "<scale>", "eval"), {"__builtins__": {}})
            return out
    raise TranslationError("DurationType.scale: not found")


def _last_func(body, name: str) -> ast.FunctionDef:
    """the last `def name` in a class body (earlier ones are @overload stubs)"""
    fs = [st for st in body if isinstance(st, ast.FunctionDef) and st.name == name]
    if not fs:
        raise TranslationError(f"function {name} not found")
    return fs[-1]


def _body_text(fn: ast.FunctionDef) -> str:
    return "\n".join(ast.unparse(s) for s in strip_doc(fn.body))


def _ladder(fn: ast.FunctionDef) -> list:
    """[(test, body)] of the first if/elif/else chain of a `__new__`, plus trailing statements"""
    out = []
    for st in strip_doc(fn.body):
        if isinstance(st, ast.If):
            c = st
            while True:
                out.append((ast.unparse(c.test), "; ".join(ast.unparse(b) for b in c.body)))
                if len(c.orelse) == 1 and isinstance(c.orelse[0], ast.If):
                    c = c.orelse[0]
                else:
                    if c.orelse:
                        out.append(("else", "; ".join(ast.unparse(b) for b in c.orelse)))
                    break
        elif isinstance(st, ast.AnnAssign) and st.value is None:
            continue                               # bare annotation `convert: Callable[..., int]`
        else:
            out.append(("then", ast.unparse(st)))
    return out


def _pairs(items) -> str:
    return "[" + ",\n   ".join(f"({lean_str(a)}, {lean_str(b)})" for a, b in items) + "]"


def _handlers(evcls: ast.ClassDef, rule: str) -> list:
    f = find_func(evcls.body, rule)
    hs = []
    for node in ast.walk(f):
        if isinstance(node, ast.Try):
            for h in node.handlers:
                hs += exc_names(h.type)
    return hs


# ---- accessor expressions ---------------------------------------------------------------------
class _Acc:
    """symbolic evaluation of a `getX` body into the little expression language `AExp`"""
    def __init__(self, name):
        self.name = name
        self.env = {}

    def fail(self, what):
        raise TranslationError(f"TimestampType.{self.name}: {what}")

    def ev(self, e):
        if isinstance(e, ast.Name):
            if e.id in self.env:
                return self.env[e.id]
            self.fail(f"name {e.id}")
        if isinstance(e, ast.Call):
            fsrc = ast.unparse(e.func)
            if fsrc == "self.tz_parse" and len(e.args) == 1 and ast.unparse(e.args[0]) == "tz_name":
                return ("TZ",)
            if fsrc == "self.astimezone" and len(e.args) == 1 and self.ev(e.args[0]) == ("TZ",):
                return ("WD",)
            if fsrc == "datetime.datetime":
                args = [self.ev(a) if not isinstance(a, ast.Constant) else ("K", a.value) for a in e.args]
                kws = {k.arg: self.ev(k.value) for k in e.keywords}
                if args == [("A", ".fld \"year\""), ("K", 1), ("K", 1)] and kws == {"tzinfo": ("TZ",)}:
                    return ("JAN1",)
                self.fail("datetime.datetime(...) shape")
            if isinstance(e.func, ast.Attribute) and not e.args and not e.keywords:
                base = self.ev(e.func.value)
                if base == ("WD",):
                    return ("A", f".call {lean_str(e.func.attr)}")
                if base == ("JAN1",) and e.func.attr == "toordinal":
                    return ("A", ".jan1ord")
            self.fail(f"call {fsrc}")
        if isinstance(e, ast.Attribute):
            base = self.ev(e.value)
            if base == ("WD",):
                return ("A", f".fld {lean_str(e.attr)}")
            self.fail(f"attribute {e.attr}")
        if isinstance(e, ast.BinOp):
            a = self.ev(e.left)
            if a[0] != "A":
                self.fail("operand")
            if isinstance(e.right, ast.Constant) and isinstance(e.right.value, int) and e.right.value >= 0:
                k = e.right.value
                op = {ast.Sub: "subk", ast.Mod: "modk", ast.FloorDiv: "floordivk", ast.Add: "addk"}.get(type(e.op))
                if op is None:
                    self.fail("operator")
                return ("A", f".{op} ({a[1]}) {k}")
            b = self.ev(e.right)
            if isinstance(e.op, ast.Sub) and b[0] == "A":
                return ("A", f".sub ({a[1]}) ({b[1]})")
            self.fail("operator")
        self.fail(f"expression {ast.unparse(e)}")

    def run(self, fn: ast.FunctionDef) -> str:
        for st in strip_doc(fn.body):
            if isinstance(st, ast.Assign) and len(st.targets) == 1 and isinstance(st.targets[0], ast.Name):
                self.env[st.targets[0].id] = self.ev(st.value)
            elif isinstance(st, ast.Return) and isinstance(st.value, ast.Call) and ast.unparse(st.value.func) == "IntType" and len(st.value.args) == 1:
                r = self.ev(st.value.args[0])
                if r[0] != "A":
                    self.fail("return value")
                return r[1]
            else:
                self.fail(f"statement {ast.unparse(st)[:60]}")
        self.fail("no return")


ACCESSORS = ["getDate", "getDayOfMonth", "getDayOfWeek", "getDayOfYear", "getFullYear", "getMonth",
             "getHours", "getMinutes", "getSeconds", "getMilliseconds"]


def gen_time() -> str:
    m = parse("src/celpy/celtypes.py")
    ev = parse("src/celpy/evaluation.py")
    D = find_class(m, "DurationType")
    T = find_class(m, "TimestampType")
    out = [HEADER.format(src="src/celpy/celtypes.py (TimestampType, DurationType), src/celpy/evaluation.py (addition, method_eval)"),
           "import Cel.Model.Basic\nnamespace Cel.Gen.Time\n"]
    out.append(f"def maxSeconds : Int := {_cls_const(D, 'MaxSeconds')}")
    out.append(f"def minSeconds : Int := {_cls_const(D, 'MinSeconds')}")
    nps = _cls_const(D, "NanosecondsPerSecond")
    out.append(f"def nanosPerSecond : Nat := {nps}")
    scale = _scale_dict(D)
    new = find_func(D.body, "__new__")
    text = {}
    for node in ast.walk(new):
        if isinstance(node, ast.Assign) and len(node.targets) == 1 and isinstance(node.targets[0], ast.Name):
            text[node.targets[0].id] = ast.unparse(node.value)
    # the table the parser uses: Fraction(scale[u]).limit_denominator(NanosecondsPerSecond), computed as the
    # source computes it (the expression itself is pinned below as `durTermExpr`)
    rows = []
    for k, v in scale.items():
        fr = Fraction(v).limit_denominator(nps)
        rows.append(f"({lean_str(k)}, {fr.numerator}, {fr.denominator})")
    out.append("/-- unit, numerator, denominator of the unit in seconds -/")
    out.append("def scaleTable : List (String × Nat × Nat) := " + lean_list(rows))
    if text.get("valid_units") != "sorted(cls.scale.keys(), key=len, reverse=True)":
        raise TranslationError("DurationType.__new__: valid_units is not sorted(scale, key=len, reverse=True)")
    order = sorted(scale.keys(), key=len, reverse=True)
    out.append("def unitOrder : List String := " + lean_list([lean_str(u) for u in order]))
    out.append("def unitsPatternExpr : String := " + lean_str(text.get("units_pattern", "")))
    pats = {}
    for node in ast.walk(new):
        if isinstance(node, ast.Call) and ast.unparse(node.func) in ("re.compile", "re.finditer") and node.args:
            pats[ast.unparse(node.func)] = ast.unparse(node.args[0])
    out.append("def durationPat : String := " + lean_str(pats.get("re.compile", "")))
    out.append("def finditerPat : String := " + lean_str(pats.get("re.finditer", "")))
    out.append("def durTotalExpr : String := " + lean_str(text.get("total", "")))
    # branch tests, range checks and constructor calls of DurationType.__new__, in source order
    out.append("def durNewTests : List String := " + lean_list([lean_str(t) for t, _ in _ladder(new)]))
    checks = [ast.unparse(n.test) for n in ast.walk(new) if isinstance(n, ast.If) and any(isinstance(b, ast.Raise) for b in n.body)]
    out.append("def durRaiseTests : List String := " + lean_list([lean_str(c) for c in checks]))
    ctors = [ast.unparse(n.value) for n in ast.walk(new) if isinstance(n, ast.Return) and n.value is not None]
    out.append("def durCtorCalls : List String := " + lean_list([lean_str(c) for c in ctors]))
    # timestamp arithmetic dunders (normalised source)
    for n in ["__add__", "__radd__", "__sub__"]:
        out.append(f"def ts{n.strip('_').capitalize()}Body : String := " + lean_str(_body_text(_last_func(T.body, n))))
    # tz_offset_parse
    tzp = find_func(T.body, "tz_offset_parse")
    out.append("def tzOffsetParseBody : String := " + lean_str(_body_text(tzp)))
    out.append("def tzParseBody : String := " + lean_str(_body_text(find_func(T.body, "tz_parse"))))
    # accessors
    out.append("""
/-- the expression language of the accessor bodies: fields / methods of `self.astimezone(new_tz)` -/
inductive AExp where
  | fld (name : String)
  | call (name : String)
  | jan1ord
  | sub (a b : AExp)
  | subk (a : AExp) (k : Nat)
  | addk (a : AExp) (k : Nat)
  | modk (a : AExp) (k : Nat)
  | floordivk (a : AExp) (k : Nat)
deriving DecidableEq, Repr
""")
    rows = []
    for a in ACCESSORS:
        rows.append(f"({lean_str(a)}, {_Acc(a).run(find_func(T.body, a))})")
    out.append("def accessors : List (String × AExp) :=\n  [" + ",\n   ".join(rows) + "]")
    # interpreter handlers
    evcls = find_class(ev, "Evaluator")
    for rule in ("addition", "method_eval", "function_eval"):
        out.append(f"def handlers_{rule} : List Cel.Exc := " + lean_list([lean_exc(c) for c in _handlers(evcls, rule)]))
    out.append("\nend Cel.Gen.Time\n")
    return "\n".join(out)


def gen_conv() -> str:
    m = parse("src/celpy/celtypes.py")
    ev = parse("src/celpy/evaluation.py")
    out = [HEADER.format(src="src/celpy/celtypes.py (constructors, __str__), src/celpy/evaluation.py (base_functions, function_eval)"),
           "import Cel.Model.Basic\nnamespace Cel.Gen.Conv\n"]
    for cname in ("IntType", "UintType", "DoubleType", "StringType", "BytesType", "BoolType"):
        C = find_class(m, cname)
        out.append(f"def {cname[0].lower() + cname[1:]}NewLadder : List (String × String) :=\n  " + _pairs(_ladder(find_func(C.body, "__new__"))))
    T = find_class(m, "TimestampType")
    lad = _ladder(find_func(T.body, "__new__"))
    out.append("def timestampTypeNewTests : List String := " + lean_list([lean_str(t) for t, _ in lad]))
    strb = [b for t, b in lad if t == "isinstance(source, str)"]
    out.append("def timestampTypeStrBranch : String := " + lean_str(strb[0] if strb else "<absent>"))
    for cname in ("IntType", "UintType", "DoubleType", "BoolType", "TimestampType", "DurationType"):
        C = find_class(m, cname)
        try:
            body = _body_text(find_func(C.body, "__str__"))
        except TranslationError:
            body = "<absent>"
        out.append(f"def {cname[0].lower() + cname[1:]}Str : String := " + lean_str(body))
    # int64 / uint64 decorators are translated in Gen/Num.lean (bridge Cel.Bridge.Num)
    # conversion names in base_functions
    conv = {}
    for node in ast.walk(ev):
        tgt = None
        if isinstance(node, ast.AnnAssign) and isinstance(node.target, ast.Name):
            tgt, val = node.target.id, node.value
        elif isinstance(node, ast.Assign) and len(node.targets) == 1 and isinstance(node.targets[0], ast.Name):
            tgt, val = node.targets[0].id, node.value
        if tgt == "base_functions" and isinstance(val, ast.Dict):
            for k, v in zip(val.keys, val.values):
                if isinstance(k, ast.Constant) and k.value in ("bool", "bytes", "double", "duration", "int", "string", "timestamp", "uint"):
                    conv[k.value] = ast.unparse(v)
    if len(conv) != 8:
        raise TranslationError("base_functions: conversion entries not found")
    out.append("def conversions : List (String × String) :=\n  " + _pairs(sorted(conv.items())))
    evcls = find_class(ev, "Evaluator")
    out.append("def handlers_function_eval : List Cel.Exc := " + lean_list([lean_exc(c) for c in _handlers(evcls, "function_eval")]))
    out.append("\nend Cel.Gen.Conv\n")
    return "\n".join(out)


GENERATORS = {"Time": gen_time, "Conv": gen_conv}
