"""Generator for Gen/Funcs.lean (C14): what the source says NOW about binding and applying host functions.

Extracted from src/celpy/evaluation.py (and src/celpy/*.py for writes to base_functions):

* the keys of `base_functions`;
* `Activation.__init__`: for each supplying style the order of the maps in the `ChainMap`, and the attribute used as the
  key when a list of callables is supplied;
* every statement anywhere in src/celpy that writes `base_functions`;
* `Evaluator.function_eval` / `method_eval`: classes caught around the name lookup and around the application, the
  erroneous-argument checks; the `exprlist` rule returning the first error;
* `result()`'s caught classes;
* `Phase1Transpiler.func_name` / `host_function`: identity check before dotted text, the fallback texts, the argument check;
* which names `member_dot_arg` / `ident_arg` treat as macros (both evaluators);
* laziness of `?:` in the interpreter (`if cond_value:` visits one child) and the number of `result()` operands of the
  transpiled `?:` template.
"""
from __future__ import annotations
import ast
from pathlib import Path
from typing import List

from .py2lean import TranslationError, find_class, find_func, lean_str, lean_list
from .common import parse, HEADER, exc_names, lean_exc, REPO

EV = "src/celpy/evaluation.py"


def _is_name(node, name: str) -> bool:
    return isinstance(node, ast.Name) and node.id == name


def _strip_cast(node):
    """cast(T, x) -> x"""
    if isinstance(node, ast.Call) and _is_name(node.func, "cast") and len(node.args) == 2:
        return node.args[1]
    return node


def _chain_args(call) -> List[str]:
    if not (isinstance(call, ast.Call) and ast.unparse(call.func) in ("collections.ChainMap", "ChainMap")):
        raise TranslationError("Activation.__init__: self.functions is not a ChainMap(...)")
    out = []
    for a in call.args:
        a = _strip_cast(a)
        if not isinstance(a, ast.Name):
            raise TranslationError(f"ChainMap argument {ast.unparse(a)}")
        out.append(a.id)
    return out


def _functions_assign(body) -> ast.expr:
    vals = [st.value for st in body if isinstance(st, ast.Assign) and len(st.targets) == 1
            and ast.unparse(st.targets[0]) == "self.functions"]
    if len(vals) != 1:
        raise TranslationError("Activation.__init__: expected exactly one assignment to self.functions per branch")
    return vals[0]


def activation_chain(ev: ast.Module):
    init = find_func(find_class(ev, "Activation").body, "__init__")
    ladder = [st for st in init.body if isinstance(st, ast.If) and "functions" in ast.unparse(st.test)]
    if len(ladder) != 1:
        raise TranslationError("Activation.__init__: expected one if-ladder on `functions`")
    node = ladder[0]
    branches = {}
    while True:
        test = ast.unparse(node.test)
        if test == "isinstance(functions, Sequence)":
            kind = "list"
        elif test == "isinstance(functions, Mapping)":
            kind = "dict"
        elif test == "functions is None":
            kind = "none"
        else:
            raise TranslationError(f"Activation.__init__: unexpected test {test}")
        branches[kind] = node.body
        if len(node.orelse) == 1 and isinstance(node.orelse[0], ast.If):
            node = node.orelse[0]
        else:
            tail = node.orelse
            break
    if not (len(tail) == 1 and isinstance(tail[0], ast.Raise)):
        raise TranslationError("Activation.__init__: the ladder does not end in `raise`")
    if set(branches) != {"list", "dict", "none"}:
        raise TranslationError(f"Activation.__init__: branches {sorted(branches)}")
    # the list branch: local_functions = {f.__name__: f for f in functions or []}
    key_attr = None
    local_name = None
    for st in branches["list"]:
        tgt, val = None, None
        if isinstance(st, ast.AnnAssign):
            tgt, val = st.target, st.value
        elif isinstance(st, ast.Assign) and len(st.targets) == 1:
            tgt, val = st.targets[0], st.value
        if isinstance(val, ast.DictComp) and isinstance(tgt, ast.Name):
            gen = val.generators[0]
            if (len(val.generators) == 1 and not gen.ifs and isinstance(gen.target, ast.Name)
                    and isinstance(val.key, ast.Attribute) and _is_name(val.key.value, gen.target.id)
                    and _is_name(val.value, gen.target.id)
                    and ast.unparse(gen.iter) in ("functions or []", "functions")):
                key_attr, local_name = val.key.attr, tgt.id
            else:
                raise TranslationError("Activation.__init__: unexpected dict comprehension " + ast.unparse(val))
    if key_attr is None:
        # the same thing written as a loop: `local = {}` / `for f in functions or []: local[f.__name__] = f`
        for st in branches["list"]:
            if (isinstance(st, ast.For) and isinstance(st.target, ast.Name) and not st.orelse and len(st.body) == 1
                    and ast.unparse(st.iter) in ("functions or []", "functions")
                    and isinstance(st.body[0], ast.Assign) and len(st.body[0].targets) == 1):
                tgt, val = st.body[0].targets[0], st.body[0].value
                if (isinstance(tgt, ast.Subscript) and isinstance(tgt.value, ast.Name) and isinstance(tgt.slice, ast.Attribute)
                        and _is_name(tgt.slice.value, st.target.id) and _is_name(val, st.target.id)):
                    key_attr, local_name = tgt.slice.attr, tgt.value.id
    if key_attr is None:
        raise TranslationError("Activation.__init__: no `{f.__name__: f for f in functions}` in the list branch")
    chains = {k: _chain_args(_functions_assign(b)) for k, b in branches.items()}
    chains["list"] = ["local_functions" if n == local_name else n for n in chains["list"]]
    return key_attr, chains


def base_writes() -> List[str]:
    """every place in src/celpy/*.py that writes the module-level `base_functions`"""
    hits: List[str] = []
    mutators = {"update", "pop", "popitem", "clear", "setdefault", "__setitem__", "__delitem__"}
    for path in sorted((REPO / "src" / "celpy").glob("*.py")):
        tree = ast.parse(path.read_text())
        defs = 0

        def is_base(n) -> bool:
            return (_is_name(n, "base_functions")
                    or (isinstance(n, ast.Attribute) and n.attr == "base_functions"))
        for node in ast.walk(tree):
            targets = []
            if isinstance(node, ast.Assign):
                targets = node.targets
            elif isinstance(node, (ast.AugAssign, ast.AnnAssign)):
                targets = [node.target]
            elif isinstance(node, ast.Delete):
                targets = node.targets
            for t in targets:
                if isinstance(t, ast.Subscript) and is_base(t.value):
                    hits.append(f"{path.name}:{node.lineno}: {ast.unparse(node)[:60]}")
                elif is_base(t):
                    if path.name == "evaluation.py" and isinstance(node, ast.AnnAssign) and defs == 0 and isinstance(node.value, ast.Dict):
                        defs += 1      # the definition itself
                    else:
                        hits.append(f"{path.name}:{node.lineno}: {ast.unparse(node)[:60]}")
            if (isinstance(node, ast.Call) and isinstance(node.func, ast.Attribute) and node.func.attr in mutators
                    and is_base(node.func.value)):
                hits.append(f"{path.name}:{node.lineno}: {ast.unparse(node)[:60]}")
            # ChainMap(base_functions, ...) would make a child map *write through* to it only for maps[0]
            if (isinstance(node, ast.Call) and ast.unparse(node.func) in ("collections.ChainMap", "ChainMap")
                    and node.args and is_base(_strip_cast(node.args[0])) and len(node.args) > 1):
                hits.append(f"{path.name}:{node.lineno}: base_functions is the first (writable) map of {ast.unparse(node)[:50]}")
    return hits


def _try_blocks(fn: ast.FunctionDef) -> List[ast.Try]:
    return [st for st in fn.body if isinstance(st, ast.Try)]


def _caught(tr: ast.Try) -> List[str]:
    out: List[str] = []
    for h in tr.handlers:
        out += exc_names(h.type)
    return out


def _returns_error_checks(fn: ast.FunctionDef) -> List[str]:
    """names X with `if isinstance(X, CELEvalError): return X` somewhere in the function"""
    out = []
    for node in ast.walk(fn):
        if isinstance(node, ast.If):
            t = node.test
            if (isinstance(t, ast.Call) and _is_name(t.func, "isinstance") and len(t.args) == 2
                    and _is_name(t.args[1], "CELEvalError") and isinstance(t.args[0], ast.Name)
                    and len(node.body) == 1 and isinstance(node.body[0], ast.Return)
                    and _is_name(node.body[0].value, t.args[0].id)):
                out.append(t.args[0].id)
    return out


def eval_rule(ev: ast.Module, name: str):
    fn = find_func(find_class(ev, "Evaluator").body, name)
    tries = _try_blocks(fn)
    if len(tries) != 2:
        raise TranslationError(f"{name}: expected two try blocks (lookup, application), found {len(tries)}")
    lookup, apply_ = tries
    if "resolve_function" not in ast.unparse(lookup.body):
        raise TranslationError(f"{name}: the first try block does not call resolve_function")
    if not any(isinstance(n, ast.Call) and _is_name(n.func, "function") for st in apply_.body for n in ast.walk(st)):
        raise TranslationError(f"{name}: the second try block does not apply `function`")
    # each handler must *return* a CELEvalError value
    for tr in tries:
        for h in tr.handlers:
            if not any(isinstance(st, ast.Return) for st in h.body):
                raise TranslationError(f"{name}: a handler does not return a value")
    return _caught(lookup), _caught(apply_), _returns_error_checks(fn)


def exprlist_first_error(ev: ast.Module) -> bool:
    fn = find_func(find_class(ev, "Evaluator").body, "exprlist")
    src = ast.unparse(fn)
    return "isinstance(v, CELEvalError)" in src and "return next(errors)" in src


def macro_names(ev: ast.Module, cls: str) -> List[str]:
    fn = find_func(find_class(ev, cls).body, "member_dot_arg")
    for node in ast.walk(fn):
        if isinstance(node, ast.Compare) and len(node.ops) == 1 and isinstance(node.ops[0], ast.In) \
                and isinstance(node.comparators[0], ast.Set):
            names = [e.value for e in node.comparators[0].elts if isinstance(e, ast.Constant)]
            if "map" in names:
                return sorted(names)
    raise TranslationError(f"{cls}.member_dot_arg: macro name set not found")


def func_name_facts(ev: ast.Module):
    fn = find_func(find_class(ev, "Phase1Transpiler").body, "func_name")
    src = ast.unparse(fn)
    identity = any(isinstance(n, ast.Compare) and len(n.ops) == 1 and isinstance(n.ops[0], ast.Is)
                   and _is_name(n.comparators[0], "func") for n in ast.walk(fn))
    texts = [ast.unparse(n) for n in ast.walk(fn) if isinstance(n, ast.Return) and isinstance(n.value, ast.JoinedStr)]
    call_fallback = any("celpy.evaluation.host_function(activation, " in t for t in texts)
    op_fallback = any("activation.resolve_function(" in t for t in texts)
    unbound = any("CELEvalError('unbound function', KeyError" in t for t in texts)
    sites = [n for n in ast.walk(find_class(ev, "Phase1Transpiler"))
             if isinstance(n, ast.Call) and ast.unparse(n.func) == "self.func_name" and n.args
             and ast.unparse(n.args[0]) in ("property_name_token.value", "op")]
    uses_call_flag = len(sites) >= 3 and all("call=True" in ast.unparse(n) for n in sites)
    hf = find_func(ev.body, "host_function")
    checks = "resolve_function(name)" in ast.unparse(hf) and any(
        isinstance(n, ast.For) and _returns_error_checks(ast.FunctionDef(name="x", args=None, body=n.body, decorator_list=[], lineno=0))
        for n in ast.walk(hf))
    return identity, call_fallback, op_fallback, unbound, uses_call_flag, checks


def cond_facts(ev: ast.Module):
    fn = find_func(find_class(ev, "Evaluator").body, "expr")
    lazy = False
    for node in ast.walk(fn):
        if isinstance(node, ast.If) and _is_name(node.test, "cond_value"):
            a, b = ast.unparse(node.body), ast.unparse(node.orelse)
            if "tree.children[1]" in a and "tree.children[2]" not in a and "tree.children[2]" in b and "tree.children[1]" not in b:
                lazy = True
    tfn = find_func(find_class(ev, "Phase1Transpiler").body, "expr")
    n_result = 0
    for node in ast.walk(tfn):
        if isinstance(node, ast.Constant) and isinstance(node.value, str) and "# expr:" in node.value:
            last = node.value.strip().splitlines()[-1]
            n_result = last.count("celpy.evaluation.result(activation, ex_${n}_")
    ofn = find_func(find_class(ev, "Evaluator").body, "conditionalor")
    afn = find_func(find_class(ev, "Evaluator").body, "conditionaland")
    eager_logic = all("self.visit_children(tree)" in ast.unparse(f) for f in (ofn, afn))
    return lazy, n_result, eager_logic


def b(x: bool) -> str:
    return "true" if x else "false"


def gen_funcs() -> str:
    ev = parse(EV)
    out = [HEADER.format(src="src/celpy/evaluation.py (base_functions, Activation.__init__, function_eval, method_eval, exprlist, "
                             "result, func_name, host_function, member_dot_arg, expr) and src/celpy/*.py (writes to base_functions)"),
           "import Cel.Model.Basic\nnamespace Cel.Gen.Funcs\nopen Cel (Exc)\n"]
    # base_functions keys
    keys = None
    for st in ev.body:
        if isinstance(st, ast.AnnAssign) and _is_name(st.target, "base_functions") and isinstance(st.value, ast.Dict):
            keys = [k.value for k in st.value.keys if isinstance(k, ast.Constant) and isinstance(k.value, str)]
            if len(keys) != len(st.value.keys):
                raise TranslationError("base_functions: non-literal key")
    if keys is None:
        raise TranslationError("base_functions dict literal not found")
    out.append("def baseKeys : List String := " + lean_list([lean_str(k) for k in keys]))
    key_attr, chains = activation_chain(ev)
    out.append(f"def listKeyAttr : String := {lean_str(key_attr)}")
    for k in ("list", "dict", "none"):
        out.append(f"def chain_{k} : List String := " + lean_list([lean_str(x) for x in chains[k]]))
    rf = find_func(find_class(ev, "Activation").body, "resolve_function")
    rets = [ast.unparse(s.value) for s in rf.body if isinstance(s, ast.Return)]
    out.append(f"def resolveFunctionIsChainLookup : Bool := {b(rets == ['self.functions[name]'])}")
    out.append("def baseWrites : List String := " + lean_list([lean_str(h) for h in base_writes()]))
    for rule in ("function_eval", "method_eval"):
        look, app, checks = eval_rule(ev, rule)
        out.append(f"def {rule}_lookupCaught : List Exc := " + lean_list([lean_exc(c) for c in look]))
        out.append(f"def {rule}_applyCaught : List Exc := " + lean_list([lean_exc(c) for c in app]))
        out.append(f"def {rule}_errorChecks : List String := " + lean_list([lean_str(c) for c in checks]))
    out.append(f"def exprlistReturnsFirstError : Bool := {b(exprlist_first_error(ev))}")
    res = find_func(ev.body, "result")
    tries = [s for s in res.body if isinstance(s, ast.Try)]
    if len(tries) != 1 or len(tries[0].handlers) != 1:
        raise TranslationError("result(): expected exactly one try/except")
    out.append("def resultCaught : List Exc := " + lean_list([lean_exc(c) for c in exc_names(tries[0].handlers[0].type)]))
    out.append("def macroNamesI : List String := " + lean_list([lean_str(x) for x in macro_names(ev, "Evaluator")]))
    out.append("def macroNamesC : List String := " + lean_list([lean_str(x) for x in macro_names(ev, "Phase1Transpiler")]))
    identity, call_fb, op_fb, unbound, flag, checks = func_name_facts(ev)
    out.append(f"def funcNameIdentityCheck : Bool := {b(identity)}")
    out.append(f"def funcNameCallFallbackIsHostFunction : Bool := {b(call_fb)}")
    out.append(f"def funcNameOperatorFallbackIsResolve : Bool := {b(op_fb)}")
    out.append(f"def funcNameUnboundIsErrorObject : Bool := {b(unbound)}")
    out.append(f"def callsPassCallFlag : Bool := {b(flag)}")
    out.append(f"def hostFunctionChecksArguments : Bool := {b(checks)}")
    lazy, n_result, eager_logic = cond_facts(ev)
    out.append(f"def condLazyI : Bool := {b(lazy)}")
    out.append(f"def condResultOperandsC : Nat := {n_result}")
    out.append(f"def logicVisitsBothI : Bool := {b(eager_logic)}")
    out.append("\nend Cel.Gen.Funcs\n")
    return "\n".join(out)


GENERATORS = {"Funcs": gen_funcs}
