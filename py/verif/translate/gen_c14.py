"""Generator for Gen/Funcs.lean (C14): what the source says NOW about binding and applying host functions.

Extracted from src/celpy/evaluation.py (and src/celpy/*.py for writes to base_functions):

* the keys of `base_functions`;
* `Activation.__init__`: for each supplying style the order of the maps in the `ChainMap`, and the attribute used as the
  key when a list of callables is supplied;
* every statement anywhere in src/celpy that writes `base_functions`;
* `Evaluator.function_eval` / `method_eval`: classes caught around the name lookup and around the application, the
  erroneous-argument checks; the `exprlist` rule returning the first error;
* `result()`'s caught classes;
* `Phase1Transpiler.func_name` / `host_function`: identity check before dotted text, the fallback texts, the argument check;
* `Transpiler.transpile`: Phase 1 (the pass in which `func_name` consults the activation OF THE PROGRAM BEING BUILT) runs on
  every call, unconditionally — the decorations of an AST that an earlier program left behind are never re-used;
* which names `member_dot_arg` / `ident_arg` treat as macros (both evaluators);
* laziness of `?:` in the interpreter (`if cond_value:` visits one child) and the number of `result()` operands of the
  transpiled `?:` template.
"""
from __future__ import annotations
import ast
from pathlib import Path
from typing import List

from .py2lean import TranslationError, find_class, find_func, lean_str, lean_list
from .common import parse, HEADER, exc_names, lean_exc, REPO

EV = "src/celpy/evaluation.py"


def _is_name(node, name: str) -> bool:
    return isinstance(node, ast.Name) and node.id == name


def _strip_cast(node):
    """cast(T, x) -> x"""
    if isinstance(node, ast.Call) and _is_name(node.func, "cast") and len(node.args) == 2:
        return node.args[1]
    return node


class _Raised(Exception):
    pass


class ChainExec:
    """Symbolic execution of the part of `Activation.__init__` that builds `self.functions`, once for each way of
    supplying functions (kind = list / dict / none).  Values are symbolic maps:

        ("base",)        the module-level `base_functions`
        ("param",)       the mapping the caller supplied (the object itself, not a copy)
        ("named", attr)  a NEW dict `{f.<attr>: f for f in functions}` (comprehension, `dict(generator)`, or a loop filling
                         an empty dict; later entries replace earlier ones in all three)
        ("empty",)       a new empty dict
        ("chain", [m…])  `collections.ChainMap(m…)` / `<chain>.new_child(m)`

    Tests on `functions` (`isinstance(functions, Sequence|Mapping)`, `functions is [not] None`, `not`, `and`, `or`) are
    decided by the kind, so the order of the branches, `elif` vs. early `if`, and where the ChainMap is built do not
    matter.  Statements that do not mention a function table are not part of this reading; any other statement that
    does (an `.update(…)`, a write through the chain, an unknown call) is outside the subset: TranslationError."""

    def __init__(self, kind: str):
        self.kind = kind
        self.env = {"functions": ("param",), "base_functions": ("base",)}
        self.self_functions = None

    def fail(self, node, why="outside the subset"):
        raise TranslationError(f"Activation.__init__ ({self.kind}): {why}: {ast.unparse(node)[:90]}")

    def cond(self, t) -> bool:
        if isinstance(t, ast.UnaryOp) and isinstance(t.op, ast.Not):
            return not self.cond(t.operand)
        if isinstance(t, ast.BoolOp):
            vals = [self.cond(v) for v in t.values]
            return all(vals) if isinstance(t.op, ast.And) else any(vals)
        if (isinstance(t, ast.Call) and _is_name(t.func, "isinstance") and len(t.args) == 2 and _is_name(t.args[0], "functions")):
            classes = t.args[1].elts if isinstance(t.args[1], ast.Tuple) else [t.args[1]]
            res = False
            for c in classes:
                n = ast.unparse(c).split(".")[-1]
                if n in ("Sequence", "list", "tuple", "List", "Tuple"):
                    res = res or self.kind == "list"
                elif n in ("Mapping", "dict", "Dict", "MutableMapping"):
                    res = res or self.kind == "dict"
                else:
                    self.fail(t, "unknown class in isinstance")
            return res
        if (isinstance(t, ast.Compare) and len(t.ops) == 1 and _is_name(t.left, "functions")
                and isinstance(t.comparators[0], ast.Constant) and t.comparators[0].value is None):
            if isinstance(t.ops[0], ast.Is):
                return self.kind == "none"
            if isinstance(t.ops[0], ast.IsNot):
                return self.kind != "none"
        self.fail(t, "test not decided by the way functions are supplied")

    def functions_iter(self, node) -> bool:
        """`functions` / `functions or []` as the iterable of a comprehension or loop"""
        node = _strip_cast(node)
        if _is_name(node, "functions"):
            return True
        return (isinstance(node, ast.BoolOp) and isinstance(node.op, ast.Or) and len(node.values) == 2
                and _is_name(_strip_cast(node.values[0]), "functions")
                and isinstance(node.values[1], (ast.List, ast.Tuple)) and not node.values[1].elts)

    def named(self, node, gen, key, val):
        if not (isinstance(gen.target, ast.Name) and not gen.ifs and not gen.is_async and self.functions_iter(gen.iter)
                and isinstance(key, ast.Attribute) and _is_name(key.value, gen.target.id) and _is_name(val, gen.target.id)):
            self.fail(node, "unexpected comprehension")
        if self.kind != "list":
            self.fail(node, "a comprehension over `functions` outside the list case")
        return ("named", key.attr)

    def sym(self, node):
        node = _strip_cast(node)
        if isinstance(node, ast.Name):
            if node.id not in self.env:
                self.fail(node, "unknown name")
            return self.env[node.id]
        if isinstance(node, ast.Attribute) and ast.unparse(node) == "self.functions":
            if self.self_functions is None:
                self.fail(node, "self.functions read before it is set")
            return self.self_functions
        if isinstance(node, ast.Dict) and not node.keys:
            return ("empty",)
        if isinstance(node, ast.DictComp) and len(node.generators) == 1:
            return self.named(node, node.generators[0], node.key, node.value)
        if isinstance(node, ast.IfExp):
            return self.sym(node.body if self.cond(node.test) else node.orelse)
        if isinstance(node, ast.Call) and not node.keywords:
            fn = ast.unparse(node.func)
            if fn == "dict" and not node.args:
                return ("empty",)
            if (fn == "dict" and len(node.args) == 1 and isinstance(node.args[0], ast.GeneratorExp) and len(node.args[0].generators) == 1
                    and isinstance(node.args[0].elt, ast.Tuple) and len(node.args[0].elt.elts) == 2):
                k, v = node.args[0].elt.elts
                return self.named(node, node.args[0].generators[0], k, v)
            if fn in ("collections.ChainMap", "ChainMap"):
                maps = [self.sym(a) for a in node.args]
                if any(m[0] == "chain" for m in maps) or not maps:
                    self.fail(node, "ChainMap of a ChainMap / of nothing")
                return ("chain", maps)
            if isinstance(node.func, ast.Attribute) and node.func.attr == "new_child" and len(node.args) <= 1:
                base = self.sym(node.func.value)
                if base[0] != "chain":
                    self.fail(node, "new_child of something that is no ChainMap")
                front = self.sym(node.args[0]) if node.args else ("empty",)
                if front[0] == "chain":
                    self.fail(node)
                return ("chain", [front] + list(base[1]))
        self.fail(node, "unknown value")

    def relevant(self, st) -> bool:
        names = {n.id for n in ast.walk(st) if isinstance(n, ast.Name)} | \
                {ast.unparse(n) for n in ast.walk(st) if isinstance(n, ast.Attribute)}
        return bool(names & (set(self.env) | {"self.functions"}))

    @staticmethod
    def is_logging(st) -> bool:
        """`logger.debug(fmt, name, …)`: plain names only, nothing is called or written"""
        if not (isinstance(st, ast.Expr) and isinstance(st.value, ast.Call) and isinstance(st.value.func, ast.Attribute)):
            return False
        f = st.value.func
        return (ast.unparse(f.value) in ("logger", "self.logger") and f.attr in ("debug", "info", "warning", "error")
                and all(isinstance(a, (ast.Name, ast.Constant)) for a in st.value.args) and not st.value.keywords)

    def run(self, body):
        for st in body:
            if self.is_logging(st):
                continue
            if not self.relevant(st):
                # a new empty dict bound to a local may become a function table later
                if isinstance(st, (ast.Assign, ast.AnnAssign)) and st.value is not None:
                    tgt = st.target if isinstance(st, ast.AnnAssign) else (st.targets[0] if len(st.targets) == 1 else None)
                    v = st.value
                    if isinstance(tgt, ast.Name) and ((isinstance(v, ast.Dict) and not v.keys) or ast.unparse(v) == "dict()"):
                        self.env[tgt.id] = ("empty",)
                continue
            if isinstance(st, ast.AnnAssign) and st.value is None:
                continue
            if isinstance(st, ast.Pass):
                continue
            if isinstance(st, (ast.Assign, ast.AnnAssign)):
                tgt = st.target if isinstance(st, ast.AnnAssign) else (st.targets[0] if len(st.targets) == 1 else None)
                if isinstance(tgt, ast.Name) and tgt.id not in ("functions", "base_functions"):
                    self.env[tgt.id] = self.sym(st.value)
                elif tgt is not None and ast.unparse(tgt) == "self.functions":
                    self.self_functions = self.sym(st.value)
                else:
                    self.fail(st)
                continue
            if isinstance(st, ast.If):
                self.run(st.body if self.cond(st.test) else st.orelse)
                continue
            if isinstance(st, ast.Raise):
                raise _Raised()
            if isinstance(st, ast.For):
                # for f in functions: X[f.attr] = f        with X a new empty dict
                ok = (isinstance(st.target, ast.Name) and not st.orelse and len(st.body) == 1 and self.functions_iter(st.iter)
                      and isinstance(st.body[0], ast.Assign) and len(st.body[0].targets) == 1)
                if ok:
                    tgt, val = st.body[0].targets[0], st.body[0].value
                    ok = (isinstance(tgt, ast.Subscript) and isinstance(tgt.value, ast.Name) and isinstance(tgt.slice, ast.Attribute)
                          and _is_name(tgt.slice.value, st.target.id) and _is_name(val, st.target.id)
                          and self.env.get(tgt.value.id) == ("empty",))
                if not ok:
                    self.fail(st)
                if self.kind == "list":
                    self.env[tgt.value.id] = ("named", tgt.slice.attr)
                elif self.kind == "dict":
                    self.fail(st, "loop over a mapping")
                continue
            self.fail(st)


def activation_chain(ev: ast.Module):
    init = find_func(find_class(ev, "Activation").body, "__init__")
    chains, key_attr = {}, None
    for kind in ("list", "dict", "none"):
        ex = ChainExec(kind)
        try:
            ex.run(init.body)
        except _Raised:
            raise TranslationError(f"Activation.__init__: raises when functions are supplied as {kind}")
        sf = ex.self_functions
        if sf is None or sf[0] != "chain":
            raise TranslationError(f"Activation.__init__ ({kind}): self.functions is not a ChainMap(...)")
        names = []
        for m in sf[1]:
            if m[0] == "named":
                key_attr = m[1] if key_attr in (None, m[1]) else "<mixed>"
                names.append("local_functions")
            elif m[0] == "param":
                names.append("functions")
            elif m[0] == "base":
                names.append("base_functions")
            # a new empty dict in the chain binds nothing: dropped
        if kind == "none" and "functions" in names:
            raise TranslationError("Activation.__init__ (none): None used as a map")
        chains[kind] = names
    if key_attr is None:
        raise TranslationError("Activation.__init__: no `{f.__name__: f for f in functions}` in the list case")
    return key_attr, chains


def base_writes() -> List[str]:
    """every place in src/celpy/*.py that writes the module-level `base_functions`"""
    hits: List[str] = []
    mutators = {"update", "pop", "popitem", "clear", "setdefault", "__setitem__", "__delitem__"}
    for path in sorted((REPO / "src" / "celpy").glob("*.py")):
        tree = ast.parse(path.read_text())
        defs = 0

        def is_base(n) -> bool:
            return (_is_name(n, "base_functions")
                    or (isinstance(n, ast.Attribute) and n.attr == "base_functions"))
        for node in ast.walk(tree):
            targets = []
            if isinstance(node, ast.Assign):
                targets = node.targets
            elif isinstance(node, (ast.AugAssign, ast.AnnAssign)):
                targets = [node.target]
            elif isinstance(node, ast.Delete):
                targets = node.targets
            for t in targets:
                if isinstance(t, ast.Subscript) and is_base(t.value):
                    hits.append(f"{path.name}:{node.lineno}: {ast.unparse(node)[:60]}")
                elif is_base(t):
                    if path.name == "evaluation.py" and isinstance(node, ast.AnnAssign) and defs == 0 and isinstance(node.value, ast.Dict):
                        defs += 1      # the definition itself
                    else:
                        hits.append(f"{path.name}:{node.lineno}: {ast.unparse(node)[:60]}")
            if (isinstance(node, ast.Call) and isinstance(node.func, ast.Attribute) and node.func.attr in mutators
                    and is_base(node.func.value)):
                hits.append(f"{path.name}:{node.lineno}: {ast.unparse(node)[:60]}")
            # ChainMap(base_functions, ...) would make a child map *write through* to it only for maps[0]
            if (isinstance(node, ast.Call) and ast.unparse(node.func) in ("collections.ChainMap", "ChainMap")
                    and node.args and is_base(_strip_cast(node.args[0])) and len(node.args) > 1):
                hits.append(f"{path.name}:{node.lineno}: base_functions is the first (writable) map of {ast.unparse(node)[:50]}")
    return hits


def _try_blocks(fn: ast.FunctionDef) -> List[ast.Try]:
    return [st for st in fn.body if isinstance(st, ast.Try)]


def _caught(tr: ast.Try) -> List[str]:
    out: List[str] = []
    for h in tr.handlers:
        out += exc_names(h.type)
    return out


def _returns_error_checks(fn: ast.FunctionDef) -> List[str]:
    """names X with `if isinstance(X, CELEvalError): return X` somewhere in the function"""
    out = []
    for node in ast.walk(fn):
        if isinstance(node, ast.If):
            t = node.test
            if (isinstance(t, ast.Call) and _is_name(t.func, "isinstance") and len(t.args) == 2
                    and _is_name(t.args[1], "CELEvalError") and isinstance(t.args[0], ast.Name)
                    and len(node.body) == 1 and isinstance(node.body[0], ast.Return)
                    and _is_name(node.body[0].value, t.args[0].id)):
                out.append(t.args[0].id)
    return out


ARGS, ELEM_CHECK = "ARGS", "args[*]"


def _is_err_test(node, var: str) -> bool:
    """isinstance(<var>, CELEvalError)"""
    return (isinstance(node, ast.Call) and _is_name(node.func, "isinstance") and len(node.args) == 2 and not node.keywords
            and _is_name(node.args[0], var) and _is_name(node.args[1], "CELEvalError"))


def _returns(body, pred) -> bool:
    return len(body) == 1 and isinstance(body[0], ast.Return) and body[0].value is not None and pred(body[0].value)


class CallRule:
    """Symbolic reading of the straight-line code that applies a bound function: `Evaluator.function_eval`,
    `Evaluator.method_eval` and the closure of `host_function`.

    The statements are read in execution order and normalised to the events the model knows:

      lookup                 `function = <activation>.resolve_function(<name>)` inside `try … except KeyError`
      check <param>          `if isinstance(<param>, CELEvalError): return <param>`           (if / elif / early return + else)
      check args[*]          "the first argument that is a CELEvalError is the result", written as a `for` loop, as
                             `next((a for a in ARGS if isinstance(a, CELEvalError)), None)` + `if x is not None: return x`,
                             as a list comprehension + `if errs: return errs[0]`, or as `if any(…): return next(…)`
      apply [a, …, *args]    `return function(a, …, *ARGS)` (or `r = function(…)` … `return r`), inside `try … except`
    where ARGS is the argument list `exprlist or []` (through `cast`, `list(…)`, local aliases of any name).
    `return self.<helper>(…)` is read by inlining the helper method's body once (parameters bound to the caller's
    canonical values), so extracting the shared tail of function_eval/method_eval into a helper — or inlining it back —
    does not matter.  Docstrings, bare annotations and logger calls are skipped.  ANY other statement (a cache lookup, a second
    application, a rebinding of `function`, a loop, …) is outside the subset: TranslationError — the check then has no
    bridge and searches for a failing input."""

    def __init__(self, where: str, params: List[str], args_param: str, args_is_list: bool = False, cls=None):
        self.where = where
        self.cls = cls                        # the class whose private helpers may be inlined (one level)
        self.depth = 0
        self.env = {p: p for p in params}
        self.args_param = args_param
        if args_is_list:                      # `*args` of a closure: already the argument list
            self.env[args_param] = ARGS
        self.checks: List[str] = []
        self.lookup_caught: List[str] = []
        self.apply_caught: List[str] = []
        self.apply_args = None
        self.looked_up = False
        self.done = False                     # a statement that always returns was read

    def fail(self, node, why="statement outside the subset"):
        raise TranslationError(f"{self.where}: {why}: {ast.unparse(node)[:90]}")

    # ---- expressions --------------------------------------------------------------------------
    def canon(self, node):
        """ARGS / a parameter name / a tagged local, or None"""
        node = _strip_cast(node)
        if isinstance(node, ast.Name):
            return self.env.get(node.id)
        if isinstance(node, ast.BoolOp) and isinstance(node.op, ast.Or) and len(node.values) == 2:
            a, b = node.values
            if self.canon(a) == self.args_param and isinstance(b, (ast.List, ast.Tuple)) and not b.elts:
                return ARGS
        if (isinstance(node, ast.Call) and isinstance(node.func, ast.Name) and node.func.id in ("list", "tuple")
                and len(node.args) == 1 and not node.keywords and self.canon(node.args[0]) == ARGS):
            return ARGS
        return None

    def err_filter(self, node, kinds):
        """`(v for v in ARGS if isinstance(v, CELEvalError))` (generator expression / list comprehension)"""
        if not isinstance(node, kinds) or len(node.generators) != 1:
            return False
        g = node.generators[0]
        return (isinstance(g.target, ast.Name) and not g.is_async and self.canon(g.iter) == ARGS and len(g.ifs) == 1
                and _is_err_test(g.ifs[0], g.target.id) and _is_name(node.elt, g.target.id))

    def first_err(self, node, need_default: bool):
        """`next(<error filter>[, None])`"""
        if not (isinstance(node, ast.Call) and _is_name(node.func, "next") and not node.keywords and node.args):
            return False
        if not self.err_filter(node.args[0], (ast.GeneratorExp,)):
            return False
        if need_default:
            return len(node.args) == 2 and isinstance(node.args[1], ast.Constant) and node.args[1].value is None
        return len(node.args) in (1, 2)

    def any_err(self, node):
        """`any(isinstance(v, CELEvalError) for v in ARGS)`"""
        if not (isinstance(node, ast.Call) and _is_name(node.func, "any") and len(node.args) == 1 and not node.keywords
                and isinstance(node.args[0], ast.GeneratorExp) and len(node.args[0].generators) == 1):
            return False
        g = node.args[0].generators[0]
        return (isinstance(g.target, ast.Name) and not g.ifs and self.canon(g.iter) == ARGS
                and _is_err_test(node.args[0].elt, g.target.id))

    def application(self, node):
        """`function(a, …, *ARGS)` -> ['a', …, '*args'] or None"""
        if not (isinstance(node, ast.Call) and isinstance(node.func, ast.Name) and self.env.get(node.func.id) == "#function"
                and not node.keywords):
            return None
        out = []
        for a in node.args:
            if isinstance(a, ast.Starred):
                if self.canon(a.value) != ARGS:
                    self.fail(node, "application to something else than the evaluated arguments")
                out.append("*args")
            else:
                c = self.canon(a)
                if c is None or c == ARGS or c.startswith("#"):
                    self.fail(node, "application to something else than the evaluated arguments")
                out.append(c)
        return out

    def is_logging(self, st) -> bool:
        if not (isinstance(st, ast.Expr) and isinstance(st.value, ast.Call)):
            return False
        f = st.value.func
        ok = isinstance(f, ast.Attribute) and ast.unparse(f.value) in ("self.logger", "logger") and \
            f.attr in ("debug", "info", "warning", "error", "exception", "log")
        return ok and not any(isinstance(n, (ast.Call, ast.NamedExpr, ast.Await, ast.Yield)) for a in st.value.args for n in ast.walk(a))

    # ---- statements ---------------------------------------------------------------------------
    def run(self, body):
        body = list(body)
        while body:
            st = body.pop(0)
            if self.done:
                self.fail(st, "statement after the application")
            if isinstance(st, ast.Expr) and isinstance(st.value, ast.Constant) and isinstance(st.value.value, str):
                continue
            if isinstance(st, ast.AnnAssign) and st.value is None and isinstance(st.target, ast.Name):
                continue
            if isinstance(st, ast.Pass) or self.is_logging(st):
                continue
            if isinstance(st, ast.Try):
                self.try_(st)
                continue
            if isinstance(st, (ast.Assign, ast.AnnAssign)):
                self.assign(st)
                continue
            if isinstance(st, ast.For):
                self.for_(st)
                continue
            if isinstance(st, ast.If):
                self.if_(st, body)
                continue
            if isinstance(st, ast.Return):
                self.return_(st)
                continue
            self.fail(st)

    def try_(self, st: ast.Try):
        if st.orelse or st.finalbody:
            self.fail(st, "try with else/finally")
        for h in st.handlers:
            if not any(isinstance(x, ast.Return) and x.value is not None for x in h.body):
                self.fail(h, "a handler does not return a value")
        if not self.looked_up:
            # the lookup: `function = <…>.resolve_function(<…>)`
            stmts = [x for x in st.body if not self.is_logging(x)]
            ok = (len(stmts) == 1 and isinstance(stmts[0], ast.Assign) and len(stmts[0].targets) == 1
                  and isinstance(stmts[0].targets[0], ast.Name) and isinstance(stmts[0].value, ast.Call)
                  and isinstance(stmts[0].value.func, ast.Attribute) and stmts[0].value.func.attr == "resolve_function"
                  and len(stmts[0].value.args) == 1)
            if not ok:
                self.fail(st, "the first try block is not the lookup `function = ….resolve_function(name)`")
            self.env[stmts[0].targets[0].id] = "#function"
            self.looked_up = True
            self.lookup_caught = _caught(st)
            return
        if self.apply_caught:
            self.fail(st, "more than one try block after the lookup")
        self.apply_caught = _caught(st)
        self.in_apply = True
        self.run(st.body)
        if self.apply_args is None:
            self.fail(st, "the second try block does not apply `function`")

    def assign(self, st):
        tgt = st.target if isinstance(st, ast.AnnAssign) else (st.targets[0] if len(st.targets) == 1 else None)
        if not isinstance(tgt, ast.Name) or tgt.id == "self" or self.env.get(tgt.id) == "#function":
            self.fail(st)
        v = st.value
        if self.canon(v) == ARGS:
            self.env[tgt.id] = ARGS
        elif self.first_err(v, need_default=True):
            self.env[tgt.id] = "#first"
        elif self.err_filter(v, (ast.ListComp,)):
            self.env[tgt.id] = "#errors"
        elif self.application(v) is not None:
            self.apply(v, self.application(v))
            self.env[tgt.id] = "#result"
        else:
            self.fail(st)

    def apply(self, node, args):
        if self.apply_args is not None:
            self.fail(node, "`function` is applied more than once")
        if not self.looked_up:
            self.fail(node, "application before the lookup")
        self.apply_args = args

    def for_(self, st: ast.For):
        ok = (isinstance(st.target, ast.Name) and not st.orelse and self.canon(st.iter) == ARGS and len(st.body) == 1
              and isinstance(st.body[0], ast.If) and not st.body[0].orelse and _is_err_test(st.body[0].test, st.target.id)
              and _returns(st.body[0].body, lambda r: _is_name(r, st.target.id)))
        if not ok:
            self.fail(st)
        self.check(ELEM_CHECK)

    def check(self, what: str):
        if self.apply_args is None:          # a check after the application cannot prevent it
            self.checks.append(what)

    def if_(self, st: ast.If, rest: list):
        t = st.test
        what = None
        if (isinstance(t, ast.Call) and _is_name(t.func, "isinstance") and len(t.args) == 2 and isinstance(t.args[0], ast.Name)
                and _is_name(t.args[1], "CELEvalError")):
            c = self.env.get(t.args[0].id)
            if c and not c.startswith("#") and c != ARGS and _returns(st.body, lambda r: _is_name(r, t.args[0].id)):
                what = c
        elif (isinstance(t, ast.Compare) and len(t.ops) == 1 and isinstance(t.ops[0], ast.IsNot) and isinstance(t.left, ast.Name)
              and isinstance(t.comparators[0], ast.Constant) and t.comparators[0].value is None
              and self.env.get(t.left.id) == "#first" and _returns(st.body, lambda r: _is_name(r, t.left.id))):
            what = ELEM_CHECK
        elif (isinstance(t, ast.Name) and self.env.get(t.id) == "#errors"
              and _returns(st.body, lambda r: isinstance(r, ast.Subscript) and _is_name(r.value, t.id)
                           and isinstance(r.slice, ast.Constant) and r.slice.value == 0)):
            what = ELEM_CHECK
        elif self.any_err(t) and _returns(st.body, lambda r: self.first_err(r, need_default=False)):
            what = ELEM_CHECK
        if what is None:
            self.fail(st)
        self.check(what)
        # `else:` / `elif` after a branch that returns is the continuation
        rest[0:0] = list(st.orelse)

    def inline(self, call) -> bool:
        """`self.<helper>(a, …)`: read the helper's body with its parameters bound to the caller's values"""
        f = call.func if isinstance(call, ast.Call) else None
        if not (isinstance(f, ast.Attribute) and _is_name(f.value, "self") and self.cls is not None):
            return False
        try:
            helper = find_func(self.cls.body, f.attr)
        except TranslationError:
            return False
        if self.depth >= 1:
            self.fail(call, "helper called from a helper")
        a = helper.args
        if a.vararg or a.kwarg or a.kwonlyargs or a.posonlyargs or helper.decorator_list:
            self.fail(call, "helper with a signature outside the subset")
        params = [x.arg for x in a.args][1:]
        bound = {}
        if len(call.args) > len(params) or any(isinstance(x, ast.Starred) for x in call.args):
            self.fail(call)
        for prm, arg in zip(params, call.args):
            bound[prm] = self.canon(arg) or "#opaque"
        for kw in call.keywords:
            if kw.arg not in params or kw.arg in bound:
                self.fail(call)
            bound[kw.arg] = self.canon(kw.value) or "#opaque"
        defaults = dict(zip(params[len(params) - len(a.defaults):], a.defaults))
        for prm in params:
            if prm not in bound:
                if prm not in defaults:
                    self.fail(call, "helper parameter without a value")
                bound[prm] = "#opaque"
        saved, self.env = self.env, bound
        self.depth += 1
        self.run(helper.body)
        self.depth -= 1
        self.env = saved
        return True

    def return_(self, st: ast.Return):
        v = st.value
        if v is None:
            self.fail(st)
        if self.inline(v):
            if not self.done:
                self.fail(st, "the helper does not end in the application")
            return
        if isinstance(v, ast.Name) and self.env.get(v.id) == "#result":
            self.done = True
            return
        # `return x if x is not None else function(*args)`
        if (isinstance(v, ast.IfExp) and isinstance(v.test, ast.Compare) and len(v.test.ops) == 1
                and isinstance(v.test.ops[0], ast.IsNot) and isinstance(v.test.left, ast.Name)
                and isinstance(v.test.comparators[0], ast.Constant) and v.test.comparators[0].value is None
                and self.env.get(v.test.left.id) == "#first" and _is_name(v.body, v.test.left.id)):
            self.check(ELEM_CHECK)
            v = v.orelse
        a = self.application(v)
        if a is None:
            self.fail(st)
        self.apply(v, a)
        self.done = True


def eval_rule(ev: ast.Module, name: str):
    fn = find_func(find_class(ev, "Evaluator").body, name)
    params = [a.arg for a in fn.args.args if a.arg != "self"]
    if "exprlist" not in params:
        raise TranslationError(f"{name}: no parameter `exprlist`")
    w = CallRule(name, params, "exprlist", cls=find_class(ev, "Evaluator"))
    w.run(fn.body)
    if not (w.looked_up and w.apply_args is not None and w.done):
        raise TranslationError(f"{name}: lookup / application not found")
    return w.lookup_caught, w.apply_caught, w.checks, w.apply_args


def host_function_rule(ev: ast.Module):
    """`host_function(activation, name)`: `function = activation.resolve_function(name)` and a closure
    `def checked(*args)` that returns the first erroneous argument, else `function(*args)`"""
    hf = find_func(ev.body, "host_function")
    stmts = [s for s in hf.body if not (isinstance(s, ast.Expr) and isinstance(s.value, ast.Constant))]
    if not (len(stmts) == 3 and isinstance(stmts[0], ast.Assign) and len(stmts[0].targets) == 1
            and isinstance(stmts[0].targets[0], ast.Name)
            and ast.unparse(stmts[0].value) == "activation.resolve_function(name)"
            and isinstance(stmts[1], ast.FunctionDef) and isinstance(stmts[2], ast.Return)
            and _is_name(stmts[2].value, stmts[1].name)):
        raise TranslationError("host_function: expected `function = activation.resolve_function(name)`, a closure, `return <closure>`")
    inner = stmts[1]
    a = inner.args
    if a.args or a.kwonlyargs or a.kwarg or a.posonlyargs or a.vararg is None or inner.decorator_list:
        raise TranslationError("host_function: the closure does not take exactly `*args`")
    w = CallRule("host_function", [a.vararg.arg], a.vararg.arg, args_is_list=True)
    w.looked_up = True
    w.env[stmts[0].targets[0].id] = "#function"
    w.run(inner.body)
    if not (w.apply_args is not None and w.done):
        raise TranslationError("host_function: the closure does not apply `function`")
    return w.checks, w.apply_args


class ExprlistRule(CallRule):
    """the `exprlist` rule of the interpreter: `values = self.visit_children(tree)`, the first CELEvalError among them is the
    result (generator + `try: return next(errors) except StopIteration: pass`, or any of the forms `CallRule` knows), else
    `ListType(values)`"""

    def __init__(self):
        super().__init__("Evaluator.exprlist", [], "<no parameter>")
        self.looked_up = True
        self.returns_list = False

    def canon(self, node):
        node = _strip_cast(node)
        if ast.unparse(node) == "self.visit_children(tree)":
            return ARGS
        return super().canon(node)

    def list_of_values(self, v) -> bool:
        return (isinstance(v, ast.Call) and ast.unparse(v.func).split(".")[-1] == "ListType" and len(v.args) == 1
                and not v.keywords and self.canon(v.args[0]) == ARGS)

    def next_of_errors(self, v) -> bool:
        if not (isinstance(v, ast.Call) and _is_name(v.func, "next") and len(v.args) == 1 and not v.keywords):
            return False
        a = v.args[0]
        return (isinstance(a, ast.Name) and self.env.get(a.id) == "#errgen") or self.err_filter(a, (ast.GeneratorExp,))

    def try_(self, st: ast.Try):
        ok = (len(st.body) == 1 and isinstance(st.body[0], ast.Return) and st.body[0].value is not None
              and self.next_of_errors(st.body[0].value) and len(st.handlers) == 1 and not st.orelse and not st.finalbody
              and exc_names(st.handlers[0].type) == ["StopIteration"] and all(isinstance(x, ast.Pass) for x in st.handlers[0].body))
        if not ok:
            self.fail(st)
        self.check(ELEM_CHECK)

    def assign(self, st):
        tgt = st.target if isinstance(st, ast.AnnAssign) else (st.targets[0] if len(st.targets) == 1 else None)
        if isinstance(tgt, ast.Name) and self.err_filter(st.value, (ast.GeneratorExp,)):
            self.env[tgt.id] = "#errgen"
        elif isinstance(tgt, ast.Name) and self.list_of_values(st.value):
            self.env[tgt.id] = "#list"
        else:
            super().assign(st)

    def return_(self, st: ast.Return):
        v = st.value
        if v is not None and ((isinstance(v, ast.Name) and self.env.get(v.id) == "#list") or self.list_of_values(v)):
            self.returns_list = True
            self.done = True
            return
        self.fail(st)


def exprlist_first_error(ev: ast.Module) -> bool:
    fn = find_func(find_class(ev, "Evaluator").body, "exprlist")
    w = ExprlistRule()
    w.run(fn.body)
    return w.checks == [ELEM_CHECK] and w.returns_list and w.apply_args is None


def macro_names(ev: ast.Module, cls: str) -> List[str]:
    fn = find_func(find_class(ev, cls).body, "member_dot_arg")
    for node in ast.walk(fn):
        if isinstance(node, ast.Compare) and len(node.ops) == 1 and isinstance(node.ops[0], ast.In) \
                and isinstance(node.comparators[0], ast.Set):
            names = [e.value for e in node.comparators[0].elts if isinstance(e, ast.Constant)]
            if "map" in names:
                return sorted(names)
    raise TranslationError(f"{cls}.member_dot_arg: macro name set not found")


def func_name_facts(ev: ast.Module):
    fn = find_func(find_class(ev, "Phase1Transpiler").body, "func_name")
    src = ast.unparse(fn)
    # dotted text is returned only under a guard that is exactly ONE identity comparison with the resolved object
    # (`target is func` / `func is target`); a weaker guard (`==`, `… or …`, `callable(…)`) is not the identity check
    def pure_identity(t) -> bool:
        return (isinstance(t, ast.Compare) and len(t.ops) == 1 and isinstance(t.ops[0], ast.Is)
                and isinstance(t.left, ast.Name) and isinstance(t.comparators[0], ast.Name)
                and "func" in (t.left.id, t.comparators[0].id) and t.left.id != t.comparators[0].id)
    def pure_non_identity(t) -> bool:
        return (isinstance(t, ast.Compare) and len(t.ops) == 1 and isinstance(t.ops[0], ast.IsNot)
                and isinstance(t.left, ast.Name) and isinstance(t.comparators[0], ast.Name)
                and "func" in (t.left.id, t.comparators[0].id) and t.left.id != t.comparators[0].id)

    def leaves(body) -> bool:
        """the block never falls through: ends in raise / return of the fallback text / continue"""
        return bool(body) and isinstance(body[-1], (ast.Raise, ast.Continue)) or (
            bool(body) and isinstance(body[-1], ast.Return) and not isinstance(body[-1].value, ast.Name))

    # every `return <dotted name variable>` is guarded: it is in the body of `if target is func:` or it follows
    # `if target is not func: raise …` in the same block
    verdicts: List[bool] = []

    def scan(block, guarded: bool):
        g = guarded
        for st in block:
            if isinstance(st, ast.Return) and isinstance(st.value, ast.Name):
                verdicts.append(g)
            elif isinstance(st, ast.If):
                scan(st.body, g or pure_identity(st.test))
                scan(st.orelse, g or pure_non_identity(st.test))
                if pure_non_identity(st.test) and leaves(st.body) and not st.orelse:
                    g = True
            elif isinstance(st, ast.Try):
                scan(st.body, g)
                for h in st.handlers:
                    scan(h.body, guarded)
                scan(st.orelse, g)
                scan(st.finalbody, guarded)
            elif isinstance(st, (ast.For, ast.While, ast.With)):
                scan(st.body, g)
                scan(getattr(st, "orelse", []), guarded)
    scan(fn.body, False)
    identity = bool(verdicts) and all(verdicts)
    texts = [ast.unparse(n) for n in ast.walk(fn) if isinstance(n, ast.Return) and isinstance(n.value, ast.JoinedStr)]
    call_fallback = any("celpy.evaluation.host_function(activation, " in t for t in texts)
    op_fallback = any("activation.resolve_function(" in t for t in texts)
    unbound = any("CELEvalError('unbound function', KeyError" in t for t in texts)
    sites = [n for n in ast.walk(find_class(ev, "Phase1Transpiler"))
             if isinstance(n, ast.Call) and ast.unparse(n.func) == "self.func_name" and n.args
             and ast.unparse(n.args[0]) in ("property_name_token.value", "op")]
    uses_call_flag = len(sites) >= 3 and all("call=True" in ast.unparse(n) for n in sites)
    hchecks, happly = host_function_rule(ev)
    checks = hchecks == [ELEM_CHECK] and happly == ["*args"]
    return identity, call_fallback, op_fallback, unbound, uses_call_flag, checks


def cond_facts(ev: ast.Module):
    fn = find_func(find_class(ev, "Evaluator").body, "expr")
    lazy = False
    # the local holding the visited condition (any name), then `if <it>: visit children[1] else: visit children[2]`
    # (statement or conditional expression); each branch child is visited at exactly one place in the function
    cond_names = {t.id for st in ast.walk(fn) if isinstance(st, (ast.Assign, ast.AnnAssign)) and st.value is not None
                  for t in (st.targets if isinstance(st, ast.Assign) else [st.target])
                  if isinstance(t, ast.Name) and "self.visit(" in ast.unparse(st.value) and "tree.children[0]" in ast.unparse(st.value)}

    def visits(k: int) -> int:
        return sum(1 for n in ast.walk(fn) if isinstance(n, ast.Call) and ast.unparse(n.func) == "self.visit"
                   and f"tree.children[{k}]" in ast.unparse(n))
    for node in ast.walk(fn):
        if isinstance(node, (ast.If, ast.IfExp)) and isinstance(node.test, ast.Name) and node.test.id in cond_names:
            body = node.body if isinstance(node.body, list) else [node.body]
            orelse = node.orelse if isinstance(node.orelse, list) else [node.orelse]
            a, b = " ".join(ast.unparse(x) for x in body), " ".join(ast.unparse(x) for x in orelse)
            if "tree.children[1]" in a and "tree.children[2]" not in a and "tree.children[2]" in b and "tree.children[1]" not in b:
                lazy = visits(1) == 1 and visits(2) == 1 and "self.visit_children(tree)" not in a + b
    tfn = find_func(find_class(ev, "Phase1Transpiler").body, "expr")
    n_result = 0
    for node in ast.walk(tfn):
        if isinstance(node, ast.Constant) and isinstance(node.value, str) and "# expr:" in node.value:
            last = node.value.strip().splitlines()[-1]
            n_result = last.count("celpy.evaluation.result(activation, ex_${n}_")
    ofn = find_func(find_class(ev, "Evaluator").body, "conditionalor")
    afn = find_func(find_class(ev, "Evaluator").body, "conditionaland")
    eager_logic = all("self.visit_children(tree)" in ast.unparse(f) for f in (ofn, afn))
    return lazy, n_result, eager_logic


def phase1_unconditional(ev: ast.Module) -> bool:
    """`Transpiler.transpile`: a `Phase1Transpiler(…).visit(self.ast)` is a statement of the function body itself (not under an
    `if` / `try` / loop) and no `return` precedes it — written in one statement or via a local holding the visitor."""
    fn = find_func(find_class(ev, "Transpiler").body, "transpile")
    visitors = set()
    for st in fn.body:
        if isinstance(st, (ast.Assign, ast.AnnAssign)) and st.value is not None:
            targets = st.targets if isinstance(st, ast.Assign) else [st.target]
            made = isinstance(st.value, ast.Call) and ast.unparse(st.value.func) == "Phase1Transpiler"
            for t in targets:
                if isinstance(t, ast.Name):
                    (visitors.add if made else visitors.discard)(t.id)
            continue
        if isinstance(st, ast.Expr) and isinstance(st.value, ast.Call) and isinstance(st.value.func, ast.Attribute) \
                and st.value.func.attr == "visit" and [ast.unparse(a) for a in st.value.args] == ["self.ast"] and not st.value.keywords:
            recv = st.value.func.value
            if (isinstance(recv, ast.Name) and recv.id in visitors) or \
                    (isinstance(recv, ast.Call) and ast.unparse(recv.func) == "Phase1Transpiler"):
                return True
        if any(isinstance(n, (ast.Return, ast.Raise)) for n in ast.walk(st)):
            return False
    return False


def b(x: bool) -> str:
    return "true" if x else "false"


def gen_funcs() -> str:
    ev = parse(EV)
    out = [HEADER.format(src="src/celpy/evaluation.py (base_functions, Activation.__init__, function_eval, method_eval, exprlist, "
                             "result, func_name, host_function, transpile, member_dot_arg, expr) and src/celpy/*.py (writes to base_functions)"),
           "import Cel.Model.Basic\nnamespace Cel.Gen.Funcs\nopen Cel (Exc)\n"]
    # base_functions keys
    keys = None
    for st in ev.body:
        if isinstance(st, ast.AnnAssign) and _is_name(st.target, "base_functions") and isinstance(st.value, ast.Dict):
            keys = [k.value for k in st.value.keys if isinstance(k, ast.Constant) and isinstance(k.value, str)]
            if len(keys) != len(st.value.keys):
                raise TranslationError("base_functions: non-literal key")
    if keys is None:
        raise TranslationError("base_functions dict literal not found")
    out.append("def baseKeys : List String := " + lean_list([lean_str(k) for k in keys]))
    key_attr, chains = activation_chain(ev)
    out.append(f"def listKeyAttr : String := {lean_str(key_attr)}")
    for k in ("list", "dict", "none"):
        out.append(f"def chain_{k} : List String := " + lean_list([lean_str(x) for x in chains[k]]))
    rf = find_func(find_class(ev, "Activation").body, "resolve_function")
    rets = [ast.unparse(s.value) for s in rf.body if isinstance(s, ast.Return)]
    out.append(f"def resolveFunctionIsChainLookup : Bool := {b(rets == ['self.functions[name]'])}")
    out.append("def baseWrites : List String := " + lean_list([lean_str(h) for h in base_writes()]))
    for rule in ("function_eval", "method_eval"):
        look, app, checks, applied = eval_rule(ev, rule)
        out.append(f"def {rule}_lookupCaught : List Exc := " + lean_list([lean_exc(c) for c in look]))
        out.append(f"def {rule}_applyCaught : List Exc := " + lean_list([lean_exc(c) for c in app]))
        out.append(f"def {rule}_errorChecks : List String := " + lean_list([lean_str(c) for c in checks]))
        out.append(f"def {rule}_appliedTo : List String := " + lean_list([lean_str(c) for c in applied]))
    out.append(f"def exprlistReturnsFirstError : Bool := {b(exprlist_first_error(ev))}")
    res = find_func(ev.body, "result")
    tries = [s for s in res.body if isinstance(s, ast.Try)]
    if len(tries) != 1 or len(tries[0].handlers) != 1:
        raise TranslationError("result(): expected exactly one try/except")
    out.append("def resultCaught : List Exc := " + lean_list([lean_exc(c) for c in exc_names(tries[0].handlers[0].type)]))
    out.append("def macroNamesI : List String := " + lean_list([lean_str(x) for x in macro_names(ev, "Evaluator")]))
    out.append("def macroNamesC : List String := " + lean_list([lean_str(x) for x in macro_names(ev, "Phase1Transpiler")]))
    identity, call_fb, op_fb, unbound, flag, checks = func_name_facts(ev)
    out.append(f"def funcNameIdentityCheck : Bool := {b(identity)}")
    out.append(f"def funcNameCallFallbackIsHostFunction : Bool := {b(call_fb)}")
    out.append(f"def funcNameOperatorFallbackIsResolve : Bool := {b(op_fb)}")
    out.append(f"def funcNameUnboundIsErrorObject : Bool := {b(unbound)}")
    out.append(f"def callsPassCallFlag : Bool := {b(flag)}")
    out.append(f"def hostFunctionChecksArguments : Bool := {b(checks)}")
    out.append(f"def transpilePhase1Unconditional : Bool := {b(phase1_unconditional(ev))}")
    lazy, n_result, eager_logic = cond_facts(ev)
    out.append(f"def condLazyI : Bool := {b(lazy)}")
    out.append(f"def condResultOperandsC : Nat := {n_result}")
    out.append(f"def logicVisitsBothI : Bool := {b(eager_logic)}")
    out.append("\nend Cel.Gen.Funcs\n")
    return "\n".join(out)


GENERATORS = {"Funcs": gen_funcs}
