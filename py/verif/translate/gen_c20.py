"""Generator for Gen/CliStatus.lean (C20): the status constants of `celpy.__main__` per branch
(`main`: parse error, the `--null-input` branch, the NDJSON loop; `process_json_doc`: boolean status,
plain status, the two `except` clauses), the keys of `CLI_ARG_TYPES`, the default package.

Subset: the statements are located by shape (an `if` on `options.null_input`, a `try` with an
`except CELParseError`, `summary = <const>` / `return <const>` / `x = A if result_value else B`, a
`for … in sys.stdin` whose body is `summary = max(summary, process_json_doc(…))`).  A branch that
cannot be located or whose status is not a literal is a TranslationError."""
from __future__ import annotations
import ast
from typing import List, Optional
from .py2lean import TranslationError, find_func, lean_str, lean_list, strip_doc
from .common import parse, HEADER


def const_int(e) -> int:
    if isinstance(e, ast.Constant) and type(e.value) is int:
        return e.value
    raise TranslationError(f"status is not an integer literal: {ast.unparse(e)}")


def handler_names(h: ast.ExceptHandler) -> List[str]:
    if h.type is None:
        return ["BaseException"]
    if isinstance(h.type, ast.Tuple):
        return [ast.unparse(e).split(".")[-1] for e in h.type.elts]
    return [ast.unparse(h.type).split(".")[-1]]


def find_try_with(body, cls: str) -> ast.Try:
    for node in body:
        for n in ast.walk(node):
            if isinstance(n, ast.Try) and any(cls in handler_names(h) for h in n.handlers):
                return n
    raise TranslationError(f"no try/except {cls}")


def handler_of(t: ast.Try, cls: str) -> ast.ExceptHandler:
    for h in t.handlers:
        if cls in handler_names(h):
            return h
    raise TranslationError(f"no except {cls}")


def bool_status(stmts, target: Optional[str]):
    """`target = A if result_value else B` (or `return A if result_value else B`) directly in stmts → (A, B)"""
    for st in stmts:
        v = None
        if target and isinstance(st, ast.Assign) and len(st.targets) == 1 and ast.unparse(st.targets[0]) == target:
            v = st.value
        if not target and isinstance(st, ast.Return):
            v = st.value
        if isinstance(v, ast.IfExp) and ast.unparse(v.test) == "result_value":
            return const_int(v.body), const_int(v.orelse)
    raise TranslationError("boolean status expression `A if result_value else B` not found")


def plain_status(stmts, target: Optional[str]) -> int:
    """the last `target = <const>` / `return <const>` directly in stmts"""
    out = None
    for st in stmts:
        if target and isinstance(st, ast.Assign) and len(st.targets) == 1 and ast.unparse(st.targets[0]) == target \
                and isinstance(st.value, ast.Constant):
            out = const_int(st.value)
        if not target and isinstance(st, ast.Return) and isinstance(st.value, ast.Constant):
            out = const_int(st.value)
    if out is None:
        raise TranslationError("constant status not found in branch")
    return out


def is_bool_test(e) -> bool:
    """`isinstance(result_value, (celtypes.BoolType, bool))`, possibly `boolean_to_status and …`"""
    if isinstance(e, ast.BoolOp) and isinstance(e.op, ast.And):
        return any(is_bool_test(v) for v in e.values)
    if isinstance(e, ast.Call) and ast.unparse(e.func) == "isinstance" and ast.unparse(e.args[0]) == "result_value":
        names = ast.unparse(e.args[1])
        return "BoolType" in names
    return False


def calls(stmts, text: str) -> bool:
    return any(isinstance(st, ast.Expr) and ast.unparse(st.value) == text for st in stmts)


DOC_OUTCOMES = ["malformed", "evalError", "celTrue", "celFalse", "otherT", "otherF"]
NULL_OUTCOMES = ["evalError", "celTrue", "celFalse", "otherT", "otherF"]
PD_CASES = [("pkg", None, "PKG"), ("doc", "DOC", None)]           # (--json-document, --json-package) as get_options leaves them
RAISED = 1000                                                     # result code of a scenario that ends in an exception leaving the function


def lean_bool(b: bool) -> str:
    return "true" if b else "false"


def res_code(r) -> int:
    if type(r) is int and 0 <= r < RAISED:
        return r
    if isinstance(r, str) and r.startswith("raise "):
        return RAISED
    raise TranslationError(f"status is not a small non-negative integer: {r!r}")


def trace_lean(tr: List[str]) -> str:
    return lean_list([lean_str(x) for x in tr])


def main_options(**kw):
    o = {"verbose": 0, "interactive": False, "format": None, "expr": "EXPR", "arg": None, "null_input": False, "slurp": False,
         "boolean": False, "document": None, "package": "PKG"}
    o.update(kw)
    return o


def gen_cli_status() -> str:
    from .c20_interp import run_function, Sym
    m = parse("src/celpy/__main__.py")
    out = [HEADER.format(src="src/celpy/__main__.py (main, process_json_doc, CLI_ARG_TYPES, get_options)"),
           "namespace Cel.Gen.Cli\n",
           "/-! behaviour tables of `process_json_doc` and `main`, obtained by running their current source text in the C20 interpreter\n"
           "(py/verif/translate/c20_interp.py) on every scenario: trace of observable effects and returned status (1000 = an exception leaves). -/\n"]

    # --- process_json_doc: boolean_to_status x outcome --------------------------------------------------
    rows = []
    for b in (False, True):
        for oc in DOC_OUTCOMES:
            r = run_function(m, "process_json_doc",
                             {"display": Sym("display"), "prgm": Sym("prgm"), "activation": Sym("activation"), "variable": Sym("variable"),
                              "document": Sym("document"), "boolean_to_status": b},
                             {"label": f"process_json_doc b={b} {oc}", "options": {}, "outcome": oc, "malformed": oc == "malformed", "in_main": False})
            rows.append(f"({lean_bool(b)}, {lean_str(oc)}, {trace_lean(r['trace'])}, {res_code(r['result'])})")
    out.append("def docTable : List (Bool × String × List String × Nat) :=\n  [" + ",\n   ".join(rows) + "]\n")

    def run_main(label, opts, **sc):
        d = {"label": label, "options": opts, "outcome": "otherT", "in_main": True, "doc_status": 0}
        d.update(sc)
        return run_function(m, "main", {"argv": Sym("argv")}, d)

    # --- main: parse error in every mode -----------------------------------------------------------------------
    rows = []
    for mode, o in (("n", main_options(null_input=True)), ("s", main_options(slurp=True)), ("j", main_options())):
        for b in (False, True):
            o2 = dict(o, boolean=b)
            r = run_main(f"main parse error mode={mode}", o2, parse_error=True)
            rows.append(f"({lean_str(mode)}, {lean_bool(b)}, {trace_lean(r['trace'])}, {res_code(r['result'])})")
    out.append("def parseErrorTable : List (String × Bool × List String × Nat) :=\n  [" + ",\n   ".join(rows) + "]\n")

    # --- main --null-input: boolean x outcome --------------------------------------------------------------------
    rows = []
    for b in (False, True):
        for oc in NULL_OUTCOMES:
            r = run_main(f"main -n b={b} {oc}", main_options(null_input=True, boolean=b), outcome=oc)
            rows.append(f"({lean_bool(b)}, {lean_str(oc)}, {trace_lean(r['trace'])}, {res_code(r['result'])})")
    out.append("def nullTable : List (Bool × String × List String × Nat) :=\n  [" + ",\n   ".join(rows) + "]\n")

    # --- main --slurp: boolean x (-d / -p) x status of the one document ---------------------------------------------
    rows = []
    for b in (False, True):
        for pd, doc, pkg in PD_CASES:
            for d in range(4):
                r = run_main(f"main -s b={b} {pd} d={d}", main_options(slurp=True, boolean=b, document=doc, package=pkg), doc_status=d)
                rows.append(f"({lean_bool(b)}, {lean_str(pd)}, {d}, {trace_lean(r['trace'])}, {res_code(r['result'])})")
    out.append("def slurpTable : List (Bool × String × Nat × List String × Nat) :=\n  [" + ",\n   ".join(rows) + "]\n")

    # --- main NDJSON: what precedes the loop, where the lines come from, the initial status, one step of the loop for every
    #     (carried status, document status), and that main returns the carried status --------------------------------------
    rows, srows = [], []
    for b in (False, True):
        for pd, doc, pkg in PD_CASES:
            r = run_main(f"main ndjson b={b} {pd}", main_options(boolean=b, document=doc, package=pkg))
            lp = r["loop"]
            if lp is None or r["result"] != "LOOP":
                raise TranslationError("main: NDJSON branch does not return the status carried by a loop over the input lines")
            rows.append(f"({lean_bool(b)}, {lean_str(pd)}, {trace_lean(r['trace'])}, {lean_str(lp['source'])}, {res_code(lp['init'])})")
            for s_, d, tr, x in lp["steps"]:
                srows.append(f"(({lean_bool(b)}, {lean_str(pd)}, {s_}, {d}), ({trace_lean(tr)}, {res_code(x)}))")
    out.append("def ndjsonTable : List (Bool × String × List String × String × Nat) :=\n  [" + ",\n   ".join(rows) + "]\n")
    out.append("def ndjsonStepTable : List ((Bool × String × Nat × Nat) × (List String × Nat)) :=\n  [" + ",\n   ".join(srows) + "]\n")

    # --- CLI_ARG_TYPES -------------------------------------------------------------------------------------
    table = None
    for st in m.body:
        tgt = st.target if isinstance(st, ast.AnnAssign) else (st.targets[0] if isinstance(st, ast.Assign) else None)
        if tgt is not None and ast.unparse(tgt) == "CLI_ARG_TYPES":
            table = st.value
    if not isinstance(table, ast.Dict):
        raise TranslationError("CLI_ARG_TYPES: dict literal not found")
    items = []
    for k, v in zip(table.keys, table.values):
        if not (isinstance(k, ast.Constant) and isinstance(k.value, str)):
            raise TranslationError("CLI_ARG_TYPES: non-literal key")
        txt = ast.unparse(v)
        if txt.startswith("celtypes."):
            conv = txt[len("celtypes."):]
        elif "lambda arg: None" in txt:
            conv = "None"
        elif "celtypes.ListType(ast.literal_eval(arg))" in txt:
            conv = "ListType.literal_eval"
        elif "celtypes.MapType(ast.literal_eval(arg))" in txt:
            conv = "MapType.literal_eval"
        else:
            raise TranslationError(f"CLI_ARG_TYPES[{k.value!r}]: converter outside the subset: {txt[:60]}")
        items.append(f"({lean_str(k.value)}, {lean_str(conv)})")
    out.append("def cliArgTypes : List (String × String) :=\n  " + lean_list(items) + "\n")

    # --- get_options: default package, error exits ------------------------------------------------------------
    go = find_func(m.body, "get_options")
    default_pkg = None
    for n in ast.walk(go):
        if (isinstance(n, ast.If) and ast.unparse(n.test) == "not options.package and (not options.document)"
                and len(n.body) == 1 and isinstance(n.body[0], ast.Assign) and ast.unparse(n.body[0].targets[0]) == "options.package"
                and isinstance(n.body[0].value, ast.Constant)):
            default_pkg = n.body[0].value.value
    if not isinstance(default_pkg, str):
        raise TranslationError("get_options: default package not found")
    out.append(f"def defaultPackage : String := {lean_str(default_pkg)}")
    out.append("\nend Cel.Gen.Cli\n")
    return "\n".join(out)


GENERATORS = {"CliStatus": gen_cli_status}
