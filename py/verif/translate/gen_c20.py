"""Generator for Gen/CliStatus.lean (C20): the status constants of `celpy.__main__` per branch
(`main`: parse error, the `--null-input` branch, the NDJSON loop; `process_json_doc`: boolean status,
plain status, the two `except` clauses), the keys of `CLI_ARG_TYPES`, the default package.

Subset: the statements are located by shape (an `if` on `options.null_input`, a `try` with an
`except CELParseError`, `summary = <const>` / `return <const>` / `x = A if result_value else B`, a
`for … in sys.stdin` whose body is `summary = max(summary, process_json_doc(…))`).  A branch that
cannot be located or whose status is not a literal is a TranslationError."""
from __future__ import annotations
import ast
from typing import List, Optional
from .py2lean import TranslationError, find_func, lean_str, lean_list, strip_doc
from .common import parse, HEADER


def const_int(e) -> int:
    if isinstance(e, ast.Constant) and type(e.value) is int:
        return e.value
    raise TranslationError(f"status is not an integer literal: {ast.unparse(e)}")


def handler_names(h: ast.ExceptHandler) -> List[str]:
    if h.type is None:
        return ["BaseException"]
    if isinstance(h.type, ast.Tuple):
        return [ast.unparse(e).split(".")[-1] for e in h.type.elts]
    return [ast.unparse(h.type).split(".")[-1]]


def find_try_with(body, cls: str) -> ast.Try:
    for node in body:
        for n in ast.walk(node):
            if isinstance(n, ast.Try) and any(cls in handler_names(h) for h in n.handlers):
                return n
    raise TranslationError(f"no try/except {cls}")


def handler_of(t: ast.Try, cls: str) -> ast.ExceptHandler:
    for h in t.handlers:
        if cls in handler_names(h):
            return h
    raise TranslationError(f"no except {cls}")


def bool_status(stmts, target: Optional[str]):
    """`target = A if result_value else B` (or `return A if result_value else B`) directly in stmts → (A, B)"""
    for st in stmts:
        v = None
        if target and isinstance(st, ast.Assign) and len(st.targets) == 1 and ast.unparse(st.targets[0]) == target:
            v = st.value
        if not target and isinstance(st, ast.Return):
            v = st.value
        if isinstance(v, ast.IfExp) and ast.unparse(v.test) == "result_value":
            return const_int(v.body), const_int(v.orelse)
    raise TranslationError("boolean status expression `A if result_value else B` not found")


def plain_status(stmts, target: Optional[str]) -> int:
    """the last `target = <const>` / `return <const>` directly in stmts"""
    out = None
    for st in stmts:
        if target and isinstance(st, ast.Assign) and len(st.targets) == 1 and ast.unparse(st.targets[0]) == target \
                and isinstance(st.value, ast.Constant):
            out = const_int(st.value)
        if not target and isinstance(st, ast.Return) and isinstance(st.value, ast.Constant):
            out = const_int(st.value)
    if out is None:
        raise TranslationError("constant status not found in branch")
    return out


def is_bool_test(e) -> bool:
    """`isinstance(result_value, (celtypes.BoolType, bool))`, possibly `boolean_to_status and …`"""
    if isinstance(e, ast.BoolOp) and isinstance(e.op, ast.And):
        return any(is_bool_test(v) for v in e.values)
    if isinstance(e, ast.Call) and ast.unparse(e.func) == "isinstance" and ast.unparse(e.args[0]) == "result_value":
        names = ast.unparse(e.args[1])
        return "BoolType" in names
    return False


def calls(stmts, text: str) -> bool:
    return any(isinstance(st, ast.Expr) and ast.unparse(st.value) == text for st in stmts)


def gen_cli_status() -> str:
    m = parse("src/celpy/__main__.py")
    out = [HEADER.format(src="src/celpy/__main__.py (main, process_json_doc, CLI_ARG_TYPES, get_options)"),
           "namespace Cel.Gen.Cli\n"]
    main = find_func(m.body, "main")
    last = main.body[-1]
    if not (isinstance(last, ast.Return) and isinstance(last.value, ast.Name)):
        raise TranslationError("main: does not end with `return <status variable>`")
    SUM = last.value.id          # the status variable (`summary`)

    # --- parse error ---------------------------------------------------------------------------------
    t = find_try_with(main.body, "CELParseError")
    out.append(f"def parseError : Nat := {plain_status(handler_of(t, 'CELParseError').body, None)}")

    # --- the mode ladder: if options.null_input / elif options.slurp / else --------------------------
    mode_if = None
    for st in main.body:
        if isinstance(st, ast.If) and ast.unparse(st.test) == "options.null_input":
            mode_if = st
    if mode_if is None:
        raise TranslationError("main: `if options.null_input:` not found")
    t = find_try_with(mode_if.body, "CELEvalError")
    bool_if = None
    for st in t.body:
        if isinstance(st, ast.If) and ast.unparse(st.test) == "options.boolean":
            bool_if = st
    if bool_if is None:
        raise TranslationError("main: `if options.boolean:` not found in the null-input branch")
    inner = [st for st in bool_if.body if isinstance(st, ast.If) and is_bool_test(st.test)]
    if len(inner) != 1:
        raise TranslationError("main: isinstance(result_value, (BoolType, bool)) test not found")
    tr, fa = bool_status(inner[0].body, SUM)
    out.append(f"def nullTrue : Nat := {tr}\ndef nullFalse : Nat := {fa}")
    out.append(f"def nullNonBool : Nat := {plain_status(inner[0].orelse, SUM)}")
    out.append(f"def nullPlain : Nat := {plain_status(bool_if.orelse, SUM)}")
    out.append(f"def nullPlainDisplays : Bool := {'true' if calls(bool_if.orelse, 'output_display(result_value)') else 'false'}")
    out.append(f"def nullBooleanDisplays : Bool := {'true' if any('output_display' in ast.unparse(s) for s in bool_if.body) else 'false'}")
    out.append(f"def nullEvalError : Nat := {plain_status(handler_of(t, 'CELEvalError').body, SUM)}")

    # slurp / ndjson
    if not (len(mode_if.orelse) == 1 and isinstance(mode_if.orelse[0], ast.If) and ast.unparse(mode_if.orelse[0].test) == "options.slurp"):
        raise TranslationError("main: `elif options.slurp:` not found")
    slurp_if = mode_if.orelse[0]
    slurp_ok = any(isinstance(st, ast.Assign) and ast.unparse(st.targets[0]) == SUM
                   and isinstance(st.value, ast.Call) and ast.unparse(st.value.func) == "process_json_doc"
                   for st in slurp_if.body) and any("sys.stdin.read()" in ast.unparse(st) for st in slurp_if.body)
    out.append(f"def slurpIsOneDocument : Bool := {'true' if slurp_ok else 'false'}")
    nd = slurp_if.orelse
    init = plain_status(nd, SUM)
    loops = [st for st in nd if isinstance(st, ast.For) and ast.unparse(st.iter) == "sys.stdin"]
    if len(loops) != 1:
        raise TranslationError("main: `for document in sys.stdin` not found")
    body = loops[0].body
    comb = "other"
    if len(body) == 1 and isinstance(body[0], ast.Assign) and ast.unparse(body[0].targets[0]) == SUM:
        v = body[0].value
        if (isinstance(v, ast.Call) and ast.unparse(v.func) == "max" and len(v.args) == 2
                and sorted(("summary" if ast.unparse(a) == SUM else
                            ("doc" if isinstance(a, ast.Call) and ast.unparse(a.func) == "process_json_doc" else "?")) for a in v.args) == ["doc", "summary"]):
            comb = "max"
    out.append(f"def ndjsonInit : Nat := {init}")
    out.append(f"def ndjsonCombine : String := {lean_str(comb)}")
    # the last statement of main returns the summary
    out.append("def mainReturnsSummary : Bool := true\n")

    # --- process_json_doc ------------------------------------------------------------------------------
    pj = find_func(m.body, "process_json_doc")
    body = strip_doc(pj.body)
    if len(body) != 1 or not isinstance(body[0], ast.Try):
        raise TranslationError("process_json_doc: body is not a single try")
    t = body[0]
    tb = t.body
    # order of effects: bind, evaluate, display, status
    texts = [ast.unparse(s) for s in tb]
    def idx(pred):
        for i, s in enumerate(texts):
            if pred(s):
                return i
        raise TranslationError("process_json_doc: statement not found")
    i_bind = idx(lambda s: s.startswith("activation[variable] = json.loads(document, cls=CELJSONDecoder)"))
    i_eval = idx(lambda s: s == "result_value = prgm.evaluate(activation)")
    i_disp = idx(lambda s: s == "display(result_value)")
    order_ok = i_bind < i_eval < i_disp
    inner = [st for st in tb[i_disp + 1:] if isinstance(st, ast.If) and is_bool_test(st.test)]
    if len(inner) != 1 or "boolean_to_status" not in ast.unparse(inner[0].test):
        raise TranslationError("process_json_doc: `if boolean_to_status and isinstance(result_value, …)` not found after display")
    tr, fa = bool_status(inner[0].body, None)
    out.append(f"def docBindsEvaluatesDisplays : Bool := {'true' if order_ok else 'false'}")
    out.append(f"def docTrue : Nat := {tr}\ndef docFalse : Nat := {fa}")
    out.append(f"def docPlain : Nat := {plain_status(tb, None)}")
    he = handler_of(t, "CELEvalError")
    out.append(f"def docEvalError : Nat := {plain_status(he.body, None)}")
    out.append(f"def docEvalErrorDisplaysNone : Bool := {'true' if calls(he.body, 'display(None)') else 'false'}")
    hj = handler_of(t, "JSONDecodeError")
    out.append(f"def docMalformed : Nat := {plain_status(hj.body, None)}")
    out.append(f"def docMalformedDisplays : Bool := {'true' if any('display(' in ast.unparse(s) for s in hj.body) else 'false'}")
    hs = []
    for h in t.handlers:
        hs += handler_names(h)
    out.append("def docHandlers : List String := " + lean_list([lean_str(h) for h in hs]) + "\n")

    # --- CLI_ARG_TYPES -------------------------------------------------------------------------------------
    table = None
    for st in m.body:
        tgt = st.target if isinstance(st, ast.AnnAssign) else (st.targets[0] if isinstance(st, ast.Assign) else None)
        if tgt is not None and ast.unparse(tgt) == "CLI_ARG_TYPES":
            table = st.value
    if not isinstance(table, ast.Dict):
        raise TranslationError("CLI_ARG_TYPES: dict literal not found")
    items = []
    for k, v in zip(table.keys, table.values):
        if not (isinstance(k, ast.Constant) and isinstance(k.value, str)):
            raise TranslationError("CLI_ARG_TYPES: non-literal key")
        txt = ast.unparse(v)
        if txt.startswith("celtypes."):
            conv = txt[len("celtypes."):]
        elif "lambda arg: None" in txt:
            conv = "None"
        elif "celtypes.ListType(ast.literal_eval(arg))" in txt:
            conv = "ListType.literal_eval"
        elif "celtypes.MapType(ast.literal_eval(arg))" in txt:
            conv = "MapType.literal_eval"
        else:
            raise TranslationError(f"CLI_ARG_TYPES[{k.value!r}]: converter outside the subset: {txt[:60]}")
        items.append(f"({lean_str(k.value)}, {lean_str(conv)})")
    out.append("def cliArgTypes : List (String × String) :=\n  " + lean_list(items) + "\n")

    # --- get_options: default package, error exits ------------------------------------------------------------
    go = find_func(m.body, "get_options")
    default_pkg = None
    for n in ast.walk(go):
        if (isinstance(n, ast.If) and ast.unparse(n.test) == "not options.package and (not options.document)"
                and len(n.body) == 1 and isinstance(n.body[0], ast.Assign) and ast.unparse(n.body[0].targets[0]) == "options.package"
                and isinstance(n.body[0].value, ast.Constant)):
            default_pkg = n.body[0].value.value
    if not isinstance(default_pkg, str):
        raise TranslationError("get_options: default package not found")
    out.append(f"def defaultPackage : String := {lean_str(default_pkg)}")
    src_main = ast.unparse(main)
    var_ok = src_main.count("options.document or options.package") >= 2
    out.append(f"def variableIsDocumentOrPackage : Bool := {'true' if var_ok else 'false'}")
    out.append("\nend Cel.Gen.Cli\n")
    return "\n".join(out)


GENERATORS = {"CliStatus": gen_cli_status}
