"""Generator for Gen/NamesPy.lean (C12): the abstract syntax of the name-resolution methods of
evaluation.py, dumped 1:1 as data for the mini-Python interpreter `Cel.Model.NamesPy`.

    Referent.__init__, Referent.value (getter and setter),
    NameContainer.find_name, dict_find_name, resolve_name, get,
    Activation.resolve_variable, Activation.__getattr__

No shape is matched and nothing is rewritten: every statement / expression of the Python subset has one
constructor (`Cel.NamesPy.Stmt` / `Expr`).  The bridge (`Cel.Bridge.Names`) *runs* the dumped program on an
exhaustive small scope and compares with the hand-written model, so any behaviour-preserving rewrite inside
the subset keeps the bridge, any behaviour-changing one breaks it.  Outside the subset: TranslationError
(handled like a broken bridge).  Dropped as meaningless for the result: docstrings, `logger` calls, type
annotations (`x: T` without value, the type argument of `cast`), the text of f-strings (only used in
exception messages).

The interpreter has value semantics.  It agrees with Python's reference semantics as long as no object is
mutated through one name and observed through another, which `check_mutation` enforces syntactically:
`x.append(..)` / `x.attr = ..` only on a local that is always assigned a freshly built object and never
stored elsewhere (or on `self` inside `__init__` / a property setter, whose caller reads `self` back).
"""
from __future__ import annotations
import ast
from typing import List, Set

from .py2lean import TranslationError, find_func, find_class, lean_str, lean_list
from .common import parse, HEADER

PURE_BUILTINS = {"len", "max", "min", "isinstance", "bool", "list", "tuple", "cast", "sorted", "reversed", "any", "all", "repr", "str"}

CMP = {ast.Is: "is", ast.IsNot: "isnot", ast.Eq: "==", ast.NotEq: "!=", ast.Lt: "<", ast.LtE: "<=", ast.Gt: ">",
       ast.GtE: ">=", ast.In: "in", ast.NotIn: "notin"}
BIN = {ast.Add: "+", ast.Sub: "-", ast.Mult: "*", ast.FloorDiv: "//", ast.Mod: "%"}


def is_logger(call: ast.AST) -> bool:
    return isinstance(call, ast.Call) and "logger" in ast.unparse(call.func).split(".")


def locals_of(fn: ast.FunctionDef) -> Set[str]:
    out = {a.arg for a in fn.args.posonlyargs + fn.args.args + fn.args.kwonlyargs}
    for node in ast.walk(fn):
        if isinstance(node, ast.Name) and isinstance(node.ctx, ast.Store):
            out.add(node.id)
        elif isinstance(node, ast.ExceptHandler) and node.name:
            out.add(node.name)
        elif isinstance(node, (ast.FunctionDef, ast.Lambda)) and node is not fn:
            if isinstance(node, ast.FunctionDef):
                out.add(node.name)
            out |= {a.arg for a in node.args.args}
    return out


def opt(s) -> str:
    return s


class Tr:
    def __init__(self, fn: ast.FunctionDef, where: str):
        self.loc = locals_of(fn)
        self.where = where

    def fail(self, node, what: str):
        raise TranslationError(f"{self.where}: {what}: {ast.unparse(node)[:70] if isinstance(node, ast.AST) else node}")

    # ---- expressions ------------------------------------------------------------------------
    def e(self, n: ast.expr) -> str:
        if isinstance(n, ast.Constant):
            v = n.value
            if v is None:
                return ".cnone"
            if isinstance(v, bool):
                return f".cbool {'true' if v else 'false'}"
            if isinstance(v, int):
                return f".cint ({v})"
            if isinstance(v, str):
                return f".cstr {lean_str(v)}"
            self.fail(n, "constant")
        if isinstance(n, ast.JoinedStr):
            return '.cstr "<f-string>"'
        if isinstance(n, ast.Name):
            return f".name {lean_str(n.id)}" if n.id in self.loc else f".glob {lean_str(n.id)}"
        if isinstance(n, ast.Attribute):
            return f".attr ({self.e(n.value)}) {lean_str(n.attr)}"
        if isinstance(n, ast.Subscript):
            if isinstance(n.slice, ast.Slice):
                if n.slice.step is not None:
                    self.fail(n, "slice step")
                lo = self.e(n.slice.lower) if n.slice.lower is not None else ".omitted"
                hi = self.e(n.slice.upper) if n.slice.upper is not None else ".omitted"
                return f".slice ({self.e(n.value)}) ({lo}) ({hi})"
            return f".index ({self.e(n.value)}) ({self.e(n.slice)})"
        if isinstance(n, ast.Call):
            if any(isinstance(a, ast.Starred) for a in n.args) or any(k.arg is None for k in n.keywords):
                self.fail(n, "star arguments")
            if isinstance(n.func, ast.Name) and n.func.id == "cast" and n.func.id not in self.loc and len(n.args) == 2:
                return f".call (.glob \"cast\") [.cnone, {self.e(n.args[1])}] []"
            args = lean_list([self.e(a) for a in n.args])
            kws = lean_list([f"({lean_str(k.arg)}, {self.e(k.value)})" for k in n.keywords])
            if isinstance(n.func, ast.Attribute):
                return f".meth ({self.e(n.func.value)}) {lean_str(n.func.attr)} {args} {kws}"
            return f".call ({self.e(n.func)}) {args} {kws}"
        if isinstance(n, (ast.List, ast.Tuple)):
            if any(isinstance(x, ast.Starred) for x in n.elts):
                self.fail(n, "starred element")
            return (".list " if isinstance(n, ast.List) else ".tuple ") + lean_list([self.e(x) for x in n.elts])
        if isinstance(n, ast.UnaryOp):
            if isinstance(n.op, ast.Not):
                return f".not ({self.e(n.operand)})"
            if isinstance(n.op, ast.USub) and isinstance(n.operand, ast.Constant) and type(n.operand.value) is int:
                return f".cint ({-n.operand.value})"
            self.fail(n, "unary operator")
        if isinstance(n, ast.BoolOp):
            parts = [self.e(v) for v in n.values]
            ctor = ".and" if isinstance(n.op, ast.And) else ".or"
            out = parts[-1]
            for p in reversed(parts[:-1]):
                out = f"{ctor} ({p}) ({out})"
            return out
        if isinstance(n, ast.Compare):
            ops = []
            left = n.left
            for op, right in zip(n.ops, n.comparators):
                if type(op) not in CMP:
                    self.fail(n, "comparison operator")
                ops.append(f".cmp {lean_str(CMP[type(op)])} ({self.e(left)}) ({self.e(right)})")
                left = right
            if len(ops) > 1 and not all(isinstance(c, (ast.Name, ast.Constant)) for c in n.comparators[:-1]):
                self.fail(n, "chained comparison with a compound middle operand")
            out = ops[-1]
            for p in reversed(ops[:-1]):
                out = f".and ({p}) ({out})"
            return out
        if isinstance(n, ast.BinOp):
            if type(n.op) not in BIN:
                self.fail(n, "binary operator")
            return f".bin {lean_str(BIN[type(n.op)])} ({self.e(n.left)}) ({self.e(n.right)})"
        if isinstance(n, ast.IfExp):
            return f".ite ({self.e(n.test)}) ({self.e(n.body)}) ({self.e(n.orelse)})"
        if isinstance(n, ast.Lambda):
            a = n.args
            if a.vararg or a.kwarg or a.kwonlyargs or a.defaults or a.posonlyargs:
                self.fail(n, "lambda parameters")
            return f".lam {lean_list([lean_str(x.arg) for x in a.args])} ({self.e(n.body)})"
        if isinstance(n, (ast.ListComp, ast.GeneratorExp)):
            if len(n.generators) != 1 or n.generators[0].is_async or not isinstance(n.generators[0].target, ast.Name):
                self.fail(n, "comprehension shape")
            g = n.generators[0]
            return f".comp ({self.e(n.elt)}) {lean_str(g.target.id)} ({self.e(g.iter)}) {lean_list([self.e(c) for c in g.ifs])}"
        self.fail(n, "expression")

    # ---- statements -------------------------------------------------------------------------
    def tgt(self, t: ast.expr) -> str:
        if isinstance(t, ast.Name):
            return f"(.name {lean_str(t.id)})"
        if isinstance(t, ast.Attribute) and isinstance(t.value, ast.Name):
            return f"(.attr {lean_str(t.value.id)} {lean_str(t.attr)})"
        if isinstance(t, (ast.Tuple, ast.List)):
            pre, star, post = [], "", []
            for x in t.elts:
                if isinstance(x, ast.Starred) and isinstance(x.value, ast.Name) and not star:
                    star = x.value.id
                elif isinstance(x, ast.Name):
                    (post if star else pre).append(x.id)
                else:
                    self.fail(t, "assignment target")
            return f"(.unpack {lean_list([lean_str(x) for x in pre])} {lean_str(star)} {lean_list([lean_str(x) for x in post])})"
        self.fail(t, "assignment target")

    def block(self, body: List[ast.stmt]) -> str:
        out = []
        for s in body:
            r = self.s(s)
            if r is not None:
                out.append(r)
        return lean_list(out)

    def s(self, n: ast.stmt):
        if isinstance(n, ast.Expr):
            if isinstance(n.value, ast.Constant) and isinstance(n.value.value, str):
                return None                                   # docstring
            if is_logger(n.value):
                return None
            c = n.value
            if (isinstance(c, ast.Call) and isinstance(c.func, ast.Attribute) and c.func.attr == "append"
                    and isinstance(c.func.value, ast.Name) and c.func.value.id in self.loc and len(c.args) == 1 and not c.keywords):
                return f".append {lean_str(c.func.value.id)} ({self.e(c.args[0])})"
            return f".expr ({self.e(c)})"
        if isinstance(n, ast.Assign):
            if len(n.targets) != 1:
                self.fail(n, "multiple assignment targets")
            return f".assign {self.tgt(n.targets[0])} ({self.e(n.value)})"
        if isinstance(n, ast.AnnAssign):
            if n.value is None:
                return None
            return f".assign {self.tgt(n.target)} ({self.e(n.value)})"
        if isinstance(n, ast.If):
            return f".ifs ({self.e(n.test)}) {self.block(n.body)} {self.block(n.orelse)}"
        if isinstance(n, ast.For):
            if n.orelse:
                self.fail(n, "for/else")
            return f".for_ {self.tgt(n.target)} ({self.e(n.iter)}) {self.block(n.body)}"
        if isinstance(n, ast.While):
            if n.orelse:
                self.fail(n, "while/else")
            return f".while_ ({self.e(n.test)}) {self.block(n.body)}"
        if isinstance(n, ast.Try):
            if n.orelse or n.finalbody:
                self.fail(n, "try/else/finally")
            hs = []
            for h in n.handlers:
                if h.type is None:
                    names = ["BaseException"]
                elif isinstance(h.type, ast.Tuple):
                    names = [ast.unparse(x).split(".")[-1] for x in h.type.elts]
                else:
                    names = [ast.unparse(h.type).split(".")[-1]]
                hs.append(f"({lean_list([lean_str(x) for x in names])}, {lean_str(h.name or '')}, {self.block(h.body)})")
            return f".try_ {self.block(n.body)} {lean_list(hs)}"
        if isinstance(n, ast.Raise):
            if n.exc is None:
                self.fail(n, "bare raise")
            return f".raise_ ({self.e(n.exc)})"
        if isinstance(n, ast.Return):
            return f".ret ({self.e(n.value) if n.value is not None else '.cnone'})"
        if isinstance(n, ast.Pass):
            return ".pass"
        if isinstance(n, ast.Continue):
            return ".cont"
        if isinstance(n, ast.Break):
            return ".brk"
        if isinstance(n, ast.FunctionDef):
            a = n.args
            if a.vararg or a.kwarg or a.kwonlyargs or a.defaults or a.posonlyargs or n.decorator_list:
                self.fail(n, "local def parameters")
            if any(isinstance(x, (ast.Yield, ast.YieldFrom, ast.Nonlocal, ast.Global)) for x in ast.walk(n)):
                self.fail(n, "local def with yield/nonlocal")
            return f".def_ {lean_str(n.name)} {lean_list([lean_str(x.arg) for x in a.args])} {self.block(n.body)}"
        self.fail(n, "statement")


FRESH_CALLS = {"Referent", "NameContainer", "list", "dict"}


def is_fresh(e: ast.expr) -> bool:
    if isinstance(e, (ast.List, ast.ListComp)):
        return True
    if isinstance(e, ast.Call) and isinstance(e.func, ast.Name) and e.func.id in FRESH_CALLS:
        return True
    return False


def check_mutation(fn: ast.FunctionDef, where: str, self_mutable: bool):
    """value semantics = reference semantics: mutated locals hold fresh, unaliased objects"""
    mutated: Set[str] = set()
    for node in ast.walk(fn):
        if isinstance(node, ast.Call) and isinstance(node.func, ast.Attribute) and isinstance(node.func.value, ast.Name) \
                and node.func.attr in ("append", "extend", "insert", "pop", "remove", "clear", "update", "setdefault", "sort", "reverse", "add"):
            if not is_logger(node):
                mutated.add(node.func.value.id)
        for t in (node.targets if isinstance(node, ast.Assign) else [node.target] if isinstance(node, (ast.AnnAssign, ast.AugAssign)) else []):
            if isinstance(t, ast.Attribute):
                if not isinstance(t.value, ast.Name):
                    raise TranslationError(f"{where}: assignment through an attribute chain {ast.unparse(t)}")
                mutated.add(t.value.id)
            if isinstance(t, ast.Subscript):
                raise TranslationError(f"{where}: item assignment {ast.unparse(t)}")
        if isinstance(node, ast.AugAssign):
            raise TranslationError(f"{where}: augmented assignment {ast.unparse(node)[:40]}")
        if isinstance(node, (ast.Delete, ast.With, ast.Global, ast.Nonlocal, ast.Yield, ast.YieldFrom, ast.Await)):
            raise TranslationError(f"{where}: {type(node).__name__}")
    params = {a.arg for a in fn.args.args}
    for x in sorted(mutated):
        if x == "self" and self_mutable:
            continue
        if x in params:
            raise TranslationError(f"{where}: parameter {x} is mutated")
        # every assignment to x builds a fresh object
        for node in ast.walk(fn):
            tv = None
            if isinstance(node, ast.Assign) and any(isinstance(t, ast.Name) and t.id == x for t in node.targets):
                tv = node.value
            elif isinstance(node, ast.AnnAssign) and isinstance(node.target, ast.Name) and node.target.id == x and node.value is not None:
                tv = node.value
            elif isinstance(node, ast.For) and any(isinstance(t, ast.Name) and t.id == x for t in ast.walk(node.target)):
                raise TranslationError(f"{where}: mutated local {x} is a loop variable")
            elif isinstance(node, ast.Assign) and any(isinstance(t, (ast.Tuple, ast.List)) and any(isinstance(y, ast.Name) and y.id == x for y in ast.walk(t)) for t in node.targets):
                raise TranslationError(f"{where}: mutated local {x} is bound by unpacking")
            if tv is not None and not is_fresh(tv):
                raise TranslationError(f"{where}: mutated local {x} is assigned a value that may be shared: {ast.unparse(tv)[:50]}")
        # x is never stored under another name / inside another object / handed to unknown code
        for node in ast.walk(fn):
            def bare(e):
                return isinstance(e, ast.Name) and e.id == x
            if isinstance(node, (ast.Assign, ast.AnnAssign)) and node.value is not None and bare(node.value):
                raise TranslationError(f"{where}: mutated local {x} is aliased")
            if isinstance(node, (ast.List, ast.Tuple, ast.Set)) and isinstance(getattr(node, "ctx", ast.Load()), ast.Load) and any(bare(e) for e in node.elts):
                raise TranslationError(f"{where}: mutated local {x} is stored in a container")
            if isinstance(node, ast.Dict) and any(bare(e) for e in node.values):
                raise TranslationError(f"{where}: mutated local {x} is stored in a dict")
            if isinstance(node, ast.Call) and not is_logger(node):
                if any(bare(a) for a in node.args) or any(bare(k.value) for k in node.keywords):
                    f = node.func
                    if not (isinstance(f, ast.Name) and f.id in PURE_BUILTINS):
                        raise TranslationError(f"{where}: mutated local {x} is passed to {ast.unparse(f)[:40]}")
            if isinstance(node, (ast.Lambda, ast.FunctionDef)) and node is not fn:
                if any(bare(y) for y in ast.walk(node)):
                    raise TranslationError(f"{where}: mutated local {x} is captured by a closure")


def fn_entry(cls: str, fn: ast.FunctionDef, kind: str) -> str:
    where = f"{cls}.{fn.name}"
    a = fn.args
    if a.vararg or a.kwarg or a.kwonlyargs or a.posonlyargs:
        raise TranslationError(f"{where}: parameter kinds")
    check_mutation(fn, where, self_mutable=(fn.name == "__init__" or kind == "setter"))
    tr = Tr(fn, where)
    params = [x.arg for x in a.args]
    defaults = []
    for p, d in zip(params[len(params) - len(a.defaults):], a.defaults):
        if not isinstance(d, ast.Constant) or not (d.value is None or isinstance(d.value, (bool, int, str))):
            raise TranslationError(f"{where}: default of {p} is not a constant")
        defaults.append(f"({lean_str(p)}, {tr.e(d)})")
    body = tr.block(fn.body)
    return (f"  {{ cls := {lean_str(cls)}, name := {lean_str(fn.name)}, kind := {lean_str(kind)},\n"
            f"    params := {lean_list([lean_str(p) for p in params])}, defaults := {lean_list(defaults)},\n"
            f"    body := {body} }}")


def kind_of(fn: ast.FunctionDef) -> str:
    decs = [ast.unparse(d) for d in fn.decorator_list]
    if decs == ["property"]:
        return "getter"
    if len(decs) == 1 and decs[0].endswith(".setter"):
        return "setter"
    if decs == ["staticmethod"]:
        return "static"
    if decs:
        raise TranslationError(f"{fn.name}: decorators {decs}")
    return "method"


WANTED = {
    "Referent": ["__init__", "value"],
    "NameContainer": ["dict_find_name", "find_name", "resolve_name", "get"],
    "Activation": ["resolve_variable", "__getattr__"],
}


def gen_namespy() -> str:
    ev = parse("src/celpy/evaluation.py")
    entries = []
    for cname, fnames in WANTED.items():
        cls = find_class(ev, cname)
        for fname in fnames:
            fns = [n for n in cls.body if isinstance(n, ast.FunctionDef) and n.name == fname]
            if not fns:
                raise TranslationError(f"def {cname}.{fname} not found")
            for fn in fns:
                entries.append(fn_entry(cname, fn, kind_of(fn)))
    # facts about the class bodies the interpreter builds in: `ident_pat` finds IDENT components, `get = __getattr__`
    nc = find_class(ev, "NameContainer")
    src = [ast.unparse(s) for s in nc.body]
    ident_ok = "ident_pat = re.compile(IDENT)" in src and any(ast.unparse(s) == "IDENT = '[_a-zA-Z][_a-zA-Z0-9]*'" for s in ev.body)
    act = find_class(ev, "Activation")
    get_alias = "get = __getattr__" in [ast.unparse(s) for s in act.body]
    out = [HEADER.format(src="src/celpy/evaluation.py (abstract syntax of Referent.__init__/value, NameContainer.find_name/dict_find_name/resolve_name/get, Activation.resolve_variable/__getattr__)"),
           "import Cel.Model.NamesPy", "namespace Cel.Gen.NamesPy", "open Cel.NamesPy", "",
           "def prog : Prog := [", ",\n".join(entries), "]", "",
           f"def identPatIsIdent : Bool := {'true' if ident_ok else 'false'}",
           f"def activationGetIsGetattr : Bool := {'true' if get_alias else 'false'}",
           "", "end Cel.Gen.NamesPy", ""]
    return "\n".join(out)


GENERATORS = {"NamesPy": gen_namespy}
