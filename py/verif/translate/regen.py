"""Regenerate lean/Cel/Gen/*.lean from /repo's current working tree.

Generators live in the sibling modules `gen_*.py`; each exposes
`GENERATORS = {"<GenFileName>": function returning Lean source}`.  A generator
that raises (TranslationError, SyntaxError of the source, …) produces a stub
that makes the dependent bridge fail to build; the reason is recorded in
Gen/_status.json and reported by the check (handled like a broken bridge).
"""
from __future__ import annotations
import importlib, json, os, pkgutil, sys
from pathlib import Path
from .py2lean import TranslationError
from .common import HEADER

VERIF = Path(__file__).resolve().parents[3]
GEN = VERIF / "lean" / "Cel" / "Gen"


def all_generators() -> dict:
    gens = {}
    pkg = importlib.import_module(__package__)
    for m in sorted(pkgutil.iter_modules(pkg.__path__), key=lambda m: m.name):
        if m.name.startswith("gen_"):
            mod = importlib.import_module(f"{__package__}.{m.name}")
            gens.update(getattr(mod, "GENERATORS", {}))
    return gens


def regen(names=None) -> dict:
    GEN.mkdir(parents=True, exist_ok=True)
    status = {}
    for name, fn in all_generators().items():
        if names and name not in names:
            continue
        path = GEN / f"{name}.lean"
        try:
            text = fn()
            status[name] = "ok"
        except TranslationError as ex:
            text = (HEADER.format(src="(translation FAILED)") +
                    f"-- TranslationError: {ex}\nnamespace Cel.Gen\ndef translationFailed_{name} : Bool := true\nend Cel.Gen\n")
            status[name] = f"TranslationError: {ex}"
        except Exception as ex:  # source no longer parses etc.
            text = (HEADER.format(src="(translation FAILED)") +
                    f"-- {type(ex).__name__}: {str(ex)[:200]}\nnamespace Cel.Gen\ndef translationFailed_{name} : Bool := true\nend Cel.Gen\n")
            status[name] = f"{type(ex).__name__}: {ex}"
        old = path.read_text() if path.exists() else None
        if old != text:
            path.write_text(text)
    try:
        allst = json.loads((GEN / "_status.json").read_text())
    except Exception:
        allst = {}
    allst.update(status)
    (GEN / "_status.json").write_text(json.dumps(allst, indent=1, sort_keys=True) + "\n")
    return status


if __name__ == "__main__":
    st = regen(sys.argv[1:] or None)
    print(json.dumps(st, indent=1))
