"""Generators for Gen/Handlers.lean and Gen/Measured.lean (C04).

Handlers.lean  — read from the SOURCE (ast walk over src/celpy/evaluation.py, celparser.py):
  * the Python exception-class table (ids, names, MRO closure) used by both files,
  * `handlers : Rule → List Nat`: for every primitive site of `Evaluator` (measure_c04.build_sites) the
    classes named by the `except` clauses of the `try` statements whose body encloses the call,
  * the classes caught by `Transpiler.evaluate`, `result()`, `CELParser.parse`,
  * lark's exception classes that `Lark.parse` documents/raises, introspected from the installed lark.

Measured.lean — MEASURED from the live code: every primitive applied to every operand tuple of the value
  pool; per (site, label, operand kinds) the set of exception classes raised.

The pool→all-values step is trusted (DESIGN §4). Both files are re-generated on every run; the bridge
`Cel/Bridge/Total.lean` proves coverage over them by `decide +kernel`.
"""
from __future__ import annotations

import ast
import importlib
import os
import sys
from typing import Any, Dict, List, Optional, Tuple

from .py2lean import TranslationError, find_class, find_func, lean_str, lean_list
from .common import parse, HEADER, exc_names, REPO

_CACHE: Dict[str, Any] = {}


# ------------------------------------------------------------------------------------------------------
# source extraction
# ------------------------------------------------------------------------------------------------------

def _local_names(func: ast.FunctionDef) -> set:
    """names bound inside the function (parameters, assignment / loop / with / except / comprehension targets)"""
    out = set()
    a = func.args
    for x in a.posonlyargs + a.args + a.kwonlyargs + ([a.vararg] if a.vararg else []) + ([a.kwarg] if a.kwarg else []):
        out.add(x.arg)
    for n in ast.walk(func):
        if isinstance(n, ast.Name) and isinstance(n.ctx, (ast.Store, ast.Del)):
            out.add(n.id)
        elif isinstance(n, ast.ExceptHandler) and n.name:
            out.add(n.name)
        elif isinstance(n, (ast.FunctionDef, ast.AsyncFunctionDef)) and n is not func:
            out.add(n.name)
            for x in n.args.posonlyargs + n.args.args + n.args.kwonlyargs:
                out.add(x.arg)
        elif isinstance(n, ast.Lambda):
            for x in n.args.posonlyargs + n.args.args + n.args.kwonlyargs:
                out.add(x.arg)
    out.discard("self")
    return out


_GLOBALS: Dict[str, set] = {}


def _module_globals() -> set:
    """names that are NOT locals of a method wherever they occur: builtins and the module-level names of evaluation.py"""
    key = str(REPO)
    if key not in _GLOBALS:
        import builtins
        g = set(dir(builtins)) | {"self"}
        for st in parse("src/celpy/evaluation.py").body:
            if isinstance(st, (ast.Import, ast.ImportFrom)):
                for al in st.names:
                    g.add((al.asname or al.name).split(".")[0])
            elif isinstance(st, (ast.FunctionDef, ast.ClassDef, ast.AsyncFunctionDef)):
                g.add(st.name)
            else:
                for n in ast.walk(st):
                    if isinstance(n, ast.Name) and isinstance(n.ctx, ast.Store):
                        g.add(n.id)
        _GLOBALS[key] = g
    return _GLOBALS[key]


def _shape(node: ast.AST, is_local) -> Tuple[str, Tuple[str, ...]]:
    """(text with every local name replaced by a numbered placeholder in order of first occurrence, the local names
    in that order): two expressions have the same shape iff one is the other up to a consistent (injective) renaming
    of locals"""
    order: List[str] = []

    class Ren(ast.NodeTransformer):
        def visit_Name(self, n):
            if is_local(n.id):
                if n.id not in order:
                    order.append(n.id)
                return ast.copy_location(ast.Name(id=f"_L{order.index(n.id)}", ctx=n.ctx), n)
            return n

    t = ast.unparse(Ren().visit(ast.parse(ast.unparse(node), mode="eval").body))
    return t, tuple(order)


def _enclosing(func: ast.FunctionDef, text: str, under: Optional[str], which: int):
    """-> (node, [Try statements whose BODY contains the node]) for the `which`-th node (source order)
    whose unparsed text equals `text` (and that sits inside an `if` with test `under`, when given).

    Round 2: when no node has exactly that text (a local variable was renamed), the expression is located up to a
    consistent renaming of the method's local variables — accepted only if all candidates sit under the same
    `except` clauses (so the handler set read for the site does not depend on the choice)."""
    found: List[Tuple[ast.AST, List[ast.Try]]] = []
    loose: List[Tuple[ast.AST, List[ast.Try], Tuple[str, ...]]] = []
    locs = _local_names(func)
    glob = _module_globals()
    want = _shape(ast.parse(text, mode="eval").body, lambda n: n not in glob)[0]
    want_under = _shape(ast.parse(under, mode="eval").body, lambda n: n not in glob)[0] if under else None

    def walk(node, tries: List[ast.Try], ifs: List[Tuple[str, str]]):
        if isinstance(node, ast.expr):
            try:
                t = ast.unparse(node)
            except Exception:
                t = None
            if t == text and (under is None or under in [i[0] for i in ifs]):
                found.append((node, list(tries)))
            elif t is not None and type(node) in (ast.Call, ast.Subscript, ast.Attribute, ast.BinOp, ast.Compare):
                sh = _shape(node, lambda n: n in locs and n not in glob)
                if sh[0] == want and (under is None or under in [i[0] for i in ifs] or want_under in [i[1] for i in ifs]):
                    loose.append((node, list(tries), sh[1]))
        if isinstance(node, ast.Try):
            for st in node.body:
                walk(st, tries + [node], ifs)
            for h in node.handlers:
                for st in h.body:
                    walk(st, tries, ifs)
            for st in node.orelse + node.finalbody:
                walk(st, tries, ifs)
            return
        if isinstance(node, ast.If):
            walk(node.test, tries, ifs)
            test = ast.unparse(node.test)
            tshape = _shape(node.test, lambda n: n in locs and n not in glob)[0]
            for st in node.body:
                walk(st, tries, ifs + [(test, tshape)])
            for st in node.orelse:
                walk(st, tries, ifs)
            return
        if isinstance(node, (ast.FunctionDef, ast.Lambda)) and node is not func:
            # a nested def/lambda runs later, outside the try statements around its definition
            for ch in ast.iter_child_nodes(node):
                walk(ch, [], ifs)
            return
        for ch in ast.iter_child_nodes(node):
            walk(ch, tries, ifs)

    walk(func, [], [])
    if len(found) > which:
        return found[which]
    if not found and loose:
        # candidates written with the same local names are the occurrences of ONE renamed text: `which` selects among
        # them as before; candidates over different names are acceptable only if they agree on the except clauses
        groups = {names for _, _, names in loose}
        hs = {tuple(_handler_names(t)) for _, t, _ in loose}
        if (len(groups) == 1 or len(hs) == 1) and len(loose) > which:
            return loose[which][:2]
        raise TranslationError(f"{func.name}: expression `{text}` not found; {len(loose)} candidates up to renaming of locals "
                               f"sit under different except clauses")
    raise TranslationError(f"{func.name}: expression `{text}` (occurrence {which}) not found")


def _handler_names(tries: List[ast.Try]) -> List[str]:
    out: List[str] = []
    for t in tries:
        for h in t.handlers:
            for n in exc_names(h.type):
                if n not in out:
                    out.append(n)
    return out


def site_handlers(evcls: ast.ClassDef, site) -> List[str]:
    f = find_func(evcls.body, site.method)
    node, tries = _enclosing(f, site.expr, site.under, site.which)
    names = _handler_names(tries)
    if isinstance(node, ast.Call) and isinstance(node.func, ast.Name) and node.func.id == "eval_error":
        # the decorator `eval_error(text, exc_class)` catches exc_class around the wrapped function
        if len(node.args) != 2:
            raise TranslationError("eval_error: expected (text, exc_class)")
        for n in exc_names(node.args[1]):
            if n not in names:
                names.append(n)
        # every use inside the method must name the same classes
        for other in ast.walk(f):
            if (isinstance(other, ast.Call) and isinstance(other.func, ast.Name) and other.func.id == "eval_error"
                    and ast.unparse(other) != site.expr):
                raise TranslationError(f"{site.method}: differing eval_error(...) uses")
    for extra in site.also:
        _, tries2 = _enclosing(f, extra, None, 0)
        if _handler_names(tries2) != _handler_names(tries):
            raise TranslationError(f"{site.method}: `{extra}` is not under the same try as `{site.expr}`")
    return names


def _single_try_handlers(func: ast.FunctionDef, what: str) -> List[str]:
    tries = [n for n in ast.walk(func) if isinstance(n, ast.Try)]
    if len(tries) != 1:
        raise TranslationError(f"{what}: expected exactly one try statement, found {len(tries)}")
    return _handler_names(tries)


# ------------------------------------------------------------------------------------------------------
# what the `except` handler bodies do (round 2)
# ------------------------------------------------------------------------------------------------------
# The skeleton (Model/Total.lean `catchWith`) turns a caught exception into an error VALUE: it assumes that the
# handler body itself cannot raise.  `handler_ops` reads, for every `except` clause on the path
# compile -> program -> evaluate, the operations the body applies (calls, subscripts, arithmetic, comparisons,
# loops, f-string conversions); the bridge `handler_bodies_pure` checks them against a short list of operations
# that cannot raise.  A handler that starts computing on operand values (sorting keys for a nicer message,
# rendering a source excerpt, indexing a list of lines) leaves that list.

HANDLER_SCOPES = (
    # (file, dotted prefix of the enclosing class/function; "" = whole module is NOT meant: list scopes explicitly)
    ("src/celpy/evaluation.py", "Evaluator"),
    ("src/celpy/evaluation.py", "Transpiler.evaluate"),
    ("src/celpy/evaluation.py", "result"),
    ("src/celpy/evaluation.py", "eval_error"),
    ("src/celpy/celparser.py", "CELParser.parse"),
    ("src/celpy/__init__.py", "Runner"),
    ("src/celpy/__init__.py", "InterpretedRunner"),
    ("src/celpy/__init__.py", "CompiledRunner"),
    ("src/celpy/__init__.py", "Environment"),
)


def _callee(n: ast.AST) -> str:
    """text of a callee with the ARGUMENTS of inner calls dropped: `CELEvalError(a, b).with_traceback` ->
    `CELEvalError().with_traceback` (argument names are locals; the operations inside them are collected apart)"""
    if isinstance(n, ast.Attribute):
        return _callee(n.value) + "." + n.attr
    if isinstance(n, ast.Call):
        return _callee(n.func) + "()"
    return ast.unparse(n)


def _inline_helper(call: ast.Call, resolve) -> Optional[List[ast.stmt]]:
    """Round 4: a handler body that calls a helper defined next to it (`self._error_value(msg, ex, tree)`, a private
    method / staticmethod / classmethod of the same class or a module-level function of the same file) is followed BY
    MEANING: the helper's body with its parameters replaced by the argument expressions of the call, so that the
    operations the helper applies are collected exactly as if they were written in the handler (ONE level: a helper
    calling a further helper keeps that call as an operation). None when the callee is not such a helper or the call
    cannot be matched to its parameters (decorated helper, *args/**kwargs, nested defs, a rebinding of a parameter)."""
    fd = resolve(call.func)
    if fd is None:
        return None
    f, kind = fd
    decos = [ast.unparse(d) for d in f.decorator_list]
    if any(d not in ("staticmethod", "classmethod") for d in decos):
        return None
    a = f.args
    if a.vararg or a.kwarg or a.posonlyargs or any(isinstance(x, ast.Starred) for x in call.args) \
            or any(k.arg is None for k in call.keywords):
        return None
    params = [x.arg for x in a.args]
    bound: Dict[str, ast.expr] = {}
    if kind == "method" and "staticmethod" not in decos:
        if not params:
            return None
        recv = call.func.value if isinstance(call.func, ast.Attribute) else None
        if recv is None:
            return None
        bound[params[0]] = recv
        params = params[1:]
    if len(call.args) > len(params):
        return None
    for prm, arg in zip(params, call.args):
        bound[prm] = arg
    kwonly = [x.arg for x in a.kwonlyargs]
    for k in call.keywords:
        if k.arg in bound or k.arg not in params + kwonly:
            return None
        bound[k.arg] = k.value
    defaults = dict(zip([x.arg for x in a.args][len(a.args) - len(a.defaults):], a.defaults))
    defaults.update({x.arg: d for x, d in zip(a.kwonlyargs, a.kw_defaults) if d is not None})
    for prm in params + kwonly:
        if prm not in bound:
            if prm not in defaults:
                return None
            bound[prm] = defaults[prm]
    for n in ast.walk(f):
        if isinstance(n, (ast.FunctionDef, ast.AsyncFunctionDef, ast.Lambda, ast.ClassDef, ast.Global, ast.Nonlocal)) and n is not f:
            return None
        if isinstance(n, ast.Name) and isinstance(n.ctx, (ast.Store, ast.Del)) and (n.id in bound or n.id == "ex"):
            return None
        if isinstance(n, ast.ExceptHandler) and n.name and (n.name in bound or n.name == "ex"):
            return None

    class Sub(ast.NodeTransformer):
        def visit_Name(self, n):
            if isinstance(n.ctx, ast.Load) and n.id in bound:
                return ast.copy_location(ast.parse(ast.unparse(bound[n.id]), mode="eval").body, n)
            return n

    body = [st for st in f.body if not (isinstance(st, ast.Expr) and isinstance(st.value, ast.Constant)
                                         and isinstance(st.value.value, str))]        # docstring
    return [Sub().visit(ast.parse(ast.unparse(st)).body[0]) for st in body]


def _handler_body_ops(h: ast.ExceptHandler, resolve=None) -> List[str]:
    name = h.name

    class Ren(ast.NodeTransformer):
        def visit_Name(self, n):            # `except … as err` vs `as ex`: the same handler
            if name and n.id == name:
                return ast.copy_location(ast.Name(id="ex", ctx=n.ctx), n)
            return n

    out: List[str] = []

    def add(x):
        if x not in out:
            out.append(x)

    work: List[Tuple[ast.AST, bool]] = [(Ren().visit(ast.parse(ast.unparse(st))), False) for st in h.body]
    while work:
        st, inlined = work.pop(0)
        for n in ast.walk(st):
            if isinstance(n, ast.Call) and not inlined and resolve is not None:
                body = _inline_helper(n, resolve)
                if body is not None:
                    # the call itself is replaced by what the helper does; its argument expressions are still walked
                    # here (they are evaluated in the handler)
                    work.extend((b, True) for b in body)
                    continue
            if isinstance(n, ast.Call):
                f = _callee(n.func)
                if f in ("str", "repr", "format", "sorted", "min", "max", "sum", "len", "int", "float", "list", "dict", "set", "tuple"):
                    f += "(" + ", ".join(ast.unparse(a) for a in n.args) + ")"     # total or not depends on the argument
                add("call:" + f)
            elif isinstance(n, ast.Starred):
                add("star:" + ast.unparse(n.value))
            elif isinstance(n, ast.Subscript):
                t = ast.unparse(n)
                # `ex.args[0]` is allowed in a handler only because the whole-run check `args0:<site>` reads the handler's
                # TEXT; inside a helper that check does not see it, so it is not accepted there
                add("sub:" + t + ("@helper" if inlined and "args[0]" in t else ""))
            elif isinstance(n, (ast.BinOp, ast.AugAssign)):
                add("op:" + type(n.op).__name__)
            elif isinstance(n, ast.UnaryOp) and not isinstance(n.op, ast.Not):
                add("op:" + type(n.op).__name__)
            elif isinstance(n, ast.Compare):
                add("cmp:" + ",".join(type(o).__name__ for o in n.ops))
            elif isinstance(n, ast.FormattedValue):
                add("fmt")
            elif isinstance(n, (ast.For, ast.While, ast.ListComp, ast.GeneratorExp, ast.DictComp, ast.SetComp)):
                add("iter")
            elif isinstance(n, (ast.With, ast.Try, ast.Assert, ast.Delete, ast.Await, ast.Yield, ast.YieldFrom, ast.Import, ast.ImportFrom)):
                add("stmt:" + type(n).__name__)
    return sorted(out)


def handler_ops() -> List[Tuple[str, str]]:
    """[(scope.function, operation)] over every except handler in HANDLER_SCOPES, sorted, without duplicates"""
    out: List[Tuple[str, str]] = []
    mods: Dict[str, ast.Module] = {}
    for file, scope in HANDLER_SCOPES:
        m = mods.setdefault(file, parse(file))

        def resolver(path):
            cls = next((c for c in m.body if isinstance(c, ast.ClassDef) and path and c.name == path[0]), None)

            def resolve(fn: ast.expr):
                if isinstance(fn, ast.Attribute) and isinstance(fn.value, ast.Name) and cls is not None \
                        and fn.value.id in ("self", "cls", cls.name):
                    hits = [x for x in cls.body if isinstance(x, ast.FunctionDef) and x.name == fn.attr]
                    return (hits[0], "method") if len(hits) == 1 else None
                if isinstance(fn, ast.Name):
                    hits = [x for x in m.body if isinstance(x, ast.FunctionDef) and x.name == fn.id]
                    return (hits[0], "function") if len(hits) == 1 else None
                return None
            return resolve

        def walk(node, path):
            for ch in ast.iter_child_nodes(node):
                p = path + [ch.name] if isinstance(ch, (ast.ClassDef, ast.FunctionDef, ast.AsyncFunctionDef)) else path
                if isinstance(ch, ast.Try):
                    q = ".".join(path)
                    if q == scope or q.startswith(scope + "."):
                        for h in ch.handlers:
                            for op in _handler_body_ops(h, resolver(path)):
                                if (q, op) not in out:
                                    out.append((q, op))
                walk(ch, p)
        walk(m, [])
    return sorted(out)


# ------------------------------------------------------------------------------------------------------
# classes
# ------------------------------------------------------------------------------------------------------

def class_name(c: type) -> str:
    if c.__module__ == "builtins":
        return c.__qualname__
    return f"{c.__module__}.{c.__qualname__}"


def _resolve(name: str, module) -> type:
    try:
        c = eval(name, dict(vars(module)))
    except Exception as ex:
        raise TranslationError(f"exception class {name}: {ex}")
    if not (isinstance(c, type) and issubclass(c, BaseException)):
        raise TranslationError(f"{name} is not an exception class")
    return c


def compute() -> Dict[str, Any]:
    """Everything both Gen files need (memoised per process: the measurement takes a few seconds)."""
    key = str(REPO)
    if key in _CACHE:
        return _CACHE[key]
    src = str(REPO / "src")
    if src not in sys.path:
        sys.path.insert(0, src)
    import celpy
    import celpy.evaluation as ev_mod
    import celpy.celparser as cp_mod
    if not os.path.realpath(celpy.__file__).startswith(os.path.realpath(src)):
        raise TranslationError(f"celpy imported from {celpy.__file__}, expected {src}")
    from . import measure_c04 as M

    ev = parse("src/celpy/evaluation.py")
    cp = parse("src/celpy/celparser.py")
    evcls = find_class(ev, "Evaluator")
    sites = M.build_sites()

    # A site whose expression can no longer be located (the method was rewritten) does not stop the harness:
    # the error is kept and makes BOTH generators fail (handled like a broken bridge: search, then
    # violation / no-failing-input-found); meanwhile the site counts as "no handler".
    errors: List[str] = []
    handlers: Dict[str, List[type]] = {}
    for s in sites:
        try:
            handlers[s.name] = [_resolve(n, ev_mod) for n in site_handlers(evcls, s)]
        except TranslationError as ex:
            errors.append(f"site {s.name}: {ex}")
            handlers[s.name] = []

    tp = find_class(ev, "Transpiler")
    runc = [_resolve(n, ev_mod) for n in _single_try_handlers(find_func(tp.body, "evaluate"), "Transpiler.evaluate")]
    ev_eval = find_func(evcls.body, "evaluate")
    if any(isinstance(n, ast.Try) for n in ast.walk(ev_eval)):
        raise TranslationError("Evaluator.evaluate: unexpected try statement (the model has none)")
    # `value = self.visit(self.ast)` … `raise value` (whatever the local is called)
    visited = {t.id for n in ast.walk(ev_eval) if isinstance(n, (ast.Assign, ast.AnnAssign)) and n.value is not None
               and ast.unparse(n.value) == "self.visit(self.ast)"
               for t in (n.targets if isinstance(n, ast.Assign) else [n.target]) if isinstance(t, ast.Name)}
    raises_value = any(isinstance(n, ast.Raise) and isinstance(n.exc, ast.Name) and n.exc.id in visited for n in ast.walk(ev_eval))
    if not raises_value:
        raise TranslationError("Evaluator.evaluate: `raise <the visited value>` not found")
    res = [_resolve(n, ev_mod) for n in _single_try_handlers(find_func(ev.body, "result"), "result()")]
    pcls = find_class(cp, "CELParser")
    parse_f = find_func(pcls.body, "parse")
    parse_h = [_resolve(n, cp_mod) for n in _single_try_handlers(parse_f, "CELParser.parse")]
    # every handler of parse must re-raise CELParseError
    for t in [n for n in ast.walk(parse_f) if isinstance(n, ast.Try)]:
        for h in t.handlers:
            if not any(isinstance(n, ast.Raise) and n.exc is not None and ast.unparse(n.exc).startswith("CELParseError(")
                       for n in ast.walk(h)):
                raise TranslationError("CELParser.parse: a handler does not raise CELParseError")

    # lark: the classes Lark.parse() documents (subclasses of UnexpectedInput) + the LexError/ParseError bases
    import lark.exceptions as LE
    # (UnexpectedInput itself is an abstract base: lark only instantiates its subclasses)
    lark_raised = sorted({c for c in vars(LE).values() if isinstance(c, type) and issubclass(c, LE.UnexpectedInput)
                          and c is not LE.UnexpectedInput} | {LE.LexError, LE.ParseError}, key=class_name)

    measured = M.measure(sites)

    # class table ---------------------------------------------------------------------------------------
    classes: List[type] = []

    def need(c: type):
        for b in c.__mro__:
            if b is object:
                continue
            if b not in classes:
                classes.append(b)

    need(ev_mod.CELEvalError)
    need(cp_mod.CELParseError)
    for c in (TypeError, ValueError, KeyError, IndexError, ZeroDivisionError, OverflowError, AttributeError, NameError,
              RecursionError, AssertionError, SyntaxError, ev_mod.CELSyntaxError, ev_mod.CELUnsupportedError,
              UnicodeDecodeError, UnicodeEncodeError, StopIteration, MemoryError, KeyboardInterrupt):
        need(c)
    for hs in list(handlers.values()) + [runc, res, parse_h, lark_raised]:
        for c in hs:
            need(c)
    for tab in measured.values():
        for e in tab.values():
            for c in e["exc"]:
                need(c)
    first = [ev_mod.CELEvalError, cp_mod.CELParseError]
    rest = sorted([c for c in classes if c not in first], key=class_name)
    classes = first + rest
    ids = {c: i for i, c in enumerate(classes)}

    out = dict(errors=errors, sites=sites, handlers=handlers, runc=runc, result=res, parse=parse_h, lark=lark_raised,
               measured=measured, classes=classes, ids=ids, M=M, handler_ops=handler_ops())
    _CACHE[key] = out
    return out


# ------------------------------------------------------------------------------------------------------
# Lean emission
# ------------------------------------------------------------------------------------------------------

def _nat_list(xs) -> str:
    return "[" + ", ".join(str(x) for x in xs) + "]"


def gen_handlers() -> str:
    d = compute()
    if d["errors"]:
        raise TranslationError("; ".join(d["errors"]))
    ids, classes = d["ids"], d["classes"]
    o = [HEADER.format(src="src/celpy/evaluation.py (Evaluator rule methods, result, Transpiler.evaluate), "
                           "src/celpy/celparser.py (CELParser.parse), lark.exceptions"),
         "import Cel.Model.Total\nnamespace Cel.Gen.Handlers\nopen Cel.Total\n"]
    o.append("/-- Python exception classes (id = position). 0 = CELEvalError, 1 = CELParseError. -/")
    o.append("def classNames : List String := " + lean_list([lean_str(class_name(c)) for c in classes]) + "\n")
    o.append("/-- `mro c`: ids of the class and all its base classes (Python `__mro__` without `object`). -/")
    o.append("def mro : Nat → List Nat")
    for c in classes:
        o.append(f"  | {ids[c]} => {_nat_list(ids[b] for b in c.__mro__ if b is not object)}   -- {class_name(c)}")
    o.append("  | _ => []\n")
    o.append("def nClasses : Nat := %d\n" % len(classes))
    o.append("/-- classes named by the `except` clauses around each primitive site of `Evaluator` -/")
    o.append("def handlers : Rule → List Nat")
    for s in d["sites"]:
        hs = d["handlers"][s.name]
        o.append(f"  | .{s.name} => {_nat_list(ids[c] for c in hs)}   -- {s.method}: `{s.expr}` : {', '.join(class_name(c) for c in hs) or 'no handler'}")
    o.append("")
    for nm, key, doc in (("runCCaught", "runc", "`except` clause of Transpiler.evaluate"),
                         ("resultCaught", "result", "`except` clause of result()"),
                         ("parseCaught", "parse", "`except` clauses of CELParser.parse (each re-raises CELParseError)"),
                         ("larkRaised", "lark", "lark.exceptions: the subclasses of UnexpectedInput (what Lark.parse documents), LexError, ParseError")):
        o.append(f"/-- {doc}: {', '.join(class_name(c) for c in d[key])} -/")
        o.append(f"def {nm} : List Nat := {_nat_list(ids[c] for c in d[key])}")
    for nm, c in (("idException", Exception), ("idTypeError", TypeError), ("idBaseException", BaseException),
                  ("idRecursionError", RecursionError), ("idKeyboardInterrupt", KeyboardInterrupt)):
        o.append(f"def {nm} : Nat := {ids[c]}")
    o.append("")
    o.append("/-- operations applied inside the bodies of the `except` clauses on the path compile → program → evaluate")
    o.append("    (function, operation): `call:<callee>`, `sub:<subscript>`, `op:<operator>`, `cmp:<operators>`, `fmt` (f-string")
    o.append("    conversion), `iter` (loop / comprehension / unpacking), `stmt:<kind>`. The skeleton assumes a handler body cannot raise. -/")
    o.append("def handlerOps : List (String × String) := " + lean_list([f"({lean_str(a)}, {lean_str(b)})" for a, b in d["handler_ops"]]))
    o.append("\nend Cel.Gen.Handlers\n")
    return "\n".join(o)


def lean_key(site: str, key: Tuple[str, ...]) -> Tuple[str, ...]:
    """Projection of a measurement key kept in the Lean table (the full-resolution table stays in Python:
    166k entries are too many for a Lean literal). Operator sites keep (label, first operand kind); call
    sites (function, arity); name resolution (package, bound name)."""
    if site in ("funcCall", "methodCall"):
        return key[:2]
    if site in ("ident", "dotIdent"):
        return key[1:3]
    if site == "objectNew":
        return key[:2] + (key[2].split(":")[0],)
    if site in ("dotNameContainer", "dotMessage", "dotMap", "objectNew0", "objectFields", "literal",
                "macroIter", "macroIterBare", "macroMin", "funcResolve", "methodResolve"):
        return key
    return key[:2]


def gen_measured() -> str:
    d = compute()
    if d["errors"]:
        raise TranslationError("; ".join(d["errors"]))
    ids = d["ids"]
    o = [HEADER.format(src="the live code: every primitive of measure_c04.build_sites applied to the value pool"),
         "import Cel.Model.Total\nnamespace Cel.Gen.Measured\nopen Cel.Total\nset_option maxRecDepth 20000\n"]
    o.append("/-- (site, label :: operand kinds, exception classes raised) — only keys where something was raised.")
    o.append("    Keys are projected (see gen_c04.lean_key); class ids as in Cel.Gen.Handlers.classNames. -/")
    o.append("def table : List (Rule × List String × List Nat) := [")
    rows = []
    stats = []
    for s in d["sites"]:
        agg: Dict[Tuple[str, ...], set] = {}
        n = 0
        for key, e in d["measured"][s.name].items():
            n += e["n"]
            if e["exc"]:
                agg.setdefault(lean_key(s.name, key), set()).update(e["exc"])
        for k in sorted(agg):
            rows.append(f"  (.{s.name}, {lean_list([lean_str(x) for x in k])}, {_nat_list(sorted(ids[c] for c in agg[k]))})")
        stats.append((s.name, n, len(agg)))
    o.append(",\n".join(rows))
    o.append("]\n")
    o.append("/-- number of primitive applications measured per site -/")
    o.append("def calls : List (Rule × Nat) := " + lean_list([f"(.{n}, {c})" for n, c, _ in stats]) + "\n")
    o.append("def poolSize : Nat := %d" % len(d["M"].pool()))
    o.append("\nend Cel.Gen.Measured\n")
    return "\n".join(o)


GENERATORS = {"Handlers": gen_handlers, "Measured": gen_measured}
