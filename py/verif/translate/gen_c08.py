"""Generator for Gen/Compare.lean (C08): what celtypes.py / evaluation.py / cel.lark say NOW about comparisons.

Extracted (structurally — local names, comments, docstrings, logging and `cast(...)` do not matter):
  * `type_matched`: which `issubclass` directions are accepted and that a mismatch raises TypeError;
  * for every wrapper class and every comparison dunder: absent (inherited from the native base) /
    `@type_matched` + `return super().__X__(other)` / plain `return super().__X__(other)` / `raise TypeError` /
    the element-wise reduction of ListType / MapType (whose shape is extracted into a `ContSpec`);
  * the native base class of every wrapper class;
  * `boolean()`: error operands returned unchanged, result re-wrapped as `BoolType(bool(...))`;
  * the route of every CEL relation: token in cel.lark -> `relation_xx` -> `"_<_"` (Evaluator.relation and
    Phase1Transpiler.relation) -> `base_functions` -> `bool_xx` -> `operator.yy`;
  * the exception classes `Evaluator.relation` converts, and the ones `result()` converts.
Anything that does not fit raises TranslationError (handled like a broken bridge).
"""
from __future__ import annotations
import ast
import re
from typing import Any, Dict, List, Optional, Tuple

from .py2lean import TranslationError, find_class, find_func, strip_doc, is_logger_call, lean_list
from .common import parse, read, HEADER, exc_names, lean_exc

WRAPPERS = [("IntType", "int"), ("UintType", "uint"), ("DoubleType", "dbl"), ("BoolType", "bool"), ("StringType", "str"),
            ("BytesType", "bytes"), ("ListType", "list"), ("MapType", "map"), ("TimestampType", "ts"), ("DurationType", "dur"),
            ("TypeType", "type")]
RELOPS = ["eq", "ne", "lt", "le", "gt", "ge"]
CMP_AST = {ast.Eq: "eq", ast.NotEq: "ne", ast.Lt: "lt", ast.LtE: "le", ast.Gt: "gt", ast.GtE: "ge"}


def uncast(e):
    """strip `cast(T, x)` (typing no-op)"""
    while isinstance(e, ast.Call) and isinstance(e.func, ast.Name) and e.func.id == "cast" and len(e.args) == 2:
        e = e.args[1]
    return e


def body_of(fn: ast.FunctionDef) -> list:
    return [s for s in strip_doc(fn.body) if not is_logger_call(s)]


def class_methods(cls: ast.ClassDef) -> Dict[str, ast.AST]:
    """name -> FunctionDef, or the Name it is an alias of (`__floordiv__ = __truediv__`)"""
    out: Dict[str, ast.AST] = {}
    for st in cls.body:
        if isinstance(st, ast.FunctionDef):
            out[st.name] = st
        elif isinstance(st, ast.Assign) and len(st.targets) == 1 and isinstance(st.targets[0], ast.Name):
            out[st.targets[0].id] = st.value
    return out


def base_names(cls: ast.ClassDef) -> List[str]:
    return [ast.unparse(b) for b in cls.bases]


def decorators(fn: ast.FunctionDef) -> List[str]:
    return [ast.unparse(d) for d in fn.decorator_list]


def is_super_call(e, params: List[str]) -> Optional[str]:
    """`super().__X__(other)` -> 'X' (with `other` the method's second parameter)"""
    e = uncast(e)
    if (isinstance(e, ast.Call) and isinstance(e.func, ast.Attribute) and isinstance(e.func.value, ast.Call)
            and isinstance(e.func.value.func, ast.Name) and e.func.value.func.id == "super" and not e.func.value.args
            and len(e.args) == 1 and not e.keywords):
        a = uncast(e.args[0])
        if isinstance(a, ast.Name) and len(params) == 2 and a.id == params[1]:
            m = re.fullmatch(r"__(\w+)__", e.func.attr)
            if m:
                return m.group(1)
    return None


def is_raise_typeerror(st) -> bool:
    return (isinstance(st, ast.Raise) and st.exc is not None and
            ((isinstance(st.exc, ast.Call) and isinstance(st.exc.func, ast.Name) and st.exc.func.id == "TypeError")
             or (isinstance(st.exc, ast.Name) and st.exc.id == "TypeError")))


# ---------------------------------------------------------------------------------------------------------------
# a tiny symbolic executor (round 2): the small decision functions (`type_matched`, `boolean()`, the scalar comparison
# dunders) are *run* on symbolic operands under every valuation of their atomic tests, and the specification is read off
# the outcomes — so early returns vs. else chains, conditional expressions, merged/split tests, loops over a literal tuple,
# renamed or hoisted locals, `cast`, comments/docstrings/logging and one level of extracted module-level helper functions
# do not matter, while anything that changes an outcome (or that the executor does not understand) still does.
# ---------------------------------------------------------------------------------------------------------------

class _Return(Exception):
    def __init__(self, value):
        self.value = value


class _Raise(Exception):
    def __init__(self, name):
        self.name = name


UNHANDLED = object()
# symbolic values (NUL-prefixed so that no string constant of the source can be mistaken for one)
S_SELF = "\0SELF"
S_OTHER = "\0OTHER"
S_CALL = "\0CALL"
S_A = "\0A"
S_B = "\0B"
S_F = "\0F"
S_R = "\0R"
S_NI = "\0NI"
S_SUPER = "\0SUPER"
S_TYPE = "\0TYPE"


class SymExec:
    """Straight-line Python with `if`, `for x in (<literal tuple>)`, assignments to names, `return`, `raise T(...)`.
    `atom(node, ev)` resolves the calls / comparisons that carry meaning (returns UNHANDLED otherwise);
    `name(id)` resolves free names.  Conditions must evaluate to concrete Python bools."""

    def __init__(self, what: str, atom, name=None, module: Optional[ast.Module] = None, inline_depth: int = 1):
        self.what, self.atom, self.name, self.module, self.inline_depth = what, atom, name, module, inline_depth

    def fail(self, msg):
        raise TranslationError(f"{self.what}: {msg}")

    def run(self, body, env) -> Any:
        """-> ('return', value) | ('raise', class name)"""
        try:
            self.block(body, env)
        except _Return as r:
            return ("return", r.value)
        except _Raise as r:
            return ("raise", r.name)
        return ("return", None)

    def block(self, body, env):
        for st in body:
            self.stmt(st, env)

    def stmt(self, st, env):
        if isinstance(st, ast.Expr):
            if isinstance(st.value, ast.Constant) or is_logger_call(st):
                return
            self.fail(f"statement outside the subset: {ast.unparse(st)[:80]!r}")
        if isinstance(st, ast.Pass):
            return
        if isinstance(st, ast.Assign) and len(st.targets) == 1 and isinstance(st.targets[0], ast.Name):
            env[st.targets[0].id] = self.expr(st.value, env)
            return
        if isinstance(st, ast.AnnAssign) and isinstance(st.target, ast.Name) and st.value is not None:
            env[st.target.id] = self.expr(st.value, env)
            return
        # `x, y = e1, e2` (round 4): the right-hand side is evaluated completely, left to right, before anything is bound
        if (isinstance(st, ast.Assign) and len(st.targets) == 1 and isinstance(st.targets[0], (ast.Tuple, ast.List))
                and all(isinstance(t, ast.Name) for t in st.targets[0].elts)):
            vals = self.expr(st.value, env)
            if not isinstance(vals, tuple) or len(vals) != len(st.targets[0].elts):
                self.fail(f"unpacking of something that is not a literal tuple of the same length: {ast.unparse(st)[:80]!r}")
            for t, v in zip(st.targets[0].elts, vals):
                env[t.id] = v
            return
        if isinstance(st, ast.If):
            self.block(st.body if self.truth(self.expr(st.test, env), st.test) else st.orelse, env)
            return
        if isinstance(st, ast.For) and isinstance(st.target, ast.Name) and not st.orelse:
            items = self.expr(st.iter, env)
            if not isinstance(items, tuple):
                self.fail(f"loop over something that is not a literal tuple/list: {ast.unparse(st.iter)[:60]!r}")
            for it in items:
                env[st.target.id] = it
                self.block(st.body, env)
            return
        if isinstance(st, ast.Return):
            raise _Return(self.expr(st.value, env) if st.value is not None else None)
        if isinstance(st, ast.Raise) and st.exc is not None and st.cause is None:
            e = st.exc
            if isinstance(e, ast.Call) and isinstance(e.func, ast.Name):
                raise _Raise(e.func.id)
            if isinstance(e, ast.Name) and e.id not in env:
                raise _Raise(e.id)
        self.fail(f"statement outside the subset: {ast.unparse(st)[:80]!r}")

    def truth(self, v, node) -> bool:
        if isinstance(v, bool):
            return v
        self.fail(f"test that is not decided by the atomic tests: {ast.unparse(node)[:80]!r}")

    def expr(self, e, env):
        e = uncast(e)
        if isinstance(e, ast.Constant):
            return e.value
        if isinstance(e, ast.Name):
            if e.id in env:
                return env[e.id]
            if self.name is not None:
                v = self.name(e.id)
                if v is not UNHANDLED:
                    return v
            self.fail(f"free name {e.id!r}")
        if isinstance(e, (ast.Tuple, ast.List)):
            return tuple(self.expr(x, env) for x in e.elts)
        if isinstance(e, ast.UnaryOp) and isinstance(e.op, ast.Not):
            return not self.truth(self.expr(e.operand, env), e.operand)
        if isinstance(e, ast.BoolOp):
            is_and = isinstance(e.op, ast.And)
            for x in e.values:
                t = self.truth(self.expr(x, env), x)
                if t != is_and:
                    return t
            return is_and
        if isinstance(e, ast.IfExp):
            return self.expr(e.body if self.truth(self.expr(e.test, env), e.test) else e.orelse, env)
        if isinstance(e, (ast.Call, ast.Compare)):
            v = self.atom(e, lambda x: self.expr(x, env))
            if v is not UNHANDLED:
                return v
            if isinstance(e, ast.Call):
                v = self.inline(e, env)
                if v is not UNHANDLED:
                    return v
        self.fail(f"expression outside the subset: {ast.unparse(e)[:80]!r}")

    def inline(self, call: ast.Call, env):
        """one level of module-level helper functions without decorators, positional parameters only"""
        if (self.module is None or self.inline_depth <= 0 or not isinstance(call.func, ast.Name) or call.func.id in env
                or call.keywords):
            return UNHANDLED
        defs = [n for n in self.module.body if isinstance(n, ast.FunctionDef) and n.name == call.func.id]
        if len(defs) != 1 or defs[0].decorator_list:
            return UNHANDLED
        fn = defs[0]
        a = fn.args
        if a.vararg or a.kwarg or a.kwonlyargs or a.defaults or a.posonlyargs or len(a.args) != len(call.args):
            return UNHANDLED
        sub = SymExec(self.what + f" -> {fn.name}", self.atom, self.name, self.module, self.inline_depth - 1)
        kind, val = sub.run(strip_doc(fn.body), {p.arg: self.expr(x, env) for p, x in zip(a.args, call.args)})
        if kind == "raise":
            raise _Raise(val)
        return val


def unique_func(mod: ast.Module, name: str) -> ast.FunctionDef:
    """the module-level `def name` — exactly one, and the name is not rebound by an assignment / import / class (the last binding wins in Python)"""
    defs = [n for n in mod.body if isinstance(n, ast.FunctionDef) and n.name == name]
    other = [n for n in mod.body
             if (isinstance(n, (ast.Assign, ast.AnnAssign, ast.AugAssign))
                 and name in {x.id for x in ast.walk(n) if isinstance(x, ast.Name) and isinstance(x.ctx, ast.Store)})
             or (isinstance(n, ast.ClassDef) and n.name == name)
             or (isinstance(n, (ast.Import, ast.ImportFrom)) and any((al.asname or al.name).split(".")[0] == name for al in n.names))]
    if len(defs) != 1 or other:
        raise TranslationError(f"{name}: expected exactly one module-level definition (found {len(defs)} defs, {len(other)} other bindings)")
    return defs[0]


def unique_binding(mod: ast.Module, name: str) -> None:
    n = 0
    for st in mod.body:
        if isinstance(st, (ast.FunctionDef, ast.ClassDef)) and st.name == name:
            n += 1
        elif isinstance(st, (ast.Assign, ast.AnnAssign, ast.AugAssign)) and name in {x.id for x in ast.walk(st) if isinstance(x, ast.Name) and isinstance(x.ctx, ast.Store)}:
            n += 1
    if n != 1:
        raise TranslationError(f"{name}: bound {n} times at module level")


def builtins_intact(mod: ast.Module, fn: ast.FunctionDef, names: Tuple[str, ...], what: str) -> None:
    """the builtins whose meaning the executor assumes (`type`, `issubclass`, `isinstance`) are rebound neither at module level
    nor anywhere inside `fn` (parameter, local, nested def, import, global/nonlocal)"""
    def bound_in(node, deep: bool):
        out = set()
        it = ast.walk(node) if deep else [x for st in node.body for x in ([st] if isinstance(st, (ast.FunctionDef, ast.AsyncFunctionDef, ast.ClassDef)) else ast.walk(st))]
        for n in it:
            if isinstance(n, ast.Name) and isinstance(n.ctx, (ast.Store, ast.Del)):
                out.add(n.id)
            elif isinstance(n, (ast.FunctionDef, ast.AsyncFunctionDef, ast.ClassDef)):
                out.add(n.name)
            elif isinstance(n, ast.arg):
                out.add(n.arg)
            elif isinstance(n, ast.alias):
                out.add((n.asname or n.name).split(".")[0])
            elif isinstance(n, (ast.Global, ast.Nonlocal)):
                out.update(n.names)
            elif isinstance(n, ast.ExceptHandler) and n.name:
                out.add(n.name)
        return out
    hit = (bound_in(mod, False) | bound_in(fn, True)) & set(names)
    if hit:
        raise TranslationError(f"{what}: builtin(s) {sorted(hit)} are rebound")


def _single_inner(fn: ast.FunctionDef, what: str) -> ast.FunctionDef:
    """the decorator shape `def outer(f): @wraps(f) def inner(...): ...; return inner`"""
    inner = [s for s in fn.body if isinstance(s, ast.FunctionDef)]
    if len(inner) != 1:
        raise TranslationError(f"{what}: expected one inner function")
    inner = inner[0]
    if [ast.unparse(d) for d in inner.decorator_list] not in ([], [f"wraps({fn.args.args[0].arg})"]):
        raise TranslationError(f"{what}: unexpected decorators on the inner function")
    rest = [s for s in strip_doc(fn.body) if s is not inner and not is_logger_call(s)]
    if not (len(rest) == 1 and isinstance(rest[0], ast.Return) and ast.unparse(rest[0].value) == inner.name):
        raise TranslationError(f"{what}: must consist of the inner function and `return {inner.name}`")
    a = inner.args
    if a.vararg or a.kwarg or a.kwonlyargs or a.defaults or len(a.args) != 2:
        raise TranslationError(f"{what}: inner function must take exactly two positional parameters")
    return inner


# ---------------------------------------------------------------------------------------------------------------
# type_matched
# ---------------------------------------------------------------------------------------------------------------

def extract_type_matched(mod: ast.Module) -> Tuple[bool, bool, bool]:
    """run the inner function under the four valuations of (issubclass(type(other), type(self)), issubclass(type(self), type(other)))"""
    fn = unique_func(mod, "type_matched")
    inner = _single_inner(fn, "type_matched")
    builtins_intact(mod, fn, ("type", "issubclass", "isinstance"), "type_matched")
    method = fn.args.args[0].arg
    ps, po = [a.arg for a in inner.args.args]
    out = {}
    for o_sub_s in (False, True):
        for s_sub_o in (False, True):
            def atom(node, ev, o_sub_s=o_sub_s, s_sub_o=s_sub_o):
                if isinstance(node, ast.Call) and isinstance(node.func, ast.Name) and not node.keywords:
                    f, args = node.func.id, node.args
                    if f == "type" and len(args) == 1:
                        # the class of an operand, as a value (round 4: may be hoisted into a local — `type(x)` is pure)
                        x = ev(args[0])
                        if x in (S_SELF, S_OTHER):
                            return (S_TYPE, x)
                        raise TranslationError(f"type_matched: type() of something that is not an operand: {ast.unparse(node)}")
                    def type_of(x):
                        v = ev(x)
                        if isinstance(v, tuple) and len(v) == 2 and v[0] == S_TYPE:
                            return v[1]
                        return None
                    pair = None
                    if f == "issubclass" and len(args) == 2:
                        pair = (type_of(args[0]), type_of(args[1]))
                    elif f == "isinstance" and len(args) == 2:
                        pair = (ev(args[0]), type_of(args[1]))
                    if pair is not None:
                        if pair == (S_OTHER, S_SELF):
                            return o_sub_s
                        if pair == (S_SELF, S_OTHER):
                            return s_sub_o
                        if pair in ((S_SELF, S_SELF), (S_OTHER, S_OTHER)):
                            return True
                        raise TranslationError(f"type_matched: unexpected class test {ast.unparse(node)}")
                    if f == method and len(args) == 2 and [ev(a) for a in args] == [S_SELF, S_OTHER]:
                        return S_CALL
                return UNHANDLED
            out[(o_sub_s, s_sub_o)] = SymExec("type_matched", atom, module=mod).run(body_of(inner), {ps: S_SELF, po: S_OTHER})
    call, te = ("return", S_CALL), ("raise", "TypeError")
    for k, v in out.items():
        if v not in (call, te):
            raise TranslationError(f"type_matched: outcome {v} for (other⊆self, self⊆other) = {k} is neither the method call nor TypeError")
    if out[(True, True)] != call:
        raise TranslationError("type_matched: operands of the same class are rejected")
    other_sub_self = out[(True, False)] == call
    self_sub_other = out[(False, True)] == call
    return other_sub_self, self_sub_other, out[(False, False)] == te


# ---------------------------------------------------------------------------------------------------------------
# container reductions
# ---------------------------------------------------------------------------------------------------------------

def extract_cont(fn: ast.FunctionDef, is_map: bool, mod: Optional[ast.Module] = None) -> Dict[str, bool]:
    params = [a.arg for a in fn.args.args]
    if len(params) != 2:
        raise TranslationError(f"{fn.name}: expected (self, other)")
    S, Oth = params
    spec = dict(noneIsFalse=False, foreignRaises=False, sizeTestEq=None, connAnd=None, reducerAnd=None, init=None,
                elemEq=None, capturesTE=False, reraises=False, singleton=False)
    helpers: Dict[str, Tuple[bool, bool]] = {}      # local helper name -> (elemEq, capturesTE)
    keyvars: Dict[str, str] = {}          # local name -> "self" / "other" for `x = self.keys()`
    result_var: Optional[str] = None
    returned = False
    for st in body_of(fn):
        if returned:
            raise TranslationError(f"{fn.name}: statements after the final return")
        # if other is None: return False
        if (isinstance(st, ast.If) and isinstance(st.test, ast.Compare) and len(st.test.ops) == 1 and isinstance(st.test.ops[0], ast.Is)
                and ast.unparse(st.test.left) == Oth and ast.unparse(st.test.comparators[0]) == "None"):
            if len(st.body) == 1 and isinstance(st.body[0], ast.Return) and ast.unparse(st.body[0].value) == "False" and not st.orelse:
                spec["noneIsFalse"] = True
                continue
            raise TranslationError(f"{fn.name}: unexpected `other is None` branch")
        # if not isinstance(other, (...)): raise TypeError
        if (isinstance(st, ast.If) and isinstance(st.test, ast.UnaryOp) and isinstance(st.test.op, ast.Not)
                and isinstance(st.test.operand, ast.Call) and ast.unparse(st.test.operand.func) == "isinstance"
                and ast.unparse(st.test.operand.args[0]) == Oth):
            if len(st.body) == 1 and is_raise_typeerror(st.body[0]) and not st.orelse:
                spec["foreignRaises"] = True
                continue
            raise TranslationError(f"{fn.name}: unexpected isinstance branch")
        # singleton special case (MapType.__ne__)
        if (isinstance(st, ast.If) and isinstance(st.test, ast.BoolOp) and isinstance(st.test.op, ast.And)
                and [ast.unparse(v) for v in st.test.values] == [f"len({S}) == 1", f"len({Oth}) == 1", f"{S}.keys() == {Oth}.keys()"]):
            b = st.body
            ok = (len(b) == 2 and isinstance(b[0], ast.Assign) and ast.unparse(b[0].value) == f"next(iter({S}.keys()))"
                  and isinstance(b[1], ast.Return))
            if ok:
                k = ast.unparse(b[0].targets[0])
                r = uncast(b[1].value)
                if (isinstance(r, ast.Compare) and len(r.ops) == 1 and ast.unparse(r.left) == f"{S}[{k}]"
                        and ast.unparse(r.comparators[0]) == f"{Oth}[{k}]" and type(r.ops[0]) in (ast.Eq, ast.NotEq)):
                    spec["singleton"] = "eq" if isinstance(r.ops[0], ast.Eq) else "ne"
                    continue
            raise TranslationError(f"{fn.name}: unexpected singleton branch")
        # helper: def equal(s, o): try: return BoolType(s == o) except TypeError as ex: return cast(BoolType, ex)
        if isinstance(st, ast.FunctionDef):
            helpers[st.name] = analyze_helper(st, fn.name)
            continue
        # keys_s = self.keys()
        if (isinstance(st, ast.Assign) and len(st.targets) == 1 and isinstance(st.targets[0], ast.Name)
                and ast.unparse(st.value) in (f"{S}.keys()", f"{Oth}.keys()")):
            keyvars[st.targets[0].id] = "self" if ast.unparse(st.value) == f"{S}.keys()" else "other"
            continue
        # result_value = <size test> and/or reduce(...)
        if (isinstance(st, ast.Assign) and len(st.targets) == 1 and isinstance(st.targets[0], ast.Name)
                and isinstance(st.value, ast.BoolOp) and len(st.value.values) == 2):
            result_var = st.targets[0].id
            spec["connAnd"] = isinstance(st.value.op, ast.And)
            test, red = st.value.values
            if not (isinstance(test, ast.Compare) and len(test.ops) == 1 and type(test.ops[0]) in (ast.Eq, ast.NotEq)):
                raise TranslationError(f"{fn.name}: unexpected size test {ast.unparse(test)}")
            l, r = ast.unparse(test.left), ast.unparse(test.comparators[0])
            if is_map:
                sides = [keyvars.get(l) or {f"{S}.keys()": "self", f"{Oth}.keys()": "other"}.get(l),
                         keyvars.get(r) or {f"{S}.keys()": "self", f"{Oth}.keys()": "other"}.get(r)]
            else:
                sides = [{f"len({S})": "self", f"len({Oth})": "other"}.get(l), {f"len({S})": "self", f"len({Oth})": "other"}.get(r)]
            if sorted(map(str, sides)) != ["other", "self"]:
                raise TranslationError(f"{fn.name}: size test does not compare self with other: {ast.unparse(test)}")
            spec["sizeTestEq"] = isinstance(test.ops[0], ast.Eq)
            if not (isinstance(red, ast.Call) and ast.unparse(red.func) == "reduce" and len(red.args) == 3):
                raise TranslationError(f"{fn.name}: expected reduce(f, gen, init)")
            f, gen, init = red.args
            if ast.unparse(f) not in ("logical_and", "logical_or"):
                raise TranslationError(f"{fn.name}: reducer {ast.unparse(f)}")
            spec["reducerAnd"] = ast.unparse(f) == "logical_and"
            if ast.unparse(init) not in ("BoolType(True)", "BoolType(False)"):
                raise TranslationError(f"{fn.name}: initial value {ast.unparse(init)}")
            spec["init"] = ast.unparse(init) == "BoolType(True)"
            if not (isinstance(gen, (ast.GeneratorExp, ast.ListComp)) and len(gen.generators) == 1 and not gen.generators[0].ifs
                    and not gen.generators[0].is_async
                    and isinstance(gen.elt, ast.Call) and isinstance(gen.elt.func, ast.Name) and len(gen.elt.args) == 2 and not gen.elt.keywords):
                raise TranslationError(f"{fn.name}: unexpected generator {ast.unparse(gen)}")
            hname = gen.elt.func.id
            if hname in helpers:
                spec["elemEq"], spec["capturesTE"] = helpers[hname]
            else:
                # one level of inlining: a helper extracted to module level (defined exactly once, not a parameter/local)
                defs = [n for n in (mod.body if mod is not None else []) if isinstance(n, ast.FunctionDef) and n.name == hname]
                rebound = [n for n in (mod.body if mod is not None else [])
                           if (isinstance(n, (ast.Assign, ast.AnnAssign, ast.AugAssign, ast.For, ast.With, ast.If, ast.Try))
                               and hname in {x.id for x in ast.walk(n) if isinstance(x, ast.Name) and isinstance(x.ctx, ast.Store)})
                           or (isinstance(n, ast.ClassDef) and n.name == hname)
                           or (isinstance(n, (ast.Import, ast.ImportFrom)) and any((al.asname or al.name).split(".")[0] == hname for al in n.names))]
                if len(defs) != 1 or rebound or hname in params:
                    raise TranslationError(f"{fn.name}: element comparison {hname} is neither a local nor a unique module-level helper")
                spec["elemEq"], spec["capturesTE"] = analyze_helper(defs[0], fn.name)
            g = gen.generators[0]
            a0, a1 = [ast.unparse(x) for x in gen.elt.args]
            if is_map:
                k = ast.unparse(g.target)
                it = ast.unparse(g.iter)
                if not ((keyvars.get(it) == "self" or it in (f"{S}.keys()", S)) and (a0, a1) == (f"{S}[{k}]", f"{Oth}[{k}]")):
                    raise TranslationError(f"{fn.name}: unexpected generator {ast.unparse(gen)}")
            else:
                if not (isinstance(g.target, ast.Tuple) and len(g.target.elts) == 2 and ast.unparse(g.iter) == f"zip({S}, {Oth})"
                        and [ast.unparse(x) for x in g.target.elts] == [a0, a1]):
                    raise TranslationError(f"{fn.name}: unexpected generator {ast.unparse(gen)}")
            continue
        # if isinstance(result_value, TypeError): raise result_value
        if (isinstance(st, ast.If) and result_var and ast.unparse(st.test) == f"isinstance({result_var}, TypeError)"):
            if len(st.body) == 1 and isinstance(st.body[0], ast.Raise) and ast.unparse(st.body[0].exc) == result_var and not st.orelse:
                spec["reraises"] = True
                continue
            raise TranslationError(f"{fn.name}: unexpected TypeError branch")
        if isinstance(st, ast.Return) and result_var and ast.unparse(st.value) == f"bool({result_var})":
            returned = True
            continue
        raise TranslationError(f"{fn.name}: statement outside the subset: {ast.unparse(st)[:80]!r}")
    if not returned or None in (spec["sizeTestEq"], spec["connAnd"], spec["reducerAnd"], spec["init"], spec["elemEq"]):
        raise TranslationError(f"{fn.name}: reduction not recognised")
    if spec["singleton"]:
        if (spec["singleton"] == "eq") != spec["elemEq"]:
            raise TranslationError(f"{fn.name}: singleton case compares with another operator than the reduction")
        spec["singleton"] = True
    return spec


def lean_bool(b) -> str:
    return "true" if b else "false"


def lean_cont(spec) -> str:
    order = ["noneIsFalse", "foreignRaises", "sizeTestEq", "connAnd", "reducerAnd", "init", "elemEq", "capturesTE", "reraises", "singleton"]
    return "⟨" + ", ".join(lean_bool(spec[k]) for k in order) + "⟩"


# ---------------------------------------------------------------------------------------------------------------
# per-class comparison dunders
# ---------------------------------------------------------------------------------------------------------------

def analyze_helper(st: ast.FunctionDef, where: str) -> Tuple[bool, bool]:
    """`def equal(s, o): try: return BoolType(s == o) except TypeError as ex: return cast(BoolType, ex)` -> (elemEq, capturesTE)"""
    hp = [a.arg for a in st.args.args]
    hb = body_of(st)
    if st.decorator_list or st.args.vararg or st.args.kwarg or st.args.kwonlyargs or st.args.defaults:
        raise TranslationError(f"{where}: unexpected signature/decorators of helper {st.name}")
    if len(hp) == 2 and len(hb) == 1 and isinstance(hb[0], ast.Try) and len(hb[0].body) == 1 and isinstance(hb[0].body[0], ast.Return):
        r = uncast(hb[0].body[0].value)
        if (isinstance(r, ast.Call) and ast.unparse(r.func) == "BoolType" and len(r.args) == 1
                and isinstance(r.args[0], ast.Compare) and len(r.args[0].ops) == 1
                and ast.unparse(r.args[0].left) == hp[0] and ast.unparse(r.args[0].comparators[0]) == hp[1]
                and type(r.args[0].ops[0]) in (ast.Eq, ast.NotEq)):
            elem_eq = isinstance(r.args[0].ops[0], ast.Eq)
            hs = hb[0].handlers
            capt = False
            if (len(hs) == 1 and exc_names(hs[0].type) == ["TypeError"] and hs[0].name and len(hs[0].body) == 1
                    and isinstance(hs[0].body[0], ast.Return) and ast.unparse(uncast(hs[0].body[0].value)) == hs[0].name
                    and not hb[0].orelse and not hb[0].finalbody):
                capt = True
            elif hs:
                raise TranslationError(f"{where}: unexpected handlers in {st.name}")
            return elem_eq, capt
    raise TranslationError(f"{where}: unexpected helper {st.name}")


def classify_cmp(clsname: str, cls: ast.ClassDef, op: str, mod: Optional[ast.Module] = None):
    """-> ('inherit'|'matched'|'plain'|'raisesTE'|'custom', sup, contspec).  The scalar dunders are *run* (SymExec): what counts
    is that the body hands back the native base's `__sup__(self, other)` (spelled `super().__sup__(other)` or
    `<Base>.__sup__(self, other)`, through locals / cast or not) or raises TypeError."""
    ms = class_methods(cls)
    name = f"__{op}__"
    if name not in ms:
        return "inherit", None, None
    fn = ms[name]
    if not isinstance(fn, ast.FunctionDef):
        raise TranslationError(f"{clsname}.{name} is an alias")
    decs = decorators(fn)
    params = [a.arg for a in fn.args.args]
    a = fn.args
    if clsname in ("ListType", "MapType") and op in ("eq", "ne") and not decs:
        return "custom", None, extract_cont(fn, clsname == "MapType", mod)
    if len(params) != 2 or a.vararg or a.kwarg or a.kwonlyargs or a.defaults:
        raise TranslationError(f"{clsname}.{name}: expected (self, other)")
    bases = base_names(cls)

    def atom(node, ev):
        if (isinstance(node, ast.Call) and isinstance(node.func, ast.Attribute) and not node.keywords
                and re.fullmatch(r"__(\w+)__", node.func.attr)):
            sup = node.func.attr[2:-2]
            recv = node.func.value
            if (isinstance(recv, ast.Call) and isinstance(recv.func, ast.Name) and recv.func.id == "super" and not recv.args
                    and not recv.keywords and len(node.args) == 1 and ev(node.args[0]) == S_OTHER):
                return (S_SUPER, sup)
            if (len(bases) == 1 and ast.unparse(recv) == bases[0] and len(node.args) == 2
                    and [ev(x) for x in node.args] == [S_SELF, S_OTHER]):
                return (S_SUPER, sup)
        return UNHANDLED
    res = SymExec(f"{clsname}.{name}", atom, module=None).run(body_of(fn), {params[0]: S_SELF, params[1]: S_OTHER})
    if res == ("raise", "TypeError") and not decs:
        return "raisesTE", None, None
    if res[0] == "return" and isinstance(res[1], tuple) and len(res[1]) == 2 and res[1][0] == S_SUPER and res[1][1] in RELOPS:
        if decs == ["type_matched"]:
            return "matched", res[1][1], None
        if not decs:
            return "plain", res[1][1], None
    raise TranslationError(f"{clsname}.{name}: body outside the subset")


def extract_boolean(ev: ast.Module) -> Tuple[bool, bool]:
    """run the inner function of `boolean()` with (a is an error?, b is an error?, the wrapped function answers NotImplemented?)
    -> (error operands are handed back without calling the wrapped function, the result is re-wrapped as BoolType)"""
    fn = unique_func(ev, "boolean")
    inner = _single_inner(fn, "boolean()")
    pa, pb = [x.arg for x in inner.args.args]
    wrapped = fn.args.args[0].arg
    out = {}
    for ea in (False, True):
        for eb in (False, True):
            for ni in (False, True):
                calls = []
                def atom(node, evl, ea=ea, eb=eb, ni=ni, calls=calls):
                    if isinstance(node, ast.Call) and not node.keywords:
                        f = ast.unparse(node.func)
                        if f == "isinstance" and len(node.args) == 2 and ast.unparse(node.args[1]) in ("CELEvalError", "(CELEvalError,)"):
                            x = evl(node.args[0])
                            if x == S_A:
                                return ea
                            if x == S_B:
                                return eb
                            raise TranslationError(f"boolean(): error test on something else than an operand: {ast.unparse(node)}")
                        if isinstance(node.func, ast.Name) and len(node.args) == 2:
                            try:
                                callee = evl(node.func)
                            except TranslationError:
                                callee = None
                            if callee == S_F:
                                if [evl(a) for a in node.args] != [S_A, S_B]:
                                    raise TranslationError(f"boolean(): the wrapped function is not applied to (a, b): {ast.unparse(node)}")
                                calls.append(1)
                                return S_R
                        if f == "bool" and len(node.args) == 1:
                            return ("bool", evl(node.args[0]))
                        if f in ("BoolType", "celtypes.BoolType", "celpy.celtypes.BoolType") and len(node.args) == 1:
                            return ("BoolType", evl(node.args[0]))
                    if isinstance(node, ast.Compare) and len(node.ops) == 1:
                        l, r = evl(node.left), evl(node.comparators[0])
                        if {l, r} == {S_R, S_NI}:
                            if isinstance(node.ops[0], (ast.Eq, ast.Is)):
                                return ni
                            if isinstance(node.ops[0], (ast.NotEq, ast.IsNot)):
                                return not ni
                    return UNHANDLED
                def name(ident):
                    return S_NI if ident == "NotImplemented" else UNHANDLED
                res = SymExec("boolean()", atom, name, module=ev).run(body_of(inner), {pa: S_A, pb: S_B, wrapped: S_F})
                out[(ea, eb, ni)] = (res, len(calls))
    passes = True
    for (ea, eb, ni), (res, ncalls) in out.items():
        if ea or eb:
            allowed = [("return", x) for x, e in ((S_A, ea), (S_B, eb)) if e]
            if res not in allowed or ncalls:
                passes = False
    res, ncalls = out[(False, False, False)]
    if ncalls != 1:
        raise TranslationError("boolean(): the wrapped function is not called exactly once on two proper operands")
    if res in (("return", ("BoolType", ("bool", S_R))), ("return", ("BoolType", S_R))):
        rewraps = True
    elif res in (("return", S_R), ("return", ("bool", S_R))):
        rewraps = False
    else:
        raise TranslationError(f"boolean(): unexpected result {res} on two proper operands")
    return passes, rewraps


def extract_route(ev: ast.Module, lark_text: str) -> Dict[str, Dict[str, str]]:
    """CEL relation token -> operator.* name, for the interpreter and the transpiler"""
    tok2rule = {}
    for m in re.finditer(r'^(relation_\w+)\s*:\s*relation\s+"([^"]+)"\s*$', lark_text, re.M):
        tok2rule[m.group(2)] = m.group(1)
    # bool_xx -> operator.yy
    boolfn = {}
    for st in ev.body:
        # `bool_lt = boolean(operator.lt)` — the same function object as `def bool_lt(a, b): return boolean(operator.lt)(a, b)` computes with
        if (isinstance(st, ast.Assign) and len(st.targets) == 1 and isinstance(st.targets[0], ast.Name) and st.targets[0].id.startswith("bool_")):
            m = re.fullmatch(r"boolean\(operator\.(\w+)\)", ast.unparse(st.value))
            if m:
                unique_binding(ev, st.targets[0].id)
                boolfn[st.targets[0].id] = m.group(1)
                continue
            raise TranslationError(f"{st.targets[0].id}: value outside the subset")
        if isinstance(st, ast.FunctionDef) and st.name.startswith("bool_"):
            unique_binding(ev, st.name)
            if st.decorator_list:
                raise TranslationError(f"{st.name}: decorated")
            b = body_of(st)
            ps = [a.arg for a in st.args.args]
            if len(b) == 1 and isinstance(b[0], ast.Return):
                m = re.fullmatch(r"boolean\(operator\.(\w+)\)\((\w+), (\w+)\)", ast.unparse(b[0].value))
                if m and [m.group(2), m.group(3)] == ps:
                    boolfn[st.name] = m.group(1)
                    continue
            raise TranslationError(f"{st.name}: body outside the subset")
    # base_functions
    base = None
    for st in ev.body:
        tgt = st.target if isinstance(st, ast.AnnAssign) else (st.targets[0] if isinstance(st, ast.Assign) else None)
        if tgt is not None and ast.unparse(tgt) == "base_functions" and isinstance(st.value, ast.Dict):
            base = {ast.literal_eval(k): ast.unparse(v) for k, v in zip(st.value.keys, st.value.values)}
    if base is None:
        raise TranslationError("base_functions not found")

    def is_table(node):
        return (isinstance(node, ast.Dict) and node.keys
                and all(isinstance(k, ast.Constant) and str(k.value).startswith("relation_") for k in node.keys))

    def module_constant(name, what):
        """round 4: a table hoisted into a module-level constant.  Followed only when the name is a read-only constant: bound
        exactly once in the whole module — by a module-level assignment of a dict literal — and every other occurrence of
        the name anywhere in the module is a plain read by subscription `NAME[...]` (so no mutation through item assignment,
        `del`, a method such as update/pop/setdefault, aliasing, or passing the dict to other code; no shadowing local/parameter;
        no `global`)."""
        binding = None
        for st in ev.body:
            tgt = st.target if isinstance(st, ast.AnnAssign) else (st.targets[0] if isinstance(st, ast.Assign) and len(st.targets) == 1 else None)
            if isinstance(tgt, ast.Name) and tgt.id == name and st.value is not None:
                if binding is not None:
                    raise TranslationError(f"{what}: {name} is bound more than once at module level")
                binding = st
        if binding is None or not is_table(binding.value):
            return None
        target = binding.target if isinstance(binding, ast.AnnAssign) else binding.targets[0]
        reads = set()
        for node in ast.walk(ev):
            if isinstance(node, ast.Subscript) and isinstance(node.ctx, ast.Load) and isinstance(node.value, ast.Name) and node.value.id == name:
                reads.add(id(node.value))
        for node in ast.walk(ev):
            if isinstance(node, ast.Name) and node.id == name and node is not target and id(node) not in reads:
                raise TranslationError(f"{what}: {name} is used otherwise than by `{name}[...]` (line {node.lineno}) — not followed as a constant")
            if isinstance(node, (ast.Global, ast.Nonlocal)) and name in node.names:
                raise TranslationError(f"{what}: {name} is declared global/nonlocal (line {node.lineno})")
            if isinstance(node, (ast.FunctionDef, ast.AsyncFunctionDef, ast.ClassDef)) and node.name == name:
                raise TranslationError(f"{what}: {name} is also a def/class (line {node.lineno})")
            if isinstance(node, ast.arg) and node.arg == name:
                raise TranslationError(f"{what}: {name} is also a parameter (line {node.lineno})")
            if isinstance(node, ast.alias) and (node.asname or node.name).split(".")[0] == name:
                raise TranslationError(f"{what}: {name} is also imported (line {node.lineno})")
            if isinstance(node, ast.ExceptHandler) and node.name == name:
                raise TranslationError(f"{what}: {name} is also an exception variable (line {node.lineno})")
            if isinstance(node, ast.Attribute) and node.attr == name:
                # `evaluation._RELATION_OPERATORS[...] = ...` / `globals()`-free spelling of a mutation through the module object
                raise TranslationError(f"{what}: attribute access .{name} (line {node.lineno})")
        # ... and no other module of the package mentions the name (`evaluation.NAME[...] = ...`, `from .evaluation import NAME`)
        from .common import REPO
        for other in sorted((REPO / "src/celpy").glob("*.py")):
            if other.name != "evaluation.py" and re.search(rf"\b{re.escape(name)}\b", other.read_text()):
                raise TranslationError(f"{what}: {name} is mentioned in {other.name} — not followed as a constant")
        return binding.value

    def rule_table(clsname):
        cls = find_class(ev, clsname)
        fn = find_func(cls.body, "relation")
        # the table is what is *indexed* to get the operator's name: `{...}[<node>.data]` or `CONSTANT[<node>.data]`
        found = []
        for node in ast.walk(fn):
            if isinstance(node, ast.Subscript) and isinstance(node.ctx, ast.Load):
                tbl = None
                if is_table(node.value):
                    tbl = node.value
                elif isinstance(node.value, ast.Name):
                    tbl = module_constant(node.value.id, f"{clsname}.relation")
                if tbl is not None:
                    found.append(tbl)
        if not found:
            # a literal that is bound to a local first (as before round 4: the first such literal in the method)
            found = [node for node in ast.walk(fn) if is_table(node)][:1]
        tables = [{k.value: ast.literal_eval(v) for k, v in zip(t.keys, t.values)} for t in found]
        if not tables:
            raise TranslationError(f"{clsname}.relation: op-name table not found")
        if any(t != tables[0] for t in tables[1:]):
            raise TranslationError(f"{clsname}.relation: several different op-name tables are indexed")
        return tables[0]
    out = {}
    for runner, clsname in (("I", "Evaluator"), ("C", "Phase1Transpiler")):
        tbl = rule_table(clsname)
        r = {}
        for tok, op in (("==", "eq"), ("!=", "ne"), ("<", "lt"), ("<=", "le"), (">", "gt"), (">=", "ge")):
            rule = tok2rule.get(tok)
            if rule is None:
                raise TranslationError(f"cel.lark: no relation rule for {tok!r}")
            sym = tbl.get(rule)
            fnname = base.get(sym) if sym else None
            target = boolfn.get(fnname) if fnname else None
            if target not in RELOPS:
                raise TranslationError(f"route of {tok!r} via {rule}/{sym}/{fnname} does not end in operator.<relop>")
            r[op] = target
        out[runner] = r
    return out


def handlers_of(fn: ast.FunctionDef) -> List[str]:
    hs = []
    for node in ast.walk(fn):
        if isinstance(node, ast.Try):
            for h in node.handlers:
                hs += exc_names(h.type)
    return hs


def gen_compare() -> str:
    m = parse("src/celpy/celtypes.py")
    ev = parse("src/celpy/evaluation.py")
    lark = read("src/celpy/cel.lark")
    out = [HEADER.format(src="src/celpy/celtypes.py (type_matched, comparison dunders), src/celpy/evaluation.py (boolean, bool_*, relation), src/celpy/cel.lark"),
           "import Cel.Model.Value\nnamespace Cel.Gen\nopen Cel\n"]
    o, s, r = extract_type_matched(m)
    out.append(f"def typeMatchedSpec : TypeMatchedSpec := ⟨{lean_bool(o)}, {lean_bool(s)}, {lean_bool(r)}⟩\n")
    rows = []
    conts = {}
    bases = []
    for clsname, tag in WRAPPERS:
        cls = find_class(m, clsname)
        bases.append(f'("{tag}", "{",".join(base_names(cls))}")')
        for op in RELOPS:
            kind, sup, cont = classify_cmp(clsname, cls, op, m)
            if kind == "inherit":
                continue
            if kind in ("matched", "plain"):
                rows.append(f"  | .{tag}, .{op} => .{kind} .{sup}")
            elif kind == "raisesTE":
                rows.append(f"  | .{tag}, .{op} => .raisesTE")
            else:
                rows.append(f"  | .{tag}, .{op} => .custom")
                conts[(tag, op)] = cont
    out.append("def cmpTable : CmpTable\n" + "\n".join(rows) + "\n  | _, _ => .inherit\n")
    for tag in ("list", "map"):
        for op in ("eq", "ne"):
            name = f"{tag}{op.capitalize()}Spec"
            if (tag, op) in conts:
                out.append(f"def {name} : ContSpec := {lean_cont(conts[(tag, op)])}")
            else:
                raise TranslationError(f"{tag} {op}: no element-wise reduction found")
    out.append("\ndef cmpSpecs : CmpSpecs := ⟨cmpTable, typeMatchedSpec, listEqSpec, listNeSpec, mapEqSpec, mapNeSpec⟩\n")
    out.append("/-- native base classes of the wrapper classes -/")
    out.append("def bases : List (String × String) := " + lean_list(bases) + "\n")
    p, w = extract_boolean(ev)
    out.append(f"def booleanSpec : BooleanSpec := ⟨{lean_bool(p)}, {lean_bool(w)}⟩\n")
    route = extract_route(ev, lark)
    for runner in ("I", "C"):
        out.append(f"def route{runner} : RelRoute\n" + "\n".join(f"  | .{op} => .{route[runner][op]}" for op in RELOPS) + "\n")
    evcls = find_class(ev, "Evaluator")
    out.append("def handlersRelation : List Exc := " + lean_list([lean_exc(c) for c in handlers_of(find_func(evcls.body, "relation"))]))
    res = find_func(ev.body, "result")
    tries = [s for s in res.body if isinstance(s, ast.Try)]
    if len(tries) != 1 or len(tries[0].handlers) != 1:
        raise TranslationError("result(): expected exactly one try/except")
    out.append("def resultCaught : List Exc := " + lean_list([lean_exc(c) for c in exc_names(tries[0].handlers[0].type)]))
    out.append("\nend Cel.Gen\n")
    return "\n".join(out)


GENERATORS = {"Compare": gen_compare}
