"""Generator for Gen/Compare.lean (C08): what celtypes.py / evaluation.py / cel.lark say NOW about comparisons.

Extracted (structurally — local names, comments, docstrings, logging and `cast(...)` do not matter):
  * `type_matched`: which `issubclass` directions are accepted and that a mismatch raises TypeError;
  * for every wrapper class and every comparison dunder: absent (inherited from the native base) /
    `@type_matched` + `return super().__X__(other)` / plain `return super().__X__(other)` / `raise TypeError` /
    the element-wise reduction of ListType / MapType (whose shape is extracted into a `ContSpec`);
  * the native base class of every wrapper class;
  * `boolean()`: error operands returned unchanged, result re-wrapped as `BoolType(bool(...))`;
  * the route of every CEL relation: token in cel.lark -> `relation_xx` -> `"_<_"` (Evaluator.relation and
    Phase1Transpiler.relation) -> `base_functions` -> `bool_xx` -> `operator.yy`;
  * the exception classes `Evaluator.relation` converts, and the ones `result()` converts.
Anything that does not fit raises TranslationError (handled like a broken bridge).
"""
from __future__ import annotations
import ast
import re
from typing import Dict, List, Optional, Tuple

from .py2lean import TranslationError, find_class, find_func, strip_doc, is_logger_call, lean_list
from .common import parse, read, HEADER, exc_names, lean_exc

WRAPPERS = [("IntType", "int"), ("UintType", "uint"), ("DoubleType", "dbl"), ("BoolType", "bool"), ("StringType", "str"),
            ("BytesType", "bytes"), ("ListType", "list"), ("MapType", "map"), ("TimestampType", "ts"), ("DurationType", "dur"),
            ("TypeType", "type")]
RELOPS = ["eq", "ne", "lt", "le", "gt", "ge"]
CMP_AST = {ast.Eq: "eq", ast.NotEq: "ne", ast.Lt: "lt", ast.LtE: "le", ast.Gt: "gt", ast.GtE: "ge"}


def uncast(e):
    """strip `cast(T, x)` (typing no-op)"""
    while isinstance(e, ast.Call) and isinstance(e.func, ast.Name) and e.func.id == "cast" and len(e.args) == 2:
        e = e.args[1]
    return e


def body_of(fn: ast.FunctionDef) -> list:
    return [s for s in strip_doc(fn.body) if not is_logger_call(s)]


def class_methods(cls: ast.ClassDef) -> Dict[str, ast.AST]:
    """name -> FunctionDef, or the Name it is an alias of (`__floordiv__ = __truediv__`)"""
    out: Dict[str, ast.AST] = {}
    for st in cls.body:
        if isinstance(st, ast.FunctionDef):
            out[st.name] = st
        elif isinstance(st, ast.Assign) and len(st.targets) == 1 and isinstance(st.targets[0], ast.Name):
            out[st.targets[0].id] = st.value
    return out


def base_names(cls: ast.ClassDef) -> List[str]:
    return [ast.unparse(b) for b in cls.bases]


def decorators(fn: ast.FunctionDef) -> List[str]:
    return [ast.unparse(d) for d in fn.decorator_list]


def is_super_call(e, params: List[str]) -> Optional[str]:
    """`super().__X__(other)` -> 'X' (with `other` the method's second parameter)"""
    e = uncast(e)
    if (isinstance(e, ast.Call) and isinstance(e.func, ast.Attribute) and isinstance(e.func.value, ast.Call)
            and isinstance(e.func.value.func, ast.Name) and e.func.value.func.id == "super" and not e.func.value.args
            and len(e.args) == 1 and not e.keywords):
        a = uncast(e.args[0])
        if isinstance(a, ast.Name) and len(params) == 2 and a.id == params[1]:
            m = re.fullmatch(r"__(\w+)__", e.func.attr)
            if m:
                return m.group(1)
    return None


def is_raise_typeerror(st) -> bool:
    return (isinstance(st, ast.Raise) and st.exc is not None and
            ((isinstance(st.exc, ast.Call) and isinstance(st.exc.func, ast.Name) and st.exc.func.id == "TypeError")
             or (isinstance(st.exc, ast.Name) and st.exc.id == "TypeError")))


# ---------------------------------------------------------------------------------------------------------------
# type_matched
# ---------------------------------------------------------------------------------------------------------------

def extract_type_matched(mod: ast.Module) -> Tuple[bool, bool, bool]:
    fn = find_func(mod.body, "type_matched")
    inner = [s for s in fn.body if isinstance(s, ast.FunctionDef)]
    if len(inner) != 1:
        raise TranslationError("type_matched: expected one inner function")
    inner = inner[0]
    params = [a.arg for a in inner.args.args]
    if len(params) != 2:
        raise TranslationError("type_matched: inner function must take (self, other)")
    body = body_of(inner)
    if len(body) != 2 or not isinstance(body[0], ast.If) or not isinstance(body[1], ast.Return):
        raise TranslationError("type_matched: expected `if not (...): raise`, `return method(self, other)`")
    ret = body[1].value
    if not (isinstance(ret, ast.Call) and len(ret.args) == 2 and [ast.unparse(a) for a in ret.args] == params
            and isinstance(ret.func, ast.Name) and ret.func.id == [a.arg for a in fn.args.args][0]):
        raise TranslationError("type_matched: must return method(self, other)")
    test = body[0].test
    if not (isinstance(test, ast.UnaryOp) and isinstance(test.op, ast.Not)):
        raise TranslationError("type_matched: test must be `not (...)`")
    cond = test.operand
    terms = cond.values if isinstance(cond, ast.BoolOp) and isinstance(cond.op, ast.Or) else [cond]
    other_sub_self = self_sub_other = False
    for t in terms:
        if not (isinstance(t, ast.Call) and isinstance(t.func, ast.Name) and t.func.id == "issubclass" and len(t.args) == 2):
            raise TranslationError(f"type_matched: unexpected term {ast.unparse(t)}")
        a, b = [ast.unparse(x) for x in t.args]
        s, o = f"type({params[0]})", f"type({params[1]})"
        if (a, b) == (o, s):
            other_sub_self = True
        elif (a, b) == (s, o):
            self_sub_other = True
        else:
            raise TranslationError(f"type_matched: unexpected issubclass arguments {a}, {b}")
    raises = len(body[0].body) == 1 and is_raise_typeerror(body[0].body[0]) and not body[0].orelse
    return other_sub_self, self_sub_other, raises


# ---------------------------------------------------------------------------------------------------------------
# container reductions
# ---------------------------------------------------------------------------------------------------------------

def extract_cont(fn: ast.FunctionDef, is_map: bool) -> Dict[str, bool]:
    params = [a.arg for a in fn.args.args]
    if len(params) != 2:
        raise TranslationError(f"{fn.name}: expected (self, other)")
    S, Oth = params
    spec = dict(noneIsFalse=False, foreignRaises=False, sizeTestEq=None, connAnd=None, reducerAnd=None, init=None,
                elemEq=None, capturesTE=False, reraises=False, singleton=False)
    helper: Optional[str] = None
    keyvars: Dict[str, str] = {}          # local name -> "self" / "other" for `x = self.keys()`
    result_var: Optional[str] = None
    returned = False
    for st in body_of(fn):
        if returned:
            raise TranslationError(f"{fn.name}: statements after the final return")
        # if other is None: return False
        if (isinstance(st, ast.If) and isinstance(st.test, ast.Compare) and len(st.test.ops) == 1 and isinstance(st.test.ops[0], ast.Is)
                and ast.unparse(st.test.left) == Oth and ast.unparse(st.test.comparators[0]) == "None"):
            if len(st.body) == 1 and isinstance(st.body[0], ast.Return) and ast.unparse(st.body[0].value) == "False" and not st.orelse:
                spec["noneIsFalse"] = True
                continue
            raise TranslationError(f"{fn.name}: unexpected `other is None` branch")
        # if not isinstance(other, (...)): raise TypeError
        if (isinstance(st, ast.If) and isinstance(st.test, ast.UnaryOp) and isinstance(st.test.op, ast.Not)
                and isinstance(st.test.operand, ast.Call) and ast.unparse(st.test.operand.func) == "isinstance"
                and ast.unparse(st.test.operand.args[0]) == Oth):
            if len(st.body) == 1 and is_raise_typeerror(st.body[0]) and not st.orelse:
                spec["foreignRaises"] = True
                continue
            raise TranslationError(f"{fn.name}: unexpected isinstance branch")
        # singleton special case (MapType.__ne__)
        if (isinstance(st, ast.If) and isinstance(st.test, ast.BoolOp) and isinstance(st.test.op, ast.And)
                and [ast.unparse(v) for v in st.test.values] == [f"len({S}) == 1", f"len({Oth}) == 1", f"{S}.keys() == {Oth}.keys()"]):
            b = st.body
            ok = (len(b) == 2 and isinstance(b[0], ast.Assign) and ast.unparse(b[0].value) == f"next(iter({S}.keys()))"
                  and isinstance(b[1], ast.Return))
            if ok:
                k = ast.unparse(b[0].targets[0])
                r = uncast(b[1].value)
                if (isinstance(r, ast.Compare) and len(r.ops) == 1 and ast.unparse(r.left) == f"{S}[{k}]"
                        and ast.unparse(r.comparators[0]) == f"{Oth}[{k}]" and type(r.ops[0]) in (ast.Eq, ast.NotEq)):
                    spec["singleton"] = "eq" if isinstance(r.ops[0], ast.Eq) else "ne"
                    continue
            raise TranslationError(f"{fn.name}: unexpected singleton branch")
        # helper: def equal(s, o): try: return BoolType(s == o) except TypeError as ex: return cast(BoolType, ex)
        if isinstance(st, ast.FunctionDef):
            hp = [a.arg for a in st.args.args]
            hb = body_of(st)
            if len(hp) == 2 and len(hb) == 1 and isinstance(hb[0], ast.Try) and len(hb[0].body) == 1 and isinstance(hb[0].body[0], ast.Return):
                r = uncast(hb[0].body[0].value)
                if (isinstance(r, ast.Call) and ast.unparse(r.func) == "BoolType" and len(r.args) == 1
                        and isinstance(r.args[0], ast.Compare) and len(r.args[0].ops) == 1
                        and ast.unparse(r.args[0].left) == hp[0] and ast.unparse(r.args[0].comparators[0]) == hp[1]
                        and type(r.args[0].ops[0]) in (ast.Eq, ast.NotEq)):
                    spec["elemEq"] = isinstance(r.args[0].ops[0], ast.Eq)
                    hs = hb[0].handlers
                    if (len(hs) == 1 and exc_names(hs[0].type) == ["TypeError"] and hs[0].name and len(hs[0].body) == 1
                            and isinstance(hs[0].body[0], ast.Return) and ast.unparse(uncast(hs[0].body[0].value)) == hs[0].name
                            and not hb[0].orelse and not hb[0].finalbody):
                        spec["capturesTE"] = True
                    elif hs:
                        raise TranslationError(f"{fn.name}: unexpected handlers in {st.name}")
                    helper = st.name
                    continue
            raise TranslationError(f"{fn.name}: unexpected helper {st.name}")
        # keys_s = self.keys()
        if (isinstance(st, ast.Assign) and len(st.targets) == 1 and isinstance(st.targets[0], ast.Name)
                and ast.unparse(st.value) in (f"{S}.keys()", f"{Oth}.keys()")):
            keyvars[st.targets[0].id] = "self" if ast.unparse(st.value) == f"{S}.keys()" else "other"
            continue
        # result_value = <size test> and/or reduce(...)
        if (isinstance(st, ast.Assign) and len(st.targets) == 1 and isinstance(st.targets[0], ast.Name)
                and isinstance(st.value, ast.BoolOp) and len(st.value.values) == 2):
            result_var = st.targets[0].id
            spec["connAnd"] = isinstance(st.value.op, ast.And)
            test, red = st.value.values
            if not (isinstance(test, ast.Compare) and len(test.ops) == 1 and type(test.ops[0]) in (ast.Eq, ast.NotEq)):
                raise TranslationError(f"{fn.name}: unexpected size test {ast.unparse(test)}")
            l, r = ast.unparse(test.left), ast.unparse(test.comparators[0])
            if is_map:
                sides = [keyvars.get(l) or {f"{S}.keys()": "self", f"{Oth}.keys()": "other"}.get(l),
                         keyvars.get(r) or {f"{S}.keys()": "self", f"{Oth}.keys()": "other"}.get(r)]
            else:
                sides = [{f"len({S})": "self", f"len({Oth})": "other"}.get(l), {f"len({S})": "self", f"len({Oth})": "other"}.get(r)]
            if sorted(map(str, sides)) != ["other", "self"]:
                raise TranslationError(f"{fn.name}: size test does not compare self with other: {ast.unparse(test)}")
            spec["sizeTestEq"] = isinstance(test.ops[0], ast.Eq)
            if not (isinstance(red, ast.Call) and ast.unparse(red.func) == "reduce" and len(red.args) == 3):
                raise TranslationError(f"{fn.name}: expected reduce(f, gen, init)")
            f, gen, init = red.args
            if ast.unparse(f) not in ("logical_and", "logical_or"):
                raise TranslationError(f"{fn.name}: reducer {ast.unparse(f)}")
            spec["reducerAnd"] = ast.unparse(f) == "logical_and"
            if ast.unparse(init) not in ("BoolType(True)", "BoolType(False)"):
                raise TranslationError(f"{fn.name}: initial value {ast.unparse(init)}")
            spec["init"] = ast.unparse(init) == "BoolType(True)"
            if not (isinstance(gen, ast.GeneratorExp) and len(gen.generators) == 1 and not gen.generators[0].ifs
                    and isinstance(gen.elt, ast.Call) and helper and ast.unparse(gen.elt.func) == helper and len(gen.elt.args) == 2):
                raise TranslationError(f"{fn.name}: unexpected generator {ast.unparse(gen)}")
            g = gen.generators[0]
            a0, a1 = [ast.unparse(x) for x in gen.elt.args]
            if is_map:
                k = ast.unparse(g.target)
                it = ast.unparse(g.iter)
                if not ((keyvars.get(it) == "self" or it in (f"{S}.keys()", S)) and (a0, a1) == (f"{S}[{k}]", f"{Oth}[{k}]")):
                    raise TranslationError(f"{fn.name}: unexpected generator {ast.unparse(gen)}")
            else:
                if not (isinstance(g.target, ast.Tuple) and len(g.target.elts) == 2 and ast.unparse(g.iter) == f"zip({S}, {Oth})"
                        and [ast.unparse(x) for x in g.target.elts] == [a0, a1]):
                    raise TranslationError(f"{fn.name}: unexpected generator {ast.unparse(gen)}")
            continue
        # if isinstance(result_value, TypeError): raise result_value
        if (isinstance(st, ast.If) and result_var and ast.unparse(st.test) == f"isinstance({result_var}, TypeError)"):
            if len(st.body) == 1 and isinstance(st.body[0], ast.Raise) and ast.unparse(st.body[0].exc) == result_var and not st.orelse:
                spec["reraises"] = True
                continue
            raise TranslationError(f"{fn.name}: unexpected TypeError branch")
        if isinstance(st, ast.Return) and result_var and ast.unparse(st.value) == f"bool({result_var})":
            returned = True
            continue
        raise TranslationError(f"{fn.name}: statement outside the subset: {ast.unparse(st)[:80]!r}")
    if not returned or None in (spec["sizeTestEq"], spec["connAnd"], spec["reducerAnd"], spec["init"], spec["elemEq"]):
        raise TranslationError(f"{fn.name}: reduction not recognised")
    if spec["singleton"]:
        if (spec["singleton"] == "eq") != spec["elemEq"]:
            raise TranslationError(f"{fn.name}: singleton case compares with another operator than the reduction")
        spec["singleton"] = True
    return spec


def lean_bool(b) -> str:
    return "true" if b else "false"


def lean_cont(spec) -> str:
    order = ["noneIsFalse", "foreignRaises", "sizeTestEq", "connAnd", "reducerAnd", "init", "elemEq", "capturesTE", "reraises", "singleton"]
    return "⟨" + ", ".join(lean_bool(spec[k]) for k in order) + "⟩"


# ---------------------------------------------------------------------------------------------------------------
# per-class comparison dunders
# ---------------------------------------------------------------------------------------------------------------

def classify_cmp(clsname: str, cls: ast.ClassDef, op: str):
    """-> ('inherit'|'matched'|'plain'|'raisesTE'|'custom', sup, contspec)"""
    ms = class_methods(cls)
    name = f"__{op}__"
    if name not in ms:
        return "inherit", None, None
    fn = ms[name]
    if not isinstance(fn, ast.FunctionDef):
        raise TranslationError(f"{clsname}.{name} is an alias")
    decs = decorators(fn)
    params = [a.arg for a in fn.args.args]
    body = body_of(fn)
    if len(body) == 1 and is_raise_typeerror(body[0]) and not decs:
        return "raisesTE", None, None
    if len(body) == 1 and isinstance(body[0], ast.Return) and body[0].value is not None:
        sup = is_super_call(body[0].value, params)
        if sup in RELOPS:
            if decs == ["type_matched"]:
                return "matched", sup, None
            if not decs:
                return "plain", sup, None
    if clsname in ("ListType", "MapType") and op in ("eq", "ne") and not decs:
        return "custom", None, extract_cont(fn, clsname == "MapType")
    raise TranslationError(f"{clsname}.{name}: body outside the subset")


def extract_boolean(ev: ast.Module) -> Tuple[bool, bool]:
    fn = find_func(ev.body, "boolean")
    inner = [s for s in fn.body if isinstance(s, ast.FunctionDef)]
    if len(inner) != 1:
        raise TranslationError("boolean(): expected one inner function")
    inner = inner[0]
    a, b = [x.arg for x in inner.args.args]
    wrapped = [x.arg for x in fn.args.args][0]
    body = body_of(inner)
    passes = set()
    rewraps = False
    res = None
    for st in body:
        if (isinstance(st, ast.If) and isinstance(st.test, ast.Call) and ast.unparse(st.test.func) == "isinstance"
                and len(st.test.args) == 2 and ast.unparse(st.test.args[1]) == "CELEvalError"
                and len(st.body) == 1 and isinstance(st.body[0], ast.Return) and ast.unparse(st.body[0].value) == ast.unparse(st.test.args[0])):
            passes.add(ast.unparse(st.test.args[0]))
            continue
        if isinstance(st, ast.Assign) and isinstance(st.value, ast.Call) and ast.unparse(st.value) == f"{wrapped}({a}, {b})":
            res = ast.unparse(st.targets[0])
            continue
        if (isinstance(st, ast.If) and res and ast.unparse(st.test) in (f"{res} == NotImplemented", f"{res} is NotImplemented")
                and len(st.body) == 1 and isinstance(st.body[0], ast.Return) and ast.unparse(uncast(st.body[0].value)) == res):
            continue
        if isinstance(st, ast.Return) and res:
            r = uncast(st.value)
            if isinstance(r, ast.Call) and ast.unparse(r.func).endswith("BoolType") and len(r.args) == 1 and ast.unparse(r.args[0]) in (f"bool({res})", res):
                rewraps = True
                continue
            if ast.unparse(r) in (res, f"bool({res})"):
                rewraps = False
                continue
        raise TranslationError(f"boolean(): statement outside the subset: {ast.unparse(st)[:80]!r}")
    return passes == {a, b}, rewraps


def extract_route(ev: ast.Module, lark_text: str) -> Dict[str, Dict[str, str]]:
    """CEL relation token -> operator.* name, for the interpreter and the transpiler"""
    tok2rule = {}
    for m in re.finditer(r'^(relation_\w+)\s*:\s*relation\s+"([^"]+)"\s*$', lark_text, re.M):
        tok2rule[m.group(2)] = m.group(1)
    # bool_xx -> operator.yy
    boolfn = {}
    for st in ev.body:
        if isinstance(st, ast.FunctionDef) and st.name.startswith("bool_"):
            b = body_of(st)
            ps = [a.arg for a in st.args.args]
            if len(b) == 1 and isinstance(b[0], ast.Return):
                m = re.fullmatch(r"boolean\(operator\.(\w+)\)\((\w+), (\w+)\)", ast.unparse(b[0].value))
                if m and [m.group(2), m.group(3)] == ps:
                    boolfn[st.name] = m.group(1)
                    continue
            raise TranslationError(f"{st.name}: body outside the subset")
    # base_functions
    base = None
    for st in ev.body:
        tgt = st.target if isinstance(st, ast.AnnAssign) else (st.targets[0] if isinstance(st, ast.Assign) else None)
        if tgt is not None and ast.unparse(tgt) == "base_functions" and isinstance(st.value, ast.Dict):
            base = {ast.literal_eval(k): ast.unparse(v) for k, v in zip(st.value.keys, st.value.values)}
    if base is None:
        raise TranslationError("base_functions not found")

    def rule_table(clsname):
        cls = find_class(ev, clsname)
        fn = find_func(cls.body, "relation")
        for node in ast.walk(fn):
            if isinstance(node, ast.Dict) and node.keys and all(isinstance(k, ast.Constant) and str(k.value).startswith("relation_") for k in node.keys):
                return {k.value: ast.literal_eval(v) for k, v in zip(node.keys, node.values)}
        raise TranslationError(f"{clsname}.relation: op-name table not found")
    out = {}
    for runner, clsname in (("I", "Evaluator"), ("C", "Phase1Transpiler")):
        tbl = rule_table(clsname)
        r = {}
        for tok, op in (("==", "eq"), ("!=", "ne"), ("<", "lt"), ("<=", "le"), (">", "gt"), (">=", "ge")):
            rule = tok2rule.get(tok)
            if rule is None:
                raise TranslationError(f"cel.lark: no relation rule for {tok!r}")
            sym = tbl.get(rule)
            fnname = base.get(sym) if sym else None
            target = boolfn.get(fnname) if fnname else None
            if target not in RELOPS:
                raise TranslationError(f"route of {tok!r} via {rule}/{sym}/{fnname} does not end in operator.<relop>")
            r[op] = target
        out[runner] = r
    return out


def handlers_of(fn: ast.FunctionDef) -> List[str]:
    hs = []
    for node in ast.walk(fn):
        if isinstance(node, ast.Try):
            for h in node.handlers:
                hs += exc_names(h.type)
    return hs


def gen_compare() -> str:
    m = parse("src/celpy/celtypes.py")
    ev = parse("src/celpy/evaluation.py")
    lark = read("src/celpy/cel.lark")
    out = [HEADER.format(src="src/celpy/celtypes.py (type_matched, comparison dunders), src/celpy/evaluation.py (boolean, bool_*, relation), src/celpy/cel.lark"),
           "import Cel.Model.Value\nnamespace Cel.Gen\nopen Cel\n"]
    o, s, r = extract_type_matched(m)
    out.append(f"def typeMatchedSpec : TypeMatchedSpec := ⟨{lean_bool(o)}, {lean_bool(s)}, {lean_bool(r)}⟩\n")
    rows = []
    conts = {}
    bases = []
    for clsname, tag in WRAPPERS:
        cls = find_class(m, clsname)
        bases.append(f'("{tag}", "{",".join(base_names(cls))}")')
        for op in RELOPS:
            kind, sup, cont = classify_cmp(clsname, cls, op)
            if kind == "inherit":
                continue
            if kind in ("matched", "plain"):
                rows.append(f"  | .{tag}, .{op} => .{kind} .{sup}")
            elif kind == "raisesTE":
                rows.append(f"  | .{tag}, .{op} => .raisesTE")
            else:
                rows.append(f"  | .{tag}, .{op} => .custom")
                conts[(tag, op)] = cont
    out.append("def cmpTable : CmpTable\n" + "\n".join(rows) + "\n  | _, _ => .inherit\n")
    for tag in ("list", "map"):
        for op in ("eq", "ne"):
            name = f"{tag}{op.capitalize()}Spec"
            if (tag, op) in conts:
                out.append(f"def {name} : ContSpec := {lean_cont(conts[(tag, op)])}")
            else:
                raise TranslationError(f"{tag} {op}: no element-wise reduction found")
    out.append("\ndef cmpSpecs : CmpSpecs := ⟨cmpTable, typeMatchedSpec, listEqSpec, listNeSpec, mapEqSpec, mapNeSpec⟩\n")
    out.append("/-- native base classes of the wrapper classes -/")
    out.append("def bases : List (String × String) := " + lean_list(bases) + "\n")
    p, w = extract_boolean(ev)
    out.append(f"def booleanSpec : BooleanSpec := ⟨{lean_bool(p)}, {lean_bool(w)}⟩\n")
    route = extract_route(ev, lark)
    for runner in ("I", "C"):
        out.append(f"def route{runner} : RelRoute\n" + "\n".join(f"  | .{op} => .{route[runner][op]}" for op in RELOPS) + "\n")
    evcls = find_class(ev, "Evaluator")
    out.append("def handlersRelation : List Exc := " + lean_list([lean_exc(c) for c in handlers_of(find_func(evcls.body, "relation"))]))
    res = find_func(ev.body, "result")
    tries = [s for s in res.body if isinstance(s, ast.Try)]
    if len(tries) != 1 or len(tries[0].handlers) != 1:
        raise TranslationError("result(): expected exactly one try/except")
    out.append("def resultCaught : List Exc := " + lean_list([lean_exc(c) for c in exc_names(tries[0].handlers[0].type)]))
    out.append("\nend Cel.Gen\n")
    return "\n".join(out)


GENERATORS = {"Compare": gen_compare}
