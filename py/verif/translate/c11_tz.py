"""Semantic translation of `TimestampType.tz_offset_parse` and `TimestampType.tz_parse` (C11, round 4).

Until round 3 both bodies were pinned as normalised source text, so every behaviour-preserving rewrite
(guard clause instead of if/else, an inlined temporary, the regex hoisted into a class constant, the sign
applied by an `if` instead of a factor) broke the bridge.  Here the bodies are EXECUTED SYMBOLICALLY, path
by path, into Lean functions over the few facts the result depends on:

  tz_offset_parse:  `matched` (did PAT.match(tz_name) succeed), `neg` (group 1 == '-'), `hh = int(group 2)`,
                    `mm = int(group 3)`  ->  `.raise <class>` | `.tz <seconds of the timedelta>`
  tz_parse:         `truthy` (truth value of tz_name)  ->  `.utc` | `.lookup`

plus the regex text itself (`tzOffsetPat`).  The bridge proves these functions equal to the model's reading
for ALL values of the arguments (`cases` + `omega`), so any rewrite that computes the same integer passes and
any change of the pattern, of what is matched, of the sign/minute arithmetic, of the exception class or of
the branch taken for an empty zone changes the function (bridge breaks -> failing-input search).

Nothing is skipped: every statement of the body must be understood (assignment, tuple-unpacking of
`groups()`, `if`, `raise <Class>(...)`, `return`), every expression must be one of the recognised shapes,
otherwise TranslationError (= broken bridge).  `groups()` / `group(k)` are accepted only on paths where the
match is known to have succeeded.
"""
from __future__ import annotations
import ast
from .py2lean import TranslationError, strip_doc


def _lean_str(s: str) -> str:
    out = ['"']
    for ch in s:
        if ch == '"':
            out.append('\\"')
        elif ch == "\\":
            out.append("\\\\")
        elif ch == "\n":
            out.append("\\n")
        elif ord(ch) < 32 or ord(ch) == 127:
            out.append("\\x%02x" % ord(ch))
        else:
            out.append(ch)
    out.append('"')
    return "".join(out)


LEAN_TYPES = """
/-- outcome of `TimestampType.tz_offset_parse`: the exception class raised, or
`datetime.timezone(datetime.timedelta(seconds=s))` -/
inductive TzRes where
  | raise (exc : String)
  | tz (seconds : Int)
deriving DecidableEq, Repr

/-- outcome of `TimestampType.tz_parse`: pendulum's `timezone('UTC')` or `TimestampType.tz_name_lookup(tz_name)` -/
inductive TzParseRes where
  | utc
  | lookup
deriving DecidableEq, Repr
"""


class TzSym:
    """symbolic executor; `mode` is "offset" (tz_offset_parse) or "parse" (tz_parse)"""

    def __init__(self, mode: str, cls: ast.ClassDef, mod: ast.Module, fname: str):
        self.mode = mode
        self.cls = cls
        self.mod = mod
        self.fname = fname
        self.pats = []            # regex texts used by a match

    def fail(self, what):
        raise TranslationError(f"TimestampType.{self.fname}: {what}")

    # -- class constants -------------------------------------------------------------------------
    def class_const(self, name: str):
        defs = []
        for st in self.cls.body:
            if isinstance(st, ast.Assign):
                for t in st.targets:
                    for n in ast.walk(t):
                        if isinstance(n, ast.Name) and n.id == name:
                            defs.append(st)
            elif isinstance(st, ast.AnnAssign) and isinstance(st.target, ast.Name) and st.target.id == name:
                defs.append(st)
            elif isinstance(st, (ast.FunctionDef, ast.ClassDef)) and st.name == name:
                defs.append(st)
        if len(defs) != 1:
            self.fail(f"class attribute {name}: {len(defs)} definitions")
        st = defs[0]
        if isinstance(st, ast.Assign) and len(st.targets) == 1 and isinstance(st.targets[0], ast.Name):
            val = st.value
        elif isinstance(st, ast.AnnAssign) and st.value is not None:
            val = st.value
        else:
            self.fail(f"class attribute {name}: not a plain assignment")
        # never re-bound anywhere in the module (`X.name = …`, `setattr(…, 'name', …)`, `del`)
        for n in ast.walk(self.mod):
            if isinstance(n, ast.Attribute) and n.attr == name and isinstance(n.ctx, (ast.Store, ast.Del)):
                self.fail(f"class attribute {name} is re-bound at line {n.lineno}")
            if isinstance(n, ast.Call) and ast.unparse(n.func) in ("setattr", "delattr") and len(n.args) >= 2 \
                    and not (isinstance(n.args[1], ast.Constant) and n.args[1].value != name):
                self.fail(f"setattr/delattr at line {n.lineno} may re-bind {name}")
        return self.ev(val, {}, {})

    def pendulum_timezone(self):
        """module-level `timezone` is pendulum's and bound once"""
        b = []
        for n in ast.walk(self.mod):
            if isinstance(n, (ast.Import, ast.ImportFrom)):
                for al in n.names:
                    if (al.asname or al.name).split(".")[0] == "timezone":
                        b.append(n)
            elif isinstance(n, ast.Name) and n.id == "timezone" and isinstance(n.ctx, (ast.Store, ast.Del)):
                b.append(n)
            elif isinstance(n, (ast.FunctionDef, ast.ClassDef)) and n.name == "timezone":
                b.append(n)
            elif isinstance(n, ast.arg) and n.arg == "timezone":
                b.append(n)
        if len(b) != 1 or not (isinstance(b[0], ast.ImportFrom) and b[0].module == "pendulum" and b[0].level == 0
                               and any(al.name == "timezone" and al.asname is None for al in b[0].names)):
            self.fail("`timezone` is not (only) `from pendulum import timezone`")

    # -- expressions -----------------------------------------------------------------------------
    def ev(self, e, env, facts):
        if isinstance(e, ast.Constant):
            if isinstance(e.value, bool):
                return ("B", "true" if e.value else "false")
            if isinstance(e.value, int):
                return ("Z", f"({e.value} : Int)")
            if isinstance(e.value, str):
                return ("STR", e.value)
            if e.value is None:
                return ("NONE",)
            self.fail(f"constant {e.value!r}")
        if isinstance(e, ast.Name):
            if e.id in env:
                return env[e.id]
            if e.id == "TimestampType":
                return ("CLS",)
            self.fail(f"name {e.id}")
        if isinstance(e, ast.Attribute):
            base = self.ev(e.value, env, facts)
            if base == ("CLS",):
                return self.class_const(e.attr)
            self.fail(f"attribute {ast.unparse(e)}")
        if isinstance(e, ast.Subscript):
            base = self.ev(e.value, env, facts)
            if base == ("M",) and isinstance(e.slice, ast.Constant):
                return self.group(e.slice.value, facts)
            if base == ("GS",) and isinstance(e.slice, ast.Constant) and e.slice.value in (0, 1, 2):
                return ("G", e.slice.value + 1)
            self.fail(f"subscript {ast.unparse(e)}")
        if isinstance(e, ast.Call):
            return self.call(e, env, facts)
        if isinstance(e, ast.UnaryOp):
            if isinstance(e.op, ast.Not):
                return ("B", f"(!{self.test(e.operand, env, facts)})")
            v = self.ev(e.operand, env, facts)
            if v[0] == "Z" and isinstance(e.op, ast.USub):
                return ("Z", f"(-{v[1]})")
            if v[0] == "Z" and isinstance(e.op, ast.UAdd):
                return v
            self.fail(f"unary operator in {ast.unparse(e)}")
        if isinstance(e, ast.BinOp):
            a = self.ev(e.left, env, facts)
            b = self.ev(e.right, env, facts)
            op = {ast.Add: "+", ast.Sub: "-", ast.Mult: "*"}.get(type(e.op))
            if a[0] == "Z" and b[0] == "Z" and op:
                return ("Z", f"({a[1]} {op} {b[1]})")
            self.fail(f"operator in {ast.unparse(e)}")
        if isinstance(e, ast.IfExp):
            c = self.test(e.test, env, facts)
            a = self.ev(e.body, env, facts)
            b = self.ev(e.orelse, env, facts)
            if a[0] == "Z" and b[0] == "Z":
                return ("Z", f"(if {c} then {a[1]} else {b[1]})")
            self.fail(f"conditional expression {ast.unparse(e)}")
        if isinstance(e, ast.Compare) and len(e.ops) == 1:
            a = self.ev(e.left, env, facts)
            b = self.ev(e.comparators[0], env, facts)
            op = e.ops[0]
            if isinstance(op, (ast.Eq, ast.NotEq)):
                pair = {a, b} if a != b else set()
                if pair == {("G", 1), ("STR", "-")}:
                    return ("B", "neg" if isinstance(op, ast.Eq) else "(!neg)")
            if isinstance(op, (ast.Is, ast.IsNot)) and a == ("M",) and b == ("NONE",):
                return ("B", "(!matched)" if isinstance(op, ast.Is) else "matched")
            if self.mode == "parse" and isinstance(op, (ast.Is, ast.IsNot)) and a == ("TZNAME",) and b == ("NONE",):
                self.fail("`tz_name is None` is not the truth test (the empty text differs)")
            self.fail(f"comparison {ast.unparse(e)}")
        if isinstance(e, ast.BoolOp):
            parts = [self.test(v, env, facts) for v in e.values]
            return ("B", "(" + (" && " if isinstance(e.op, ast.And) else " || ").join(parts) + ")")
        self.fail(f"expression {ast.unparse(e)[:60]}")

    def group(self, k, facts):
        if facts.get("matched") is not True:
            self.fail("group of a match that is not known to have succeeded")
        if k in (1, 2, 3):
            return ("G", k)
        self.fail(f"group({k!r})")

    def call(self, e: ast.Call, env, facts):
        fsrc = ast.unparse(e.func)
        kws = {k.arg: k.value for k in e.keywords}
        if None in kws:
            self.fail(f"**kwargs in {fsrc}(...)")
        if fsrc == "re.compile":
            if len(e.args) == 1 and not kws:
                p = self.ev(e.args[0], env, facts)
                if p[0] == "STR":
                    return ("PAT", p[1])
            self.fail("re.compile(...) shape")
        if fsrc == "re.match":
            if len(e.args) == 2 and not kws:
                p = self.ev(e.args[0], env, facts)
                s = self.ev(e.args[1], env, facts)
                if p[0] in ("STR", "PAT") and s == ("TZNAME",):
                    self.pats.append(p[1])
                    return ("M",)
            self.fail("re.match(...) shape")
        if fsrc == "int":
            if len(e.args) == 1 and not kws:
                g = self.ev(e.args[0], env, facts)
                if g == ("G", 2):
                    return ("Z", "hh")
                if g == ("G", 3):
                    return ("Z", "mm")
                if g[0] == "Z":
                    return g
            self.fail(f"int(...) of {ast.unparse(e.args[0]) if e.args else ''}")
        if fsrc == "cast" and len(e.args) == 2 and not kws:
            return self.ev(e.args[1], env, facts)
        if fsrc == "datetime.timedelta":
            if e.args or not kws or set(kws) - {"seconds", "minutes", "hours"}:
                self.fail("datetime.timedelta(...) shape")
            terms = []
            for k, f in (("hours", 3600), ("minutes", 60), ("seconds", 1)):
                if k in kws:
                    v = self.ev(kws[k], env, facts)
                    if v[0] != "Z":
                        self.fail(f"timedelta({k}=non-integer)")
                    terms.append(v[1] if f == 1 else f"({v[1]} * {f})")
            return ("TD", terms[0] if len(terms) == 1 else "(" + " + ".join(terms) + ")")
        if fsrc == "datetime.timezone":
            if len(e.args) == 1 and not kws:
                d = self.ev(e.args[0], env, facts)
                if d[0] == "TD":
                    return ("TZV", d[1])
            self.fail("datetime.timezone(...) shape")
        if fsrc == "timezone" and "timezone" not in env:
            if len(e.args) == 1 and not kws and self.ev(e.args[0], env, facts) == ("STR", "UTC"):
                self.pendulum_timezone()
                return ("UTC",)
            self.fail("timezone(...) of something else than 'UTC'")
        if isinstance(e.func, ast.Attribute):
            base = self.ev(e.func.value, env, facts)
            attr = e.func.attr
            if base[0] == "PAT" and attr == "match" and len(e.args) == 1 and not kws:
                if self.ev(e.args[0], env, facts) == ("TZNAME",):
                    self.pats.append(base[1])
                    return ("M",)
                self.fail("match(...) of something else than the zone text")
            if base == ("M",) and attr == "groups" and not e.args and not kws:
                if facts.get("matched") is not True:
                    self.fail("groups() of a match that is not known to have succeeded")
                return ("GS",)
            if base == ("M",) and attr == "group" and len(e.args) == 1 and not kws and isinstance(e.args[0], ast.Constant):
                return self.group(e.args[0].value, facts)
            if base == ("CLS",) and attr == "tz_name_lookup" and self.mode == "parse" and len(e.args) == 1 and not kws:
                if self.ev(e.args[0], env, facts) == ("TZNAME",):
                    return ("LOOKUP",)
                self.fail("tz_name_lookup(...) of something else than the zone argument")
        self.fail(f"call {fsrc}(...)")

    def test(self, e, env, facts) -> str:
        r = self.ev(e, env, facts)
        if r == ("M",):
            return "matched"
        if r == ("TZNAME",) and self.mode == "parse":
            return "truthy"
        if r[0] == "B":
            return r[1]
        self.fail(f"test {ast.unparse(e)[:60]}")

    # -- statements ------------------------------------------------------------------------------
    def paths(self, stmts, env, facts, ind) -> str:
        env = dict(env)
        for i, st in enumerate(stmts):
            if isinstance(st, ast.AnnAssign) and st.value is None:
                continue
            if isinstance(st, ast.Pass):
                continue
            if isinstance(st, ast.Assign) and len(st.targets) == 1:
                t = st.targets[0]
                v = self.ev(st.value, env, facts)
                if isinstance(t, ast.Name):
                    env[t.id] = v
                    continue
                if isinstance(t, (ast.Tuple, ast.List)) and v == ("GS",) and len(t.elts) == 3 \
                        and all(isinstance(x, ast.Name) for x in t.elts):
                    for k, x in enumerate(t.elts):
                        env[x.id] = ("G", k + 1)
                    continue
                self.fail(f"assignment {ast.unparse(st)[:60]}")
            if isinstance(st, ast.AnnAssign) and isinstance(st.target, ast.Name):
                env[st.target.id] = self.ev(st.value, env, facts)
                continue
            if isinstance(st, ast.AugAssign) and isinstance(st.target, ast.Name):
                env[st.target.id] = self.ev(ast.BinOp(left=ast.Name(id=st.target.id, ctx=ast.Load()), op=st.op, right=st.value), env, facts)
                continue
            if isinstance(st, ast.If):
                rest = stmts[i + 1:]
                c = self.test(st.test, env, facts)
                pos = {"matched": ("matched", True), "(!matched)": ("matched", False)}.get(c)
                if pos and pos[0] in facts:                  # already decided on this path
                    taken = st.body if facts[pos[0]] == pos[1] else st.orelse
                    return self.paths(list(taken) + rest, env, facts, ind)
                ft, fe = dict(facts), dict(facts)
                if pos:
                    ft[pos[0]], fe[pos[0]] = pos[1], not pos[1]
                thn = self.paths(list(st.body) + rest, env, ft, ind + "  ")
                els = self.paths(list(st.orelse) + rest, env, fe, ind + "  ")
                return f"\n{ind}if {c} then {thn}\n{ind}else {els}"
            if isinstance(st, ast.Raise) and st.exc is not None and st.cause is None:
                x = st.exc
                name = x.func if isinstance(x, ast.Call) else x
                if not isinstance(name, ast.Name) or name.id in env:
                    self.fail(f"raise {ast.unparse(x)[:40]}")
                if isinstance(x, ast.Call):
                    # the message: constants / f-strings over the zone text only (cannot raise, has no effect)
                    for a in list(x.args) + [k.value for k in x.keywords]:
                        for n in ast.walk(a):
                            if isinstance(n, (ast.Call, ast.Subscript, ast.Attribute, ast.BinOp, ast.Await, ast.NamedExpr)):
                                self.fail("raise: the message is computed")
                            if isinstance(n, ast.Name) and env.get(n.id) != ("TZNAME",):
                                self.fail("raise: the message mentions something else than the zone text")
                return f".raise {_lean_str(name.id)}"
            if isinstance(st, ast.Return) and st.value is not None:
                v = self.ev(st.value, env, facts)
                if self.mode == "offset" and v[0] == "TZV":
                    return f".tz {v[1]}"
                if self.mode == "parse" and v == ("UTC",):
                    return ".utc"
                if self.mode == "parse" and v == ("LOOKUP",):
                    return ".lookup"
                self.fail(f"return value {ast.unparse(st.value)[:60]}")
            self.fail(f"statement {ast.unparse(st)[:60]}")
        self.fail("falls off the end")


def _params(fn: ast.FunctionDef, who: str):
    a = fn.args
    if a.vararg or a.kwarg or a.kwonlyargs or a.posonlyargs or a.defaults:
        raise TranslationError(f"TimestampType.{who}: signature")
    return [p.arg for p in a.args]


def gen_tz(cls: ast.ClassDef, mod: ast.Module, tzo: ast.FunctionDef, tzp: ast.FunctionDef) -> str:
    out = [LEAN_TYPES]
    # tz_offset_parse(cls, tz_name)
    decs = [ast.unparse(d) for d in tzo.decorator_list]
    ps = _params(tzo, "tz_offset_parse")
    if decs == ["classmethod"] and len(ps) == 2:
        env = {ps[0]: ("CLS",), ps[1]: ("TZNAME",)}
    elif decs == ["staticmethod"] and len(ps) == 1:
        env = {ps[0]: ("TZNAME",)}
    else:
        raise TranslationError("TimestampType.tz_offset_parse: decorators / parameters")
    s = TzSym("offset", cls, mod, "tz_offset_parse")
    body = s.paths(strip_doc(tzo.body), env, {}, "  ")
    if len(set(s.pats)) != 1:
        raise TranslationError(f"TimestampType.tz_offset_parse: {len(set(s.pats))} patterns matched against the zone text")
    out.append("/-- the regular expression `tz_offset_parse` matches (`.match`) against the zone text -/")
    out.append("def tzOffsetPat : String := " + _lean_str(s.pats[0]))
    out.append("/-- `tz_offset_parse` as a function of: did the pattern match, is group 1 `'-'`, `int(group 2)`, `int(group 3)` -/")
    out.append(f"def tzOffsetParseF (matched neg : Bool) (hh mm : Int) : TzRes :={body if body.startswith(chr(10)) else ' ' + body}")
    # tz_parse(tz_name)
    decs = [ast.unparse(d) for d in tzp.decorator_list]
    ps = _params(tzp, "tz_parse")
    if decs == ["staticmethod"] and len(ps) == 1:
        env = {ps[0]: ("TZNAME",)}
    elif decs == ["classmethod"] and len(ps) == 2:
        env = {ps[0]: ("CLS",), ps[1]: ("TZNAME",)}
    else:
        raise TranslationError("TimestampType.tz_parse: decorators / parameters")
    s = TzSym("parse", cls, mod, "tz_parse")
    body = s.paths(strip_doc(tzp.body), env, {}, "  ")
    out.append("/-- `tz_parse` as a function of the truth value of its argument (`None` and `''` are false) -/")
    out.append(f"def tzParseF (truthy : Bool) : TzParseRes :={body if body.startswith(chr(10)) else ' ' + body}")
    return "\n".join(out)
