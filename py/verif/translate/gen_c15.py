"""Generator for Gen/JsonLadder.lean (C15): the isinstance ladders of `adapter.json_to_cel`,
`CELJSONEncoder.to_python`, `CELJSONEncoder.default`, the shape of `CELJSONEncoder.encode` and `CELJSONDecoder.decode`, the base
classes of the celtypes wrappers, `MapType.valid_key_type`'s class tuple, the integer `DurationType.__str__` writes and the `except`
classes of `Evaluator.member_index` — all read from /repo's current working tree.

Subset: a function body is NORMALISED into a decision tree of `return` / `raise` leaves (see "normalisation" below: early returns,
conditional expressions, aliases, hoisted sub-expressions, loops that build a list / dict, one-expression helpers); the spine of the
tree must be a first-match ladder whose tests are class tests on the parameter (`isinstance(p, T)`, `isinstance(p, (T1, …))`,
`isinstance(p, T1 | T2)`, `p is None`, `or` of those) and whose leaves are of the recognised shapes.  Anything else is a
TranslationError (handled like a broken bridge).  Nothing is skipped: a statement is consumed with its exact meaning or the
translation fails."""
from __future__ import annotations
import ast
import copy
from typing import Dict, List, Optional, Tuple
from .py2lean import TranslationError, find_class, find_func, strip_doc, lean_list
from .common import parse, HEADER, exc_names, lean_exc

PY_CLS = {
    "object": "object", "bool": "bool", "int": "int", "float": "float", "str": "str", "bytes": "bytes",
    "list": "list", "List": "list", "tuple": "tuple", "Tuple": "tuple", "dict": "dict", "Dict": "dict",
    "datetime.datetime": "datetime", "datetime.timedelta": "timedelta",
    "BoolType": "boolType", "IntType": "intType", "UintType": "uintType", "DoubleType": "doubleType",
    "StringType": "stringType", "BytesType": "bytesType", "ListType": "listType", "MapType": "mapType",
    "TimestampType": "timestampType", "DurationType": "durationType", "MessageType": "messageType",
    "PackageType": "packageType",
}
CTOR = {"BoolType": "boolType", "DoubleType": "doubleType", "IntType": "intType", "StringType": "stringType",
        "ListType": "listType", "MapType": "mapType", "TimestampType": "timestampType", "DurationType": "durationType"}


def cls_name(e) -> str:
    """`celtypes.X`, `celpy.celtypes.X`, `X`, `datetime.datetime`, `List[...]` → key of PY_CLS"""
    if isinstance(e, ast.Subscript):
        e = e.value
    txt = ast.unparse(e)
    for pre in ("celpy.celtypes.", "celtypes."):
        if txt.startswith(pre):
            txt = txt[len(pre):]
    if txt not in PY_CLS:
        raise TranslationError(f"class {txt!r} is outside the modelled lattice")
    return txt


def lean_cls(e) -> str:
    return "PCls." + PY_CLS[cls_name(e)]


def test_classes(test, param: str) -> List[str]:
    """the class list of one rung's test: `isinstance(p, T)`, `isinstance(p, (T1, …))`, `isinstance(p, T1 | T2)`,
    `p is None`, and any `or` of such tests (= the union of their classes, in order)"""
    if isinstance(test, ast.BoolOp) and isinstance(test.op, ast.Or):
        out: List[str] = []
        for v in test.values:
            out += test_classes(v, param)
        return out
    if (isinstance(test, ast.Compare) and len(test.ops) == 1 and isinstance(test.ops[0], ast.Is)
            and isinstance(test.left, ast.Name) and test.left.id == param
            and isinstance(test.comparators[0], ast.Constant) and test.comparators[0].value is None):
        return ["PCls.noneType"]
    if (isinstance(test, ast.Call) and isinstance(test.func, ast.Name) and test.func.id == "isinstance"
            and len(test.args) == 2 and not test.keywords and isinstance(test.args[0], ast.Name) and test.args[0].id == param):
        def classes(t) -> List[str]:
            if isinstance(t, ast.Tuple):
                return [c for x in t.elts for c in classes(x)]
            if isinstance(t, ast.BinOp) and isinstance(t.op, ast.BitOr):
                return classes(t.left) + classes(t.right)
            return [lean_cls(t)]
        return classes(test.args[1])
    raise TranslationError(f"test outside the subset: {ast.unparse(test)}")


def is_class_test(test, param: str) -> bool:
    """syntactically a class test on `param` (the classes themselves are checked by test_classes)"""
    if isinstance(test, ast.BoolOp) and isinstance(test.op, ast.Or):
        return all(is_class_test(v, param) for v in test.values)
    if isinstance(test, ast.Compare):
        return (len(test.ops) == 1 and isinstance(test.ops[0], ast.Is) and isinstance(test.left, ast.Name)
                and test.left.id == param and isinstance(test.comparators[0], ast.Constant)
                and test.comparators[0].value is None)
    return (isinstance(test, ast.Call) and isinstance(test.func, ast.Name) and test.func.id == "isinstance"
            and len(test.args) == 2 and isinstance(test.args[0], ast.Name) and test.args[0].id == param)


# --------------------------------------------------------------------------------------------------
# normalisation: a function body → a decision tree of `return` / `raise` leaves
#
# Every statement is either consumed with its exact meaning or the translation fails; nothing is skipped
# (docstrings and `pass` excepted).  The rewrites are the meaning-preserving ones a refactoring makes:
#   * `if T: …return…` followed by more statements  ==  `if T: … else: <the rest>`  (early returns)
#   * `return A if T else B`                        ==  `if T: return A else: return B`
#   * `name = <dotted name>` (an alias such as `to_python = CELJSONEncoder.to_python`) is substituted;
#     `name = <expression>` inside ONE straight-line block is substituted into its single later use
#     (a hoisted sub-expression) — never across an `if`, never when unused or used twice
#   * `acc = []` + `for x in it: acc.append(E)`     ==  `acc = [E for x in it]`
#     `acc = {}` + `for k, v in it: acc[K] = V`     ==  `acc = {K: V for k, v in it}`
#   * a call of a one-expression module-level function / method of the same class is inlined (one level)
# --------------------------------------------------------------------------------------------------

class Leaf:
    def __init__(self, kind: str, expr):
        self.kind, self.expr = kind, expr      # kind: "return" | "raise"


class Branch:
    def __init__(self, test, then, orelse):
        self.test, self.then, self.orelse = test, then, orelse


def _is_alias_value(e) -> bool:
    """a dotted name: evaluating it has no effect and cannot fail in a module that imports cleanly"""
    while isinstance(e, ast.Attribute):
        e = e.value
    return isinstance(e, ast.Name)


def _is_empty_list(e) -> bool:
    return (isinstance(e, ast.List) and not e.elts) or (isinstance(e, ast.Call) and ast.unparse(e) == "list()")


def _is_empty_dict(e) -> bool:
    return (isinstance(e, ast.Dict) and not e.keys) or (isinstance(e, ast.Call) and ast.unparse(e) == "dict()")


class _Env:
    """local name → (expression, is_alias); `uses` counts substitutions of hoisted (non-alias) expressions"""

    def __init__(self, parent: Optional["_Env"] = None):
        self.vars: Dict[str, Tuple[ast.expr, bool]] = dict(parent.vars) if parent else {}
        self.uses: Dict[str, int] = dict(parent.uses) if parent else {}

    def hoisted(self) -> List[str]:
        return [n for n, (_, alias) in self.vars.items() if not alias]


def _bound_names(e) -> set:
    out = set()
    for n in ast.walk(e):
        if isinstance(n, ast.comprehension):
            for t in ast.walk(n.target):
                if isinstance(t, ast.Name):
                    out.add(t.id)
        elif isinstance(n, ast.Lambda):
            raise TranslationError("lambda in a translated expression")
        elif isinstance(n, ast.NamedExpr):
            raise TranslationError("walrus assignment in a translated expression")
    return out


def _subst(e, env: _Env):
    """replace loads of local names by the expressions they stand for"""
    if e is None:
        return ast.Constant(value=None)
    clash = _bound_names(e) & set(env.vars)
    if clash:
        raise TranslationError(f"comprehension variable shadows a local: {sorted(clash)}")

    class T(ast.NodeTransformer):
        def visit_Name(self, n):
            if isinstance(n.ctx, ast.Load) and n.id in env.vars:
                val, alias = env.vars[n.id]
                if not alias:
                    env.uses[n.id] = env.uses.get(n.id, 0) + 1
                return copy.deepcopy(val)
            return n
    return T().visit(copy.deepcopy(e))


def _assign_parts(st) -> Optional[Tuple[str, ast.expr]]:
    if isinstance(st, ast.Assign) and len(st.targets) == 1 and isinstance(st.targets[0], ast.Name):
        return st.targets[0].id, st.value
    if isinstance(st, ast.AnnAssign) and isinstance(st.target, ast.Name) and st.value is not None and st.simple:
        return st.target.id, st.value
    return None


def _bind(env: _Env, name: str, value, param: str, fname: str) -> None:
    if name == param:
        raise TranslationError(f"{fname}: the parameter {param} is re-bound")
    if name in env.vars and not env.vars[name][1] and env.uses.get(name, 0) != 1:
        raise TranslationError(f"{fname}: local {name} is re-bound before its single use")
    v = _subst(value, env)
    env.vars[name] = (v, _is_alias_value(v))
    env.uses[name] = 0


def _loop_to_comprehension(st: ast.For, env: _Env, param: str, fname: str) -> None:
    """`for T in IT: [hoisted locals;] acc.append(E)` / `acc[K] = V` with `acc` bound to an empty list / dict"""
    if st.orelse or getattr(st, "type_comment", None):
        raise TranslationError(f"{fname}: for/else")
    targets = [n.id for n in ast.walk(st.target) if isinstance(n, ast.Name)]
    if not (isinstance(st.target, ast.Name) or (isinstance(st.target, ast.Tuple) and all(isinstance(x, ast.Name) for x in st.target.elts))):
        raise TranslationError(f"{fname}: loop target outside the subset")
    if param in targets or any(t in env.vars for t in targets):
        raise TranslationError(f"{fname}: loop variable shadows a local")
    it = _subst(st.iter, env)
    inner = _Env(env)
    body = [b for b in st.body if not isinstance(b, ast.Pass)]
    if not body:
        raise TranslationError(f"{fname}: empty loop")
    for b in body[:-1]:
        ap = _assign_parts(b)
        if ap is None or ap[0] in targets or ap[0] in env.vars:
            raise TranslationError(f"{fname}: loop body outside the subset: {ast.unparse(b)[:60]}")
        _bind(inner, ap[0], ap[1], param, fname)
    last = body[-1]
    gen = ast.comprehension(target=copy.deepcopy(st.target), iter=it, ifs=[], is_async=0)
    for t in ast.walk(gen.target):
        if isinstance(t, ast.Name):
            t.ctx = ast.Store()
    if (isinstance(last, ast.Expr) and isinstance(last.value, ast.Call) and isinstance(last.value.func, ast.Attribute)
            and last.value.func.attr == "append" and isinstance(last.value.func.value, ast.Name)
            and len(last.value.args) == 1 and not last.value.keywords):
        acc = last.value.func.value.id
        if acc not in env.vars or not _is_empty_list(env.vars[acc][0]) or env.uses.get(acc, 0) != 0:
            raise TranslationError(f"{fname}: {acc}.append(…) on something that is not a fresh empty list")
        new = ast.ListComp(elt=_subst(last.value.args[0], inner), generators=[gen])
    elif (isinstance(last, ast.Assign) and len(last.targets) == 1 and isinstance(last.targets[0], ast.Subscript)
          and isinstance(last.targets[0].value, ast.Name)):
        acc = last.targets[0].value.id
        if acc not in env.vars or not _is_empty_dict(env.vars[acc][0]) or env.uses.get(acc, 0) != 0:
            raise TranslationError(f"{fname}: {acc}[…] = … on something that is not a fresh empty dict")
        new = ast.DictComp(key=_subst(last.targets[0].slice, inner), value=_subst(last.value, inner), generators=[gen])
    else:
        raise TranslationError(f"{fname}: loop body outside the subset: {ast.unparse(last)[:60]}")
    for n in inner.hoisted():
        if n not in env.vars and inner.uses.get(n, 0) != 1:
            raise TranslationError(f"{fname}: loop local {n} is not used exactly once")
    env.vars[acc] = (ast.fix_missing_locations(new), False)
    env.uses[acc] = 0


def _check_hoisted_used(env: _Env, outer: _Env, fname: str) -> None:
    """at a leaf: every expression hoisted in this straight-line block has been substituted exactly once"""
    for n in env.hoisted():
        if n in outer.vars and outer.vars[n] is env.vars[n]:
            continue
        if env.uses.get(n, 0) != 1:
            raise TranslationError(f"{fname}: local {n} is evaluated but used {env.uses.get(n, 0)} times")


def build_tree(stmts, env: _Env, param: str, fname: str, block_env: Optional[_Env] = None):
    """statement list → Leaf | Branch"""
    env = _Env(env)
    start = block_env if block_env is not None else _Env(env)
    stmts = [s for s in stmts if not isinstance(s, ast.Pass)]
    for i, st in enumerate(stmts):
        rest = stmts[i + 1:]
        if isinstance(st, ast.Expr) and isinstance(st.value, ast.Constant):
            continue                                   # docstring / a bare constant: no effect
        ap = _assign_parts(st)
        if ap is not None:
            _bind(env, ap[0], ap[1], param, fname)
            continue
        if isinstance(st, ast.For):
            _loop_to_comprehension(st, env, param, fname)
            continue
        if isinstance(st, ast.Return):
            leaf = Leaf("return", _subst(st.value, env))
            _check_hoisted_used(env, start, fname)
            return leaf
        if isinstance(st, ast.Raise):
            if st.exc is None:
                raise TranslationError(f"{fname}: bare raise")
            leaf = Leaf("raise", _subst(st.exc, env))
            _check_hoisted_used(env, start, fname)
            return leaf
        if isinstance(st, ast.If):
            pending = [n for n in env.hoisted() if not (n in start.vars and start.vars[n] is env.vars[n])]
            if pending:
                raise TranslationError(f"{fname}: {pending} evaluated before an `if` (not a straight-line hoist)")
            test = _subst(st.test, env)
            return Branch(test, build_tree(list(st.body) + rest, env, param, fname),
                          build_tree(list(st.orelse) + rest, env, param, fname))
        raise TranslationError(f"{fname}: statement outside the subset: {ast.unparse(st)[:70]}")
    _check_hoisted_used(env, start, fname)
    return Leaf("return", ast.Constant(value=None))      # falling off the end


def split_ifexp(tree, param: str):
    """`return A if <class test> else B` is a branch; a branch on a non-class test whose arms are plain returns is
    the conditional expression"""
    if isinstance(tree, Leaf):
        e = tree.expr
        if tree.kind == "return" and isinstance(e, ast.IfExp) and is_class_test(e.test, param):
            return Branch(e.test, split_ifexp(Leaf("return", e.body), param), split_ifexp(Leaf("return", e.orelse), param))
        return tree
    then, orelse = split_ifexp(tree.then, param), split_ifexp(tree.orelse, param)
    if (not is_class_test(tree.test, param) and isinstance(then, Leaf) and isinstance(orelse, Leaf)
            and then.kind == orelse.kind == "return"):
        return Leaf("return", ast.IfExp(test=tree.test, body=then.expr, orelse=orelse.expr))
    return Branch(tree.test, then, orelse)


class Scope:
    """where one-expression helpers are looked up for inlining: the module and (for `Cls.f` / `self.f` / `cls.f`) a class"""

    def __init__(self, mod: ast.Module, cls: Optional[ast.ClassDef], keep: Tuple[str, ...]):
        self.mod, self.cls, self.keep = mod, cls, keep

    def lookup(self, func) -> Optional[Tuple[ast.FunctionDef, bool]]:
        """(definition, takes an implicit first argument)"""
        if isinstance(func, ast.Name):
            if func.id in self.keep:
                return None
            for n in self.mod.body:
                if isinstance(n, ast.FunctionDef) and n.name == func.id:
                    return n, False
            return None
        if (isinstance(func, ast.Attribute) and isinstance(func.value, ast.Name) and self.cls is not None
                and func.value.id in (self.cls.name, "self", "cls") and func.attr not in self.keep):
            for n in self.cls.body:
                if isinstance(n, ast.FunctionDef) and n.name == func.attr:
                    decos = {ast.unparse(d) for d in n.decorator_list}
                    if decos == {"staticmethod"}:
                        return n, False
                    if decos in (set(), {"classmethod"}) and func.value.id in ("self", "cls"):
                        return n, True
                    return None
        return None


def inline_helpers(e, scope: Scope, fname: str):
    """replace calls of one-expression helpers by their bodies (one level; arguments must be plain names / dotted names so
    that nothing is duplicated or dropped)"""
    class T(ast.NodeTransformer):
        def visit_Call(self, n):
            n = self.generic_visit(n)
            hit = scope.lookup(n.func)
            if hit is None:
                return n
            fn, implicit = hit
            a = fn.args
            if a.vararg or a.kwarg or a.kwonlyargs or a.posonlyargs or a.defaults or n.keywords or fn.decorator_list and not (
                    {ast.unparse(d) for d in fn.decorator_list} <= {"staticmethod", "classmethod"}):
                raise TranslationError(f"{fname}: helper {fn.name} has a signature outside the subset")
            params = [x.arg for x in a.args][1 if implicit else 0:]
            if len(params) != len(n.args) or not all(_is_alias_value(x) for x in n.args):
                raise TranslationError(f"{fname}: call of helper {fn.name} outside the subset: {ast.unparse(n)[:60]}")
            t = build_tree(fn.body, _Env(), params[0] if params else "", fn.name)
            if not (isinstance(t, Leaf) and t.kind == "return"):
                raise TranslationError(f"{fname}: helper {fn.name} is not a single expression")
            env = _Env()
            for p_, x in zip(params, n.args):
                env.vars[p_] = (x, True)
            if implicit and any(isinstance(m, ast.Name) and m.id == a.args[0].arg for m in ast.walk(t.expr)):
                raise TranslationError(f"{fname}: helper {fn.name} uses its implicit argument")
            return _subst(t.expr, env)
    return T().visit(copy.deepcopy(e))


def ladder(fn: ast.FunctionDef, param: str, scope: Optional[Scope] = None) -> Tuple[List[Tuple[List[str], Leaf]], Leaf]:
    """[(classes, leaf)], else-leaf — the first-match ladder the body of `fn` is equivalent to"""
    tree = split_ifexp(build_tree(fn.body, _Env(), param, fn.name), param)

    def inl(leaf: Leaf) -> Leaf:
        return Leaf(leaf.kind, inline_helpers(leaf.expr, scope, fn.name)) if scope is not None else leaf
    rungs = []
    node = tree
    while isinstance(node, Branch):
        if not isinstance(node.then, Leaf):
            raise TranslationError(f"{fn.name}: nested decision under `{ast.unparse(node.test)[:50]}`")
        rungs.append((test_classes(node.test, param), inl(node.then)))
        node = node.orelse
    return rungs, inl(node)


def single_expr(fn: ast.FunctionDef, param: str, scope: Optional[Scope] = None):
    """the one expression a function without decisions returns"""
    t = build_tree(fn.body, _Env(), param, fn.name)
    if not (isinstance(t, Leaf) and t.kind == "return"):
        raise TranslationError(f"{fn.name}: not a single return")
    return inline_helpers(t.expr, scope, fn.name) if scope is not None else t.expr


def is_name(e, name) -> bool:
    return isinstance(e, ast.Name) and e.id == name


def is_call_of(e, fnames, argname) -> bool:
    return (isinstance(e, ast.Call) and ast.unparse(e.func) in fnames and len(e.args) == 1 and not e.keywords
            and is_name(e.args[0], argname))


def _map_call_of(e, fnames, param) -> bool:
    """list(map(f, param))"""
    return (isinstance(e, ast.Call) and is_name(e.func, "list") and len(e.args) == 1 and not e.keywords
            and isinstance(e.args[0], ast.Call) and is_name(e.args[0].func, "map") and len(e.args[0].args) == 2
            and not e.args[0].keywords and ast.unparse(e.args[0].args[0]) in fnames and is_name(e.args[0].args[1], param))


def list_comp_of(e, fnames, param, genexp_ok: bool = False) -> bool:
    """[f(x) for x in param]   (also `list(f(x) for x in param)`, `list(map(f, param))`; a bare generator expression only where
    the consumer is a list constructor: genexp_ok)"""
    if isinstance(e, ast.Call) and is_name(e.func, "list") and len(e.args) == 1 and not e.keywords and isinstance(e.args[0], ast.GeneratorExp):
        e = e.args[0]
    elif _map_call_of(e, fnames, param):
        return True
    elif isinstance(e, ast.GeneratorExp) and not genexp_ok:
        return False
    if not (isinstance(e, (ast.ListComp, ast.GeneratorExp)) and len(e.generators) == 1):
        return False
    g = e.generators[0]
    return (not g.ifs and not g.is_async and isinstance(g.target, ast.Name) and is_name(g.iter, param)
            and is_call_of(e.elt, fnames, g.target.id))


def dict_comp_of(e, fnames, param) -> bool:
    """{f(k): f(v) for k, v in param.items()}"""
    if not (isinstance(e, ast.DictComp) and len(e.generators) == 1):
        return False
    g = e.generators[0]
    if g.ifs or g.is_async or not (isinstance(g.target, ast.Tuple) and len(g.target.elts) == 2
                                   and all(isinstance(x, ast.Name) for x in g.target.elts)):
        return False
    k, v = g.target.elts[0].id, g.target.elts[1].id
    if k == v or ast.unparse(g.iter) != f"{param}.items()":
        return False
    return is_call_of(e.key, fnames, k) and is_call_of(e.value, fnames, v)


def is_str_of(v, p: str) -> bool:
    """str(p) and its spellings: p.__str__(), f"{p}", f"{p!s}", format(p), "{}".format(p), "%s" % p"""
    if is_call_of(v, ("str", "format"), p):
        return True
    if isinstance(v, ast.JoinedStr) and len(v.values) == 1 and isinstance(v.values[0], ast.FormattedValue):
        fv = v.values[0]
        return is_name(fv.value, p) and fv.conversion in (-1, 115) and fv.format_spec is None
    return ast.unparse(v) in (f"{p}.__str__()", f"'{{}}'.format({p})", f"'{{0}}'.format({p})", f"'%s' % {p}", f"'%s' % ({p},)")


def is_b64_of(v, p: str) -> bool:
    """base64.b64encode(p).decode("ASCII") and its spellings (the output of b64encode is pure ASCII, so every ASCII-compatible
    codec gives the same text)"""
    txt = ast.unparse(v)
    for fn_ in ("base64.b64encode", "base64.standard_b64encode"):
        if txt == f"{fn_}({p}).decode()":
            return True
        for codec in ("'ASCII'", "'ascii'", "'utf-8'", "'UTF-8'", "'latin-1'", "'us-ascii'"):
            if txt in (f"{fn_}({p}).decode({codec})", f"str({fn_}({p}), {codec})"):
                return True
    return False


def gen_json_ladder() -> str:
    m = parse("src/celpy/adapter.py")
    out = [HEADER.format(src="src/celpy/adapter.py (json_to_cel, CELJSONEncoder, CELJSONDecoder), src/celpy/celtypes.py (class bases, valid_key_type, DurationType.__str__), src/celpy/evaluation.py (member_index handlers)"),
           "import Cel.Model.Json\nnamespace Cel.Gen\nopen Cel.JsonM (PCls Ctor ToPy DefaultAct)\n"]
    enc = find_class(m, "CELJSONEncoder")

    # ---- json_to_cel ------------------------------------------------------------------------------
    fn = find_func(m.body, "json_to_cel")
    if len(fn.args.args) != 1 or fn.decorator_list:
        raise TranslationError("json_to_cel: expected one parameter and no decorator")
    p = fn.args.args[0].arg
    rungs, orelse = ladder(fn, p, Scope(m, None, ("json_to_cel",)))
    items = []
    for classes, leaf in rungs:
        v = leaf.expr
        if leaf.kind != "return":
            raise TranslationError(f"json_to_cel: a rung raises: {ast.unparse(v)[:60]}")
        if isinstance(v, ast.Constant) and v.value is None:
            ctor = "none"
        elif isinstance(v, ast.Call) and len(v.args) == 1 and not v.keywords:
            cname = cls_name(v.func)
            if cname not in CTOR:
                raise TranslationError(f"json_to_cel: constructor {cname}")
            ctor = CTOR[cname]
            a = v.args[0]
            if ctor == "listType":
                if not list_comp_of(a, ("json_to_cel",), p, genexp_ok=True):
                    raise TranslationError(f"json_to_cel: ListType argument outside the subset: {ast.unparse(a)}")
            elif ctor == "mapType":
                if not dict_comp_of(a, ("json_to_cel",), p):
                    raise TranslationError(f"json_to_cel: MapType argument outside the subset: {ast.unparse(a)}")
            elif not is_name(a, p):
                raise TranslationError(f"json_to_cel: {cname} is not applied to the document itself: {ast.unparse(a)}")
        else:
            raise TranslationError(f"json_to_cel: return outside the subset: {ast.unparse(v)}")
        items.append(f"({lean_list(classes)}, Ctor.{ctor})")
    out.append("/-- the isinstance ladder of `adapter.json_to_cel`, in source order -/")
    out.append("def jsonLadder : List (List PCls × Ctor) :=\n  " + lean_list(items))
    if orelse.kind != "raise":
        raise TranslationError("json_to_cel: falling off the ladder is not a raise")
    exc = orelse.expr
    ename = ast.unparse(exc.func) if isinstance(exc, ast.Call) else ast.unparse(exc)
    out.append(f"def jsonLadderElse : Cel.Exc := {lean_exc(ename)}\n")

    # ---- CELJSONEncoder ----------------------------------------------------------------------------
    tp = find_func(enc.body, "to_python")
    if len(tp.args.args) != 1 or {ast.unparse(d) for d in tp.decorator_list} != {"staticmethod"}:
        raise TranslationError("to_python: expected a static method of one parameter")
    p = tp.args.args[0].arg
    keep = ("to_python", "default", "encode", "json_to_cel")
    rungs, orelse = ladder(tp, p, Scope(m, enc, keep))
    rec = ("CELJSONEncoder.to_python",)
    items = []
    for classes, leaf in rungs:
        v = leaf.expr
        if leaf.kind != "return":
            raise TranslationError(f"to_python: a rung raises: {ast.unparse(v)[:60]}")
        if (isinstance(v, ast.IfExp) and is_name(v.test, p) and isinstance(v.body, ast.Constant) and v.body.value is True
                and isinstance(v.orelse, ast.Constant) and v.orelse.value is False) or is_call_of(v, ("bool",), p):
            act = "bool"
        elif list_comp_of(v, rec, p):
            act = "list"
        elif dict_comp_of(v, rec, p):
            act = "dict"
        else:
            raise TranslationError(f"to_python: return outside the subset: {ast.unparse(v)}")
        items.append(f"({lean_list(classes)}, ToPy.{act})")
    if not (orelse.kind == "return" and is_name(orelse.expr, p)):
        raise TranslationError("to_python: else branch does not return the object itself")
    out.append("/-- the ladder of `CELJSONEncoder.to_python` (else: the object itself) -/")
    out.append("def toPythonLadder : List (List PCls × ToPy) :=\n  " + lean_list(items) + "\n")

    df = find_func(enc.body, "default")
    if len(df.args.args) != 2 or df.decorator_list:
        raise TranslationError("default: expected (self, obj)")
    p = df.args.args[1].arg
    rungs, orelse = ladder(df, p, Scope(m, enc, keep))
    items = []
    for classes, leaf in rungs:
        v = leaf.expr
        if leaf.kind != "return":
            raise TranslationError(f"default: a rung raises: {ast.unparse(v)[:60]}")
        if isinstance(v, ast.Call) and ast.unparse(v.func) == "cast" and len(v.args) == 2 and not v.keywords:
            v = v.args[1]                                    # typing.cast is the identity
        if is_str_of(v, p):
            act = "strOf"
        elif is_b64_of(v, p):
            act = "base64"
        else:
            raise TranslationError(f"default: return outside the subset: {ast.unparse(v)}")
        items.append(f"({lean_list(classes)}, DefaultAct.{act})")
    sup = (f"super().default({p})", f"json.JSONEncoder.default(self, {p})", f"super(CELJSONEncoder, self).default({p})")
    ev_ = orelse.expr
    if isinstance(ev_, ast.Call) and ast.unparse(ev_.func) == "cast" and len(ev_.args) == 2:
        ev_ = ev_.args[1]
    ok_else = ((orelse.kind == "return" and ast.unparse(ev_) in sup)
               or (orelse.kind == "raise" and (ast.unparse(ev_.func) if isinstance(ev_, ast.Call) else ast.unparse(ev_)) == "TypeError"))
    if not ok_else:
        raise TranslationError("default: else branch is neither `return super().default(obj)` nor `raise TypeError`")
    out.append("/-- the ladder of `CELJSONEncoder.default` (else: `super().default`, TypeError) -/")
    out.append("def defaultLadder : List (List PCls × DefaultAct) :=\n  " + lean_list(items) + "\n")

    en = find_func(enc.body, "encode")
    if len(en.args.args) != 2 or en.decorator_list:
        raise TranslationError("encode: expected (self, obj)")
    p = en.args.args[1].arg
    e_ = ast.unparse(single_expr(en, p, Scope(m, enc, keep)))
    tops = (f"CELJSONEncoder.to_python({p})", f"self.to_python({p})")
    good = e_ in [w % t for t in tops for w in ("super().encode(%s)", "json.JSONEncoder.encode(self, %s)", "super(CELJSONEncoder, self).encode(%s)")]
    out.append("/-- `CELJSONEncoder.encode` is `super().encode(to_python(obj))` -/")
    out.append(f"def encodeAppliesToPython : Bool := {'true' if good else 'false'}\n")

    # ---- CELJSONDecoder.decode = json_to_cel ∘ json's decode -------------------------------------------
    dec = find_class(m, "CELJSONDecoder")
    dd = find_func(dec.body, "decode")
    if len(dd.args.args) < 2 or dd.decorator_list:
        raise TranslationError("decode: expected (self, source, …)")
    p = dd.args.args[1].arg
    e_ = ast.unparse(single_expr(dd, p, Scope(m, dec, ("decode", "json_to_cel"))))
    good = e_ in [f"json_to_cel({w})" for w in (f"super().decode({p})", f"json.JSONDecoder.decode(self, {p})", f"super(CELJSONDecoder, self).decode({p})")]
    out.append("/-- `CELJSONDecoder.decode` is `json_to_cel(super().decode(source))` -/")
    out.append(f"def decodeAppliesJsonToCel : Bool := {'true' if good else 'false'}\n")

    # ---- celtypes: class bases and valid_key_type ---------------------------------------------------
    ct = parse("src/celpy/celtypes.py")
    bases = []
    for cname in ("BoolType", "IntType", "UintType", "DoubleType", "StringType", "BytesType", "ListType", "MapType",
                  "TimestampType", "DurationType", "MessageType", "PackageType"):
        c = find_class(ct, cname)
        if len(c.bases) != 1:
            raise TranslationError(f"class {cname}: expected one base class")
        bases.append(f"(PCls.{PY_CLS[cname]}, {lean_cls(c.bases[0])})")
    out.append("/-- (class, its base class) for the celtypes wrappers -/")
    out.append("def clsBases : List (PCls × PCls) :=\n  " + lean_list(bases) + "\n")
    mt = find_class(ct, "MapType")
    vk = find_func(mt.body, "valid_key_type")
    kp = vk.args.args[0].arg
    out.append("def validKeyClasses : List PCls := " + lean_list(test_classes(single_expr(vk, kp, Scope(ct, mt, ("valid_key_type",))), kp)) + "\n")

    # ---- DurationType.__str__: which integer number of seconds is written ---------------------------------
    ds = find_func(find_class(ct, "DurationType").body, "__str__")
    if len(ds.args.args) != 1 or ds.decorator_list:
        raise TranslationError("DurationType.__str__: expected (self)")
    sp = ds.args.args[0].arg
    e = single_expr(ds, sp, None)
    txt = ast.unparse(e)
    secs = None
    for pre, post in (("'{0}s'.format(", ")"), ("'{}s'.format(", ")"), ("'%ds' % ", ""), ("'%ss' % ", ""), ("str(", ") + 's'")):
        if txt.startswith(pre) and txt.endswith(post) and len(txt) > len(pre) + len(post):
            secs = txt[len(pre):len(txt) - len(post)]
            break
    if secs is None and isinstance(e, ast.JoinedStr) and len(e.values) == 2 and isinstance(e.values[0], ast.FormattedValue) \
            and e.values[0].conversion == -1 and e.values[0].format_spec is None \
            and isinstance(e.values[1], ast.Constant) and e.values[1].value == "s":
        secs = ast.unparse(e.values[0].value)
    one_s = ("timedelta(seconds=1)", "datetime.timedelta(seconds=1)")
    if secs in (f"int({sp}.total_seconds())", f"math.trunc({sp}.total_seconds())", f"int(datetime.timedelta.total_seconds({sp}))"):
        body = "(Cel.Time.totalSeconds us).trunc"         # binary64 quotient, truncated toward zero
    elif secs in [f"{sp} // {o}" for o in one_s] + [f"({sp} // {o})" for o in one_s]:
        body = "us / 1000000"                              # exact floor division (divisor positive)
    else:
        raise TranslationError(f"DurationType.__str__ outside the subset: {txt}")
    out.append("/-- the number `DurationType.__str__` writes before the `s`, for a duration of `us` microseconds -/")
    out.append(f"def durSeconds (us : Int) : Int := {body}\n")

    # ---- evaluation: member_index handlers -----------------------------------------------------------
    ev = parse("src/celpy/evaluation.py")
    f = find_func(find_class(ev, "Evaluator").body, "member_index")
    hs = []
    for node in ast.walk(f):
        if isinstance(node, ast.Try):
            for h in node.handlers:
                hs += exc_names(h.type)
    out.append("def handlers_member_index : List Cel.Exc := " + lean_list([lean_exc(c) for c in hs]))
    out.append("\nend Cel.Gen\n")
    return "\n".join(out)


GENERATORS = {"JsonLadder": gen_json_ladder}
