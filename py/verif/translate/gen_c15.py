"""Generator for Gen/JsonLadder.lean (C15): the isinstance ladders of `adapter.json_to_cel`,
`CELJSONEncoder.to_python`, `CELJSONEncoder.default`, the shape of `CELJSONEncoder.encode`, the base
classes of the celtypes wrappers, `MapType.valid_key_type`'s class tuple and the `except` classes of
`Evaluator.member_index` — all read from /repo's current working tree.

Subset: an `if/elif/else` chain whose tests are `isinstance(<param>, T)`, `isinstance(<param>, (T1, …))`
or `<param> is None`, and whose bodies are a single `return` of one of the recognised shapes.  Anything
else is a TranslationError (handled like a broken bridge)."""
from __future__ import annotations
import ast
from typing import List, Tuple
from .py2lean import TranslationError, find_class, find_func, strip_doc, lean_list
from .common import parse, HEADER, exc_names, lean_exc

PY_CLS = {
    "object": "object", "bool": "bool", "int": "int", "float": "float", "str": "str", "bytes": "bytes",
    "list": "list", "List": "list", "tuple": "tuple", "Tuple": "tuple", "dict": "dict", "Dict": "dict",
    "datetime.datetime": "datetime", "datetime.timedelta": "timedelta",
    "BoolType": "boolType", "IntType": "intType", "UintType": "uintType", "DoubleType": "doubleType",
    "StringType": "stringType", "BytesType": "bytesType", "ListType": "listType", "MapType": "mapType",
    "TimestampType": "timestampType", "DurationType": "durationType", "MessageType": "messageType",
    "PackageType": "packageType",
}
CTOR = {"BoolType": "boolType", "DoubleType": "doubleType", "IntType": "intType", "StringType": "stringType",
        "ListType": "listType", "MapType": "mapType", "TimestampType": "timestampType", "DurationType": "durationType"}


def cls_name(e) -> str:
    """`celtypes.X`, `celpy.celtypes.X`, `X`, `datetime.datetime`, `List[...]` → key of PY_CLS"""
    if isinstance(e, ast.Subscript):
        e = e.value
    txt = ast.unparse(e)
    for pre in ("celpy.celtypes.", "celtypes."):
        if txt.startswith(pre):
            txt = txt[len(pre):]
    if txt not in PY_CLS:
        raise TranslationError(f"class {txt!r} is outside the modelled lattice")
    return txt


def lean_cls(e) -> str:
    return "PCls." + PY_CLS[cls_name(e)]


def test_classes(test, param: str) -> List[str]:
    """the class list of one rung's test"""
    if (isinstance(test, ast.Compare) and len(test.ops) == 1 and isinstance(test.ops[0], ast.Is)
            and isinstance(test.left, ast.Name) and test.left.id == param
            and isinstance(test.comparators[0], ast.Constant) and test.comparators[0].value is None):
        return ["PCls.noneType"]
    if (isinstance(test, ast.Call) and isinstance(test.func, ast.Name) and test.func.id == "isinstance"
            and len(test.args) == 2 and isinstance(test.args[0], ast.Name) and test.args[0].id == param):
        t = test.args[1]
        if isinstance(t, ast.Tuple):
            return [lean_cls(x) for x in t.elts]
        return [lean_cls(t)]
    raise TranslationError(f"test outside the subset: {ast.unparse(test)}")


def ladder(fn: ast.FunctionDef, param: str) -> Tuple[List[Tuple[List[str], ast.stmt]], List[ast.stmt]]:
    """[(classes, return-statement)], else-body"""
    body = strip_doc(fn.body)
    if len(body) != 1 or not isinstance(body[0], ast.If):
        raise TranslationError(f"{fn.name}: body is not a single if/elif/else ladder")
    rungs = []
    node = body[0]
    while True:
        if len(node.body) != 1 or not isinstance(node.body[0], ast.Return):
            raise TranslationError(f"{fn.name}: a rung is not a single return: {ast.unparse(node.body[0])[:60]}")
        rungs.append((test_classes(node.test, param), node.body[0]))
        if len(node.orelse) == 1 and isinstance(node.orelse[0], ast.If):
            node = node.orelse[0]
        else:
            return rungs, node.orelse


def is_name(e, name) -> bool:
    return isinstance(e, ast.Name) and e.id == name


def is_call_of(e, fnames, argname) -> bool:
    return (isinstance(e, ast.Call) and ast.unparse(e.func) in fnames and len(e.args) == 1 and not e.keywords
            and is_name(e.args[0], argname))


def list_comp_of(e, fnames, param) -> bool:
    """[f(x) for x in param]"""
    if not (isinstance(e, ast.ListComp) and len(e.generators) == 1):
        return False
    g = e.generators[0]
    return (not g.ifs and isinstance(g.target, ast.Name) and is_name(g.iter, param)
            and is_call_of(e.elt, fnames, g.target.id))


def dict_comp_of(e, fnames, param) -> bool:
    """{f(k): f(v) for k, v in param.items()}"""
    if not (isinstance(e, ast.DictComp) and len(e.generators) == 1):
        return False
    g = e.generators[0]
    if g.ifs or not (isinstance(g.target, ast.Tuple) and len(g.target.elts) == 2
                     and all(isinstance(x, ast.Name) for x in g.target.elts)):
        return False
    k, v = g.target.elts[0].id, g.target.elts[1].id
    if ast.unparse(g.iter) != f"{param}.items()":
        return False
    return is_call_of(e.key, fnames, k) and is_call_of(e.value, fnames, v)


def gen_json_ladder() -> str:
    m = parse("src/celpy/adapter.py")
    out = [HEADER.format(src="src/celpy/adapter.py (json_to_cel, CELJSONEncoder), src/celpy/celtypes.py (class bases, valid_key_type), src/celpy/evaluation.py (member_index handlers)"),
           "import Cel.Model.Json\nnamespace Cel.Gen\nopen Cel.JsonM (PCls Ctor ToPy DefaultAct)\n"]

    # ---- json_to_cel ------------------------------------------------------------------------------
    fn = find_func(m.body, "json_to_cel")
    if len(fn.args.args) != 1:
        raise TranslationError("json_to_cel: expected one parameter")
    p = fn.args.args[0].arg
    rungs, orelse = ladder(fn, p)
    items = []
    for classes, ret in rungs:
        v = ret.value
        if isinstance(v, ast.Constant) and v.value is None:
            ctor = "none"
        elif isinstance(v, ast.Call) and len(v.args) == 1 and not v.keywords:
            cname = cls_name(v.func)
            if cname not in CTOR:
                raise TranslationError(f"json_to_cel: constructor {cname}")
            ctor = CTOR[cname]
            a = v.args[0]
            if ctor == "listType":
                if not list_comp_of(a, ("json_to_cel",), p):
                    raise TranslationError(f"json_to_cel: ListType argument outside the subset: {ast.unparse(a)}")
            elif ctor == "mapType":
                if not dict_comp_of(a, ("json_to_cel",), p):
                    raise TranslationError(f"json_to_cel: MapType argument outside the subset: {ast.unparse(a)}")
            elif not is_name(a, p):
                raise TranslationError(f"json_to_cel: {cname} is not applied to the document itself: {ast.unparse(a)}")
        else:
            raise TranslationError(f"json_to_cel: return outside the subset: {ast.unparse(ret)}")
        items.append(f"({lean_list(classes)}, Ctor.{ctor})")
    out.append("/-- the isinstance ladder of `adapter.json_to_cel`, in source order -/")
    out.append("def jsonLadder : List (List PCls × Ctor) :=\n  " + lean_list(items))
    if not (len(orelse) == 1 and isinstance(orelse[0], ast.Raise)):
        raise TranslationError("json_to_cel: else branch is not a single raise")
    exc = orelse[0].exc
    ename = ast.unparse(exc.func) if isinstance(exc, ast.Call) else ast.unparse(exc)
    out.append(f"def jsonLadderElse : Cel.Exc := {lean_exc(ename)}\n")

    # ---- CELJSONEncoder ----------------------------------------------------------------------------
    enc = find_class(m, "CELJSONEncoder")
    tp = find_func(enc.body, "to_python")
    p = tp.args.args[0].arg
    rungs, orelse = ladder(tp, p)
    rec = ("CELJSONEncoder.to_python", "to_python", "cls.to_python")
    items = []
    for classes, ret in rungs:
        v = ret.value
        if (isinstance(v, ast.IfExp) and is_name(v.test, p) and isinstance(v.body, ast.Constant) and v.body.value is True
                and isinstance(v.orelse, ast.Constant) and v.orelse.value is False) or is_call_of(v, ("bool",), p):
            act = "bool"
        elif list_comp_of(v, rec, p):
            act = "list"
        elif dict_comp_of(v, rec, p):
            act = "dict"
        else:
            raise TranslationError(f"to_python: return outside the subset: {ast.unparse(ret)}")
        items.append(f"({lean_list(classes)}, ToPy.{act})")
    if not (len(orelse) == 1 and isinstance(orelse[0], ast.Return) and is_name(orelse[0].value, p)):
        raise TranslationError("to_python: else branch does not return the object itself")
    out.append("/-- the ladder of `CELJSONEncoder.to_python` (else: the object itself) -/")
    out.append("def toPythonLadder : List (List PCls × ToPy) :=\n  " + lean_list(items) + "\n")

    df = find_func(enc.body, "default")
    p = df.args.args[1].arg
    rungs, orelse = ladder(df, p)
    items = []
    for classes, ret in rungs:
        v = ret.value
        if is_call_of(v, ("str",), p):
            act = "strOf"
        elif ast.unparse(v) in (f"base64.b64encode({p}).decode('ASCII')", f"base64.b64encode({p}).decode('ascii')",
                                f"base64.b64encode({p}).decode()", f"base64.standard_b64encode({p}).decode('ASCII')"):
            act = "base64"
        else:
            raise TranslationError(f"default: return outside the subset: {ast.unparse(ret)}")
        items.append(f"({lean_list(classes)}, DefaultAct.{act})")
    ok_else = (len(orelse) == 1 and isinstance(orelse[0], ast.Return)
               and f"super().default({p})" in ast.unparse(orelse[0].value))
    if not ok_else:
        raise TranslationError("default: else branch is not `return super().default(obj)`")
    out.append("/-- the ladder of `CELJSONEncoder.default` (else: `super().default`, TypeError) -/")
    out.append("def defaultLadder : List (List PCls × DefaultAct) :=\n  " + lean_list(items) + "\n")

    en = find_func(enc.body, "encode")
    p = en.args.args[1].arg
    body = strip_doc(en.body)
    good = (len(body) == 1 and isinstance(body[0], ast.Return)
            and ast.unparse(body[0].value) in (f"super().encode(CELJSONEncoder.to_python({p}))", f"super().encode(self.to_python({p}))"))
    out.append("/-- `CELJSONEncoder.encode` is `super().encode(to_python(obj))` -/")
    out.append(f"def encodeAppliesToPython : Bool := {'true' if good else 'false'}\n")

    # ---- celtypes: class bases and valid_key_type ---------------------------------------------------
    ct = parse("src/celpy/celtypes.py")
    bases = []
    for cname in ("BoolType", "IntType", "UintType", "DoubleType", "StringType", "BytesType", "ListType", "MapType",
                  "TimestampType", "DurationType", "MessageType", "PackageType"):
        c = find_class(ct, cname)
        if len(c.bases) != 1:
            raise TranslationError(f"class {cname}: expected one base class")
        bases.append(f"(PCls.{PY_CLS[cname]}, {lean_cls(c.bases[0])})")
    out.append("/-- (class, its base class) for the celtypes wrappers -/")
    out.append("def clsBases : List (PCls × PCls) :=\n  " + lean_list(bases) + "\n")
    vk = find_func(find_class(ct, "MapType").body, "valid_key_type")
    body = strip_doc(vk.body)
    if len(body) != 1 or not isinstance(body[0], ast.Return):
        raise TranslationError("valid_key_type: not a single return")
    out.append("def validKeyClasses : List PCls := " + lean_list(test_classes(body[0].value, vk.args.args[0].arg)) + "\n")

    # ---- evaluation: member_index handlers -----------------------------------------------------------
    ev = parse("src/celpy/evaluation.py")
    f = find_func(find_class(ev, "Evaluator").body, "member_index")
    hs = []
    for node in ast.walk(f):
        if isinstance(node, ast.Try):
            for h in node.handlers:
                hs += exc_names(h.type)
    out.append("def handlers_member_index : List Cel.Exc := " + lean_list([lean_exc(c) for c in hs]))
    out.append("\nend Cel.Gen\n")
    return "\n".join(out)


GENERATORS = {"JsonLadder": gen_json_ladder}
