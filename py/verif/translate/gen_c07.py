"""Generator for Gen/Str.lean (C07): the literal-decoding tables of evaluation.py and the literal
terminals of cel.lark, re-read from the working tree on every run.

  * `CEL_ESCAPES_PAT = re.compile(<str>, <flags>)`  -> pattern source, DOTALL flag, other flags
  * `CEL_ESCAPES = {…}`                               -> association list
  * the `*_LIT` terminals of cel.lark                  -> the regular expression lark's lexer compiles for
                                                         each (lark itself expands the sub-terminals)
  * `except` clauses of `Evaluator.literal` and of the try blocks around celstr()/celbytes() in
    `Phase1Transpiler.literal`                         -> exception class lists
"""
from __future__ import annotations
import ast
from typing import List, Tuple

from .py2lean import TranslationError, find_class, find_func, lean_str, lean_list
from .common import parse, read, HEADER, exc_names, lean_exc

FLAG_ALIASES = {"S": "DOTALL", "I": "IGNORECASE", "M": "MULTILINE", "X": "VERBOSE", "A": "ASCII", "L": "LOCALE", "U": "UNICODE"}


def _assigned(mod: ast.Module, name: str) -> ast.expr:
    hits = [n for n in mod.body if isinstance(n, ast.Assign) and len(n.targets) == 1
            and isinstance(n.targets[0], ast.Name) and n.targets[0].id == name]
    hits += [n for n in mod.body if isinstance(n, ast.AnnAssign) and isinstance(n.target, ast.Name)
             and n.target.id == name and n.value is not None]
    if len(hits) != 1:
        raise TranslationError(f"expected exactly one module-level assignment of {name}, found {len(hits)}")
    return hits[0].value


def _const_str(node: ast.expr, what: str) -> str:
    if isinstance(node, ast.Constant) and isinstance(node.value, str):
        return node.value
    if isinstance(node, ast.BinOp) and isinstance(node.op, ast.Add):
        return _const_str(node.left, what) + _const_str(node.right, what)
    raise TranslationError(f"{what}: not a string constant ({ast.dump(node)[:80]})")


def _flag_names(node: ast.expr) -> List[str]:
    if isinstance(node, ast.BinOp) and isinstance(node.op, ast.BitOr):
        return _flag_names(node.left) + _flag_names(node.right)
    if isinstance(node, ast.Attribute) and isinstance(node.value, ast.Name) and node.value.id == "re":
        return [FLAG_ALIASES.get(node.attr, node.attr)]
    if isinstance(node, ast.Constant) and node.value == 0:
        return []
    raise TranslationError(f"CEL_ESCAPES_PAT flags: unsupported expression {ast.unparse(node)}")


def escapes_pat(mod: ast.Module) -> Tuple[str, List[str]]:
    call = _assigned(mod, "CEL_ESCAPES_PAT")
    if not (isinstance(call, ast.Call) and ast.unparse(call.func) == "re.compile" and 1 <= len(call.args) <= 2):
        raise TranslationError("CEL_ESCAPES_PAT is not `re.compile(pattern[, flags])`")
    src = _const_str(call.args[0], "CEL_ESCAPES_PAT pattern")
    flags: List[str] = []
    if len(call.args) == 2:
        flags += _flag_names(call.args[1])
    for kw in call.keywords:
        if kw.arg != "flags":
            raise TranslationError(f"CEL_ESCAPES_PAT: keyword {kw.arg}")
        flags += _flag_names(kw.value)
    return src, sorted(set(flags))


def escapes_table(mod: ast.Module) -> List[Tuple[str, str]]:
    d = _assigned(mod, "CEL_ESCAPES")
    if not isinstance(d, ast.Dict):
        raise TranslationError("CEL_ESCAPES is not a dict display")
    out = []
    for k, v in zip(d.keys, d.values):
        if k is None:
            raise TranslationError("CEL_ESCAPES: ** unpacking")
        out.append((_const_str(k, "CEL_ESCAPES key"), _const_str(v, "CEL_ESCAPES value")))
    if len({k for k, _ in out}) != len(out):
        raise TranslationError("CEL_ESCAPES: duplicate key")
    return sorted(out)          # a dict: the order of the display does not matter


def lit_terminals() -> List[Tuple[str, str]]:
    import lark
    try:
        p = lark.Lark(read("src/celpy/cel.lark"), parser="lalr", start="expr")
    except Exception as ex:
        raise TranslationError(f"cel.lark does not load: {type(ex).__name__}: {str(ex)[:120]}")
    out = []
    for t in p.terminals:
        if t.name.endswith("_LIT"):
            if t.pattern.flags:
                raise TranslationError(f"terminal {t.name} has flags {sorted(t.pattern.flags)}")
            out.append((t.name, t.pattern.to_regexp()))
    return sorted(out)


def literal_alternatives() -> List[str]:
    """token types the `literal` rule accepts (the grammar line itself)"""
    import lark
    p = lark.Lark(read("src/celpy/cel.lark"), parser="lalr", start="expr")
    alts = []
    for r in p.rules:
        if r.origin.name == "literal":
            if len(r.expansion) != 1:
                raise TranslationError("literal: alternative with more than one symbol")
            alts.append(r.expansion[0].name)
    return sorted(alts)


def handlers_of(fn: ast.FunctionDef) -> List[List[str]]:
    out = []
    for node in ast.walk(fn):
        if isinstance(node, ast.Try):
            hs: List[str] = []
            for h in node.handlers:
                hs += exc_names(h.type)
            called = sorted({ast.unparse(c.func) for b in node.body for c in ast.walk(b) if isinstance(c, ast.Call)})
            out.append((called, hs))
    return out


def gen_str() -> str:
    ev = parse("src/celpy/evaluation.py")
    src, flags = escapes_pat(ev)
    table = escapes_table(ev)
    out = [HEADER.format(src="src/celpy/evaluation.py (CEL_ESCAPES_PAT, CEL_ESCAPES, Evaluator.literal, Phase1Transpiler.literal), src/celpy/cel.lark (*_LIT terminals)"),
           "import Cel.Model.Basic\nnamespace Cel.Gen.Str\n"]
    out.append("/-- `CEL_ESCAPES_PAT.pattern` -/")
    out.append(f"def celEscapesPatSource : String := {lean_str(src)}")
    out.append("/-- is the pattern compiled with `re.DOTALL`? -/")
    out.append(f"def celEscapesPatDotall : Bool := {'true' if 'DOTALL' in flags else 'false'}")
    out.append("/-- any other `re` flag of the pattern -/")
    out.append("def celEscapesPatOtherFlags : List String := " + lean_list([lean_str(f) for f in flags if f != "DOTALL"]))
    out.append("/-- `CEL_ESCAPES` -/")
    out.append("def celEscapes : List (String × String) := " + lean_list([f"({lean_str(k)}, {lean_str(v)})" for k, v in table]))
    out.append("/-- regular expressions lark compiles for the literal terminals of cel.lark -/")
    out.append("def litTerminals : List (String × String) := [\n  " + ",\n  ".join(
        f"({lean_str(n)}, {lean_str(r)})" for n, r in lit_terminals()) + "]")
    out.append("/-- token types accepted by the grammar rule `literal` -/")
    out.append("def literalAlternatives : List String := " + lean_list([lean_str(a) for a in literal_alternatives()]))
    # interpreter: the except clauses of Evaluator.literal
    lit = find_func(find_class(ev, "Evaluator").body, "literal")
    hs = [h for _, hh in handlers_of(lit) for h in hh]
    out.append("/-- exception classes `Evaluator.literal` turns into a CELEvalError value -/")
    out.append("def handlers_literal : List Cel.Exc := " + lean_list([lean_exc(c) for c in hs]))
    # transpiler: which exception classes are caught around celstr()/celbytes()
    tl = find_func(find_class(ev, "Phase1Transpiler").body, "literal")
    for fn in ("celstr", "celbytes"):
        caught: List[str] = []
        for called, hh in handlers_of(tl):
            if fn in called:
                caught += hh
        out.append(f"/-- exception classes of `{fn}()` that `Phase1Transpiler.literal` defers to evaluation time -/")
        out.append(f"def transpiler_{fn}_deferred : List Cel.Exc := " + lean_list([lean_exc(c) for c in caught]))
    out.append("\nend Cel.Gen.Str\n")
    return "\n".join(out)


# ------------------------------------------------------------------------------------------------
# Gen/Lex.lean: the syntax trees Python's own regex parser builds for the literal terminals
# ------------------------------------------------------------------------------------------------

LEX_TERMINALS = ("BYTES_LIT", "FLOAT_LIT", "INT_LIT", "MLSTRING_LIT", "STRING_LIT", "UINT_LIT")


def _set_items(items) -> str:
    from re import _constants as C
    rs = []
    for op, av in items:
        if op is C.LITERAL:
            rs.append((av, av))
        elif op is C.RANGE:
            rs.append((av[0], av[1]))
        elif op is C.CATEGORY and av is C.CATEGORY_DIGIT:
            rs.append((48, 57))          # `\d`, read as [0-9] (see Cel.Model.Lex)
        else:
            raise TranslationError(f"character set item {op} {av!r} is outside the modelled regex subset")
    return "[" + ", ".join(f"({a}, {b})" for a, b in rs) + "]"


def _re_item(op, av) -> str:
    from re import _constants as C
    if op is C.LITERAL:
        return f"lit {av}"
    if op is C.IN:
        return "set " + _set_items(av)
    if op is C.ANY:
        return "dot"
    if op is C.BRANCH:
        return "alts [" + ", ".join(_re_seq(b) for b in av[1]) + "]"
    if op is C.SUBPATTERN:
        group, add_flags, del_flags, sub = av
        if add_flags or del_flags:
            raise TranslationError("inline flags in a terminal regex")
        return _re_seq(sub)              # groups are not referred to: capturing or not makes no difference to the match
    if op in (C.MAX_REPEAT, C.MIN_REPEAT):
        lo, hi, sub = av
        greedy = op is C.MAX_REPEAT
        body = _re_seq(sub)
        inf = hi is C.MAXREPEAT
        if greedy and (lo, hi) == (0, 1):
            return f"opt ({body})"
        if greedy and lo == 0 and inf:
            return f"many ({body})"
        if greedy and lo == 1 and inf:
            return f"plus ({body})"
        if not greedy and lo == 0 and inf:
            return f"manyLazy ({body})"
        if lo == hi and 1 <= lo <= 16:
            return f"rep {lo} ({body})"   # greedy and lazy coincide for a fixed count
        raise TranslationError(f"repetition {{{lo},{hi}}}{'' if greedy else '?'} is outside the modelled regex subset")
    raise TranslationError(f"regex construct {op} is outside the modelled subset")


def _re_seq(sub) -> str:
    items = [_re_item(op, av) for op, av in sub]
    if len(items) == 1:
        return items[0]
    return "seqs [" + ", ".join(items) + "]"


def re_to_lean(regex: str) -> str:
    """`re._parser.parse(regex)` (the tree `re.compile` itself compiles) as a `Cel.Lex.Re` term"""
    from re import _parser
    try:
        tree = _parser.parse(regex)
    except Exception as ex:
        raise TranslationError(f"terminal regex does not parse: {ex}")
    if tree.state.flags & ~__import__("re").UNICODE:
        raise TranslationError("terminal regex sets flags")
    return _re_seq(tree)


def gen_lex() -> str:
    terms = dict(lit_terminals())
    out = [HEADER.format(src="src/celpy/cel.lark (*_LIT terminals, parsed by Python's re._parser)"),
           "import Cel.Model.Lex\nnamespace Cel.Gen.Lex\nopen Cel.Lex\n"]
    names = []
    for n in LEX_TERMINALS:
        if n not in terms:
            raise TranslationError(f"cel.lark has no terminal {n}")
        out.append(f"/-- {n} -/")
        out.append(f"def t_{n} : Re := {re_to_lean(terms[n])}")
        names.append(f"({lean_str(n)}, t_{n})")
    out.append("def terminals : List (String × Re) := " + lean_list(names))
    out.append("\nend Cel.Gen.Lex\n")
    return "\n".join(out)


GENERATORS = {"Str": gen_str, "Lex": gen_lex}
