"""py2lean, float dialect (C01, round 2): the arithmetic dunders of `celtypes.DoubleType` over an ABSTRACT host
float `H : Cel.HostFloat F` (Model/Num2.lean).  What is extracted is the *shape* of each operator —
which host operation it applies to which operands in which order, whether the zero-divisor test guards the
division, what `DoubleType(<python float>)` does to the result — nothing about IEEE-754 itself is assumed.

Subset: parameters; `cast(T, x)`, `float(x)` (identity on a float); `DoubleType(e)` (→ `wrap`, the path a plain
Python float takes through `__new__`, found by following the tests); `super().__op__(x)` / `float.__op__(self, x)`;
`+ - * /` and unary minus on plain floats (results of `float(...)`, locals) — never directly on `self`/`other`
(that would re-enter the dunders); `_ieee_divide_by_zero(a, b)` (→ `H.divZero`); tests `x == 0.0`, `x != 0.0`,
`not`, `and`, `or`; assignments to locals; `if`/`else`, early returns; the guard
`if r is NotImplemented: return NotImplemented` is dropped (it cannot fire for two float operands)."""
from __future__ import annotations
import ast
from typing import Dict, List, Optional, Tuple

from .py2lean import TranslationError, find_class, find_func, strip_doc, is_logger_call
from .py2lean_int import _test_on_plain_int, NOT_INT_CLASSES

DBL_DUNDERS = ["__neg__", "__add__", "__radd__", "__sub__", "__rsub__", "__mul__", "__rmul__", "__truediv__", "__rtruediv__"]
NOT_FLOAT_CLASSES = (NOT_INT_CLASSES - {"float"}) | {"int"}

BIN = {"__add__": "add", "__sub__": "sub", "__mul__": "mul", "__truediv__": "div"}
RBIN = {"__radd__": "add", "__rsub__": "sub", "__rmul__": "mul", "__rtruediv__": "div"}
OPS = {ast.Add: "add", ast.Sub: "sub", ast.Mult: "mul", ast.Div: "div"}


def _is_zero_const(e) -> bool:
    if isinstance(e, ast.UnaryOp) and isinstance(e.op, (ast.USub, ast.UAdd)):
        return _is_zero_const(e.operand)
    if isinstance(e, ast.Constant) and isinstance(e.value, (int, float)) and not isinstance(e.value, bool):
        return e.value == 0
    if isinstance(e, ast.Call) and isinstance(e.func, ast.Name) and e.func.id in ("float", "DoubleType") and len(e.args) == 1:
        return _is_zero_const(e.args[0])
    return False


class DblTr:
    def __init__(self, params: List[str]):
        self.self_name = params[0]
        self.instances = set(params)      # operand objects: arithmetic on them re-enters the dunders
        self.locals: Dict[str, bool] = {p: True for p in params}

    def fork(self):
        o = DblTr([self.self_name])
        o.instances = set(self.instances)
        o.locals = dict(self.locals)
        return o

    def is_instance(self, e) -> bool:
        if isinstance(e, ast.Name):
            return e.id in self.instances
        if isinstance(e, ast.Call) and isinstance(e.func, ast.Name) and e.func.id == "cast" and len(e.args) == 2:
            return self.is_instance(e.args[1])
        if isinstance(e, ast.Call) and isinstance(e.func, ast.Name) and e.func.id == "DoubleType":
            return True
        return False

    def expr(self, e) -> str:
        if isinstance(e, ast.Name):
            if e.id in self.locals:
                return e.id
            raise TranslationError(f"double: name {e.id}")
        if isinstance(e, ast.UnaryOp) and isinstance(e.op, ast.USub):
            if self.is_instance(e.operand):
                raise TranslationError("double: unary minus applied to an operand object re-enters __neg__")
            return f"(H.neg {self.expr(e.operand)})"
        if isinstance(e, ast.BinOp) and type(e.op) in OPS:
            if self.is_instance(e.left) or self.is_instance(e.right):
                raise TranslationError("double: arithmetic applied to an operand object re-enters the dunders")
            return f"(H.{OPS[type(e.op)]} {self.expr(e.left)} {self.expr(e.right)})"
        if isinstance(e, ast.Call) and not e.keywords:
            fn = e.func
            if isinstance(fn, ast.Name):
                if fn.id == "cast" and len(e.args) == 2:
                    return self.expr(e.args[1])
                if fn.id == "float" and len(e.args) == 1:
                    return self.expr(e.args[0])
                if fn.id == "DoubleType" and len(e.args) == 1:
                    return f"(wrap {self.expr(e.args[0])})"
                if fn.id == "_ieee_divide_by_zero" and len(e.args) == 2:
                    return f"(H.divZero {self.expr(e.args[0])} {self.expr(e.args[1])})"
            src = ast.unparse(fn).replace(" ", "")
            s = self.self_name
            if src in (f"type({s})", f"{s}.__class__") and len(e.args) == 1:
                return f"(wrap {self.expr(e.args[0])})"
            if isinstance(fn, ast.Attribute):
                recv = ast.unparse(fn.value).replace(" ", "")
                args = list(e.args)
                ok = recv == "super()" and s in self.instances
                if recv == "float" and args and isinstance(args[0], ast.Name) and args[0].id == s and s in self.instances:
                    ok, args = True, args[1:]
                if ok:
                    op = fn.attr
                    if op == "__neg__" and not args:
                        return f"(H.neg {s})"
                    if op == "__pos__" and not args:
                        return s
                    if op in BIN and len(args) == 1:
                        return f"(H.{BIN[op]} {s} {self.expr(args[0])})"
                    if op in RBIN and len(args) == 1:
                        return f"(H.{RBIN[op]} {self.expr(args[0])} {s})"
            raise TranslationError(f"double: call {ast.unparse(fn)[:50]}")
        raise TranslationError(f"double: expr {type(e).__name__}: {ast.unparse(e)[:40]}")

    def cond(self, e) -> str:
        if isinstance(e, ast.Compare) and len(e.ops) == 1 and isinstance(e.ops[0], (ast.Eq, ast.NotEq)):
            l, r = e.left, e.comparators[0]
            if _is_zero_const(r):
                x = l
            elif _is_zero_const(l):
                x = r
            else:
                raise TranslationError("double: comparison other than with zero")
            c = f"(H.isZero {self.expr(x)} = true)"
            return c if isinstance(e.ops[0], ast.Eq) else f"¬{c}"
        if isinstance(e, ast.UnaryOp) and isinstance(e.op, ast.Not):
            return f"¬({self.cond(e.operand)})"
        if isinstance(e, ast.BoolOp):
            j = " ∧ " if isinstance(e.op, ast.And) else " ∨ "
            return "(" + j.join(self.cond(v) for v in e.values) + ")"
        raise TranslationError(f"double: condition {ast.unparse(e)[:50]}")

    @staticmethod
    def is_notimplemented_guard(st) -> bool:
        if not isinstance(st, ast.If) or st.orelse:
            return False
        t = st.test
        if not (isinstance(t, ast.Compare) and len(t.ops) == 1 and isinstance(t.ops[0], ast.Is)
                and isinstance(t.left, ast.Name) and isinstance(t.comparators[0], ast.Name)
                and t.comparators[0].id == "NotImplemented"):
            return False
        return (len(st.body) == 1 and isinstance(st.body[0], ast.Return) and isinstance(st.body[0].value, ast.Name)
                and st.body[0].value.id == "NotImplemented")

    def block(self, stmts, indent: str) -> List[str]:
        out: List[str] = []
        stmts = [s for s in strip_doc(stmts) if not is_logger_call(s) and not isinstance(s, ast.Pass)
                 and not self.is_notimplemented_guard(s)]
        for i, st in enumerate(stmts):
            if isinstance(st, ast.AnnAssign) and st.value is None:
                continue
            if isinstance(st, (ast.Assign, ast.AnnAssign)):
                tgt = st.targets[0] if isinstance(st, ast.Assign) else st.target
                if (isinstance(st, ast.Assign) and len(st.targets) != 1) or not isinstance(tgt, ast.Name):
                    raise TranslationError("double: assignment target")
                if tgt.id == self.self_name:
                    raise TranslationError("double: assignment to self")
                x = self.expr(st.value)
                out.append(f"{indent}let {tgt.id} : F := {x}")
                self.locals[tgt.id] = True
                if self.is_instance(st.value):
                    self.instances.add(tgt.id)
                else:
                    self.instances.discard(tgt.id)
            elif isinstance(st, ast.Return):
                if st.value is None:
                    raise TranslationError("double: bare return")
                out.append(f"{indent}{self.expr(st.value)}")
                return out
            elif isinstance(st, ast.If):
                c = self.cond(st.test)
                rest = stmts[i + 1:]
                thn_src = list(st.body) if self.terminates(st.body) else list(st.body) + rest
                els_src = list(st.orelse) if (st.orelse and self.terminates(st.orelse)) else list(st.orelse) + rest
                thn = self.fork().block(thn_src, indent + "  ")
                els = self.fork().block(els_src, indent + "  ")
                out.append(f"{indent}if {c} then")
                out += thn
                out.append(f"{indent}else")
                out += els
                return out
            else:
                raise TranslationError(f"double: statement {type(st).__name__}")
        raise TranslationError("double: block without return")

    @staticmethod
    def terminates(body) -> bool:
        if not body:
            return False
        last = body[-1]
        if isinstance(last, (ast.Return, ast.Raise)):
            return True
        if isinstance(last, ast.If) and last.orelse:
            return DblTr.terminates(last.body) and DblTr.terminates(last.orelse)
        return False


def check_float_ctor_path(cls: ast.ClassDef) -> None:
    """`DoubleType(x)` for a plain Python float must be `float.__new__(cls, x)`: every bit of x (the sign of a
    zero, a NaN) is kept.  Follow `__new__` with `source` a plain float."""
    new = find_func(cls.body, "__new__")
    if len(new.args.args) < 2:
        raise TranslationError("DoubleType.__new__: parameters")
    clsn, src = new.args.args[0].arg, new.args.args[1].arg

    def test(e):
        import copy
        # reuse the int follower with the roles of int and float swapped
        v = _test_on_plain_int(_swap_int_float(copy.deepcopy(e)), src)
        return v

    def run(stmts) -> bool:
        for st in [s for s in strip_doc(stmts) if not is_logger_call(s) and not isinstance(s, ast.Pass)]:
            if isinstance(st, ast.AnnAssign) and st.value is None:
                continue
            if isinstance(st, ast.If):
                v = test(st.test)
                if v is None:
                    raise TranslationError(f"DoubleType.__new__: test `{ast.unparse(st.test)[:60]}` is not decidable for a plain float")
                if run(st.body if v else st.orelse):
                    return True
                continue
            if isinstance(st, ast.Return):
                text = ast.unparse(st.value).replace(" ", "") if st.value is not None else ""
                if text in (f"super().__new__({clsn},{src})", f"float.__new__({clsn},{src})",
                            f"super().__new__({clsn},float({src}))", f"float.__new__({clsn},float({src}))"):
                    return True
                raise TranslationError(f"DoubleType.__new__: a plain float is converted by `{text[:80]}`, not kept as it is")
            raise TranslationError(f"DoubleType.__new__: statement {type(st).__name__} on the float path")
        return False

    if not run(new.body):
        raise TranslationError("DoubleType.__new__: no return on the float path")


class _SwapIF(ast.NodeTransformer):
    def visit_Name(self, node):
        if node.id == "int":
            return ast.copy_location(ast.Name(id="float", ctx=node.ctx), node)
        if node.id == "float":
            return ast.copy_location(ast.Name(id="int", ctx=node.ctx), node)
        return node


def _swap_int_float(e):
    """isinstance(source, float) plays for a plain float the role isinstance(source, int) plays for a plain int;
    after the swap `int` means "is one" and `float` is in the list of classes it is not"""
    return _SwapIF().visit(e)


def translate_double_class(mod: ast.Module) -> str:
    cls = find_class(mod, "DoubleType")
    check_float_ctor_path(cls)
    methods: Dict[str, ast.FunctionDef] = {}
    for st in cls.body:
        if isinstance(st, ast.FunctionDef):
            if st.name in methods:
                raise TranslationError(f"DoubleType.{st.name} defined twice")
            methods[st.name] = st
        elif isinstance(st, ast.Assign) and isinstance(st.targets[0], ast.Name) and st.targets[0].id in DBL_DUNDERS:
            raise TranslationError(f"DoubleType.{st.targets[0].id} bound by assignment")
    out = ["namespace DoubleType", "variable {F : Type} (H : Cel.HostFloat F)",
           "/-- `DoubleType(x)` for a plain Python float: `float.__new__(cls, x)` (checked by following `__new__`) -/",
           "def wrap (x : F) : F := x\n"]
    for d in DBL_DUNDERS:
        fn = methods.get(d)
        if fn is None:
            raise TranslationError(f"DoubleType: def {d} not found")
        if fn.decorator_list:
            raise TranslationError(f"DoubleType.{d}: decorator")
        a = fn.args
        if a.vararg or a.kwarg or a.kwonlyargs or a.posonlyargs or a.defaults:
            raise TranslationError(f"DoubleType.{d}: parameters")
        params = [x.arg for x in a.args]
        if len(params) != (1 if d == "__neg__" else 2):
            raise TranslationError(f"DoubleType.{d}: parameters")
        body = DblTr(params).block(fn.body, "  ")
        sig = " ".join(f"({p} : F)" for p in params)
        out.append(f"def {d.strip('_')} {sig} : F :=\n" + "\n".join(body) + "\n")
    out.append("end DoubleType")
    return "\n".join(out) + "\n"
