"""Generator for Gen/NumD.lean (C01, round 2): the DoubleType arithmetic dunders over an abstract host float."""
from __future__ import annotations
from .py2lean_dbl import translate_double_class
from .common import parse, HEADER


def gen_numd() -> str:
    m = parse("src/celpy/celtypes.py")
    out = [HEADER.format(src="src/celpy/celtypes.py (DoubleType.__new__, arithmetic dunders)"),
           "import Cel.Model.Num2\nnamespace Cel.Gen\n"]
    out.append(translate_double_class(m))
    out.append("end Cel.Gen\n")
    return "\n".join(out)


GENERATORS = {"NumD": gen_numd}
