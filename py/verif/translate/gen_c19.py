"""Generator for Gen/XlateTables.lean (C19): the operator / value_type / resource tables and the
small constants of `src/xlate/c7n_to_cel.py`, re-read from the working tree on every run.

Everything is extracted from the AST (dict / list / tuple / string literals, `ast.literal_eval`
style); the `type_value_map` lambdas are translated into `TVExpr` piece lists; the `escapes` dict
and the control-character test of `q` and the `units` list of `seconds_to_duration` become data.
Anything that does not have the expected literal shape is a TranslationError (handled by the check
like a broken bridge)."""
from __future__ import annotations
import ast
import copy
from typing import Dict, List, Optional, Tuple
from .py2lean import TranslationError, find_class, find_func, lean_str, lean_list
from .common import parse, HEADER

SRC = "src/xlate/c7n_to_cel.py"

# (function, variable) -> Lean name, for the per-resource tables
RESOURCE_TABLES = [
    ("type_age_rewrite", "attribute_map", "ageAttr"),
    ("type_security_group_rewrite", "attribute_map", "sgAttr"),
    ("type_vpc_rewrite", "attribute_map", "vpcAttr"),
    ("type_kms_key_rewrite", "attribute_map", "kmsAttr"),
    ("cross_account_rewrite", "resource_type_map", "crossAccount"),
    ("used_rewrite", "resource_type_map", "used"),
]


def _assign_value(body, name: str):
    for st in ast.walk(ast.Module(body=list(body), type_ignores=[])):
        if isinstance(st, ast.Assign) and len(st.targets) == 1 and isinstance(st.targets[0], ast.Name) \
                and st.targets[0].id == name:
            return st.value
        if isinstance(st, ast.AnnAssign) and isinstance(st.target, ast.Name) and st.target.id == name and st.value is not None:
            return st.value
    raise TranslationError(f"assignment to {name} not found")


def same(node, src: str) -> bool:
    """structural equality of an AST node with the expression/statement written in `src`"""
    try:
        want = ast.parse(src, mode="eval").body
    except SyntaxError:
        want = ast.parse(src).body[0]
    if isinstance(node, ast.Expr) and not isinstance(want, ast.Expr):
        node = node.value
    return ast.dump(node) == ast.dump(want)


def str_dict(node, what: str) -> List[Tuple[str, str]]:
    if not isinstance(node, ast.Dict):
        raise TranslationError(f"{what}: not a dict literal")
    try:
        d = ast.literal_eval(node)
    except Exception as ex:
        raise TranslationError(f"{what}: not a literal dict ({ex})")
    out = []
    for k, v in d.items():
        if not isinstance(k, str) or not isinstance(v, str):
            raise TranslationError(f"{what}: non-string entry {k!r}: {v!r}")
        out.append((k, v))
    if len(out) != len(node.keys):
        raise TranslationError(f"{what}: duplicate keys")
    return out


def lean_chars(v: str) -> str:
    return "[" + ",".join(lean_char(c) for c in v) + "]"


def lean_pairs_chars(pairs: List[Tuple[str, str]]) -> str:
    """(name, text as an explicit `List Char`): kernel reduction (`decide +kernel`) over long texts is
    fast on char lists and very slow through `String.toList`"""
    return "[\n  " + ",\n  ".join(f"-- {v!r}\n  ({lean_str(k)}, {lean_chars(v)})" for k, v in pairs) + "]"


def lean_pairs(pairs: List[Tuple[str, str]]) -> str:
    return "[\n  " + ",\n  ".join(f"({lean_str(k)}, {lean_str(v)})" for k, v in pairs) + "]"


# ---- type_value_map lambdas ----------------------------------------------------------------

def _piece_arg(a, params) -> str:
    if isinstance(a, ast.Name) and a.id == params[0]:
        return ".sentinel"
    if isinstance(a, ast.Name) and a.id == params[1]:
        return ".value"
    src = ast.unparse(a)
    if src == "C7N_Rewriter.now":
        return ".now"
    if src == f"C7N_Rewriter.age_to_duration({params[0]})":
        return ".ageDur"
    raise TranslationError(f"type_value_map: unsupported format argument {src}")


def tv_expr(e, params) -> str:
    if isinstance(e, ast.Name):
        return lean_list([_piece_arg(e, params)])
    if isinstance(e, ast.Call) and isinstance(e.func, ast.Attribute) and e.func.attr == "format" \
            and isinstance(e.func.value, ast.Constant) and isinstance(e.func.value.value, str) and not e.keywords:
        fmt = e.func.value.value
        parts = fmt.split("{}")
        if len(parts) != len(e.args) + 1 or "{" in "".join(parts) or "}" in "".join(parts):
            raise TranslationError(f"type_value_map: format string {fmt!r} does not match its arguments")
        out = []
        for i, p in enumerate(parts):
            if p:
                out.append(f".text {lean_str(p)}")
            if i < len(e.args):
                out.append(_piece_arg(e.args[i], params))
        return lean_list(out)
    raise TranslationError(f"type_value_map: unsupported expression {ast.unparse(e)}")


def type_value_map(node) -> List[Tuple[str, str, str]]:
    if not isinstance(node, ast.Dict):
        raise TranslationError("type_value_map: not a dict literal")
    out = []
    for k, v in zip(node.keys, node.values):
        if not (isinstance(k, ast.Constant) and isinstance(k.value, str)):
            raise TranslationError("type_value_map: non-string key")
        if not (isinstance(v, ast.Lambda) and len(v.args.args) == 2 and isinstance(v.body, ast.Tuple) and len(v.body.elts) == 2):
            raise TranslationError(f"type_value_map[{k.value}]: not a two-argument lambda returning a pair")
        params = [a.arg for a in v.args.args]
        out.append((k.value, tv_expr(v.body.elts[0], params), tv_expr(v.body.elts[1], params)))
    return out


# ---- q --------------------------------------------------------------------------------------

class _Subst(ast.NodeTransformer):
    def __init__(self, env):
        self.env = env

    def visit_Name(self, node):
        if isinstance(node.ctx, ast.Load) and node.id in self.env:
            return copy.deepcopy(self.env[node.id])
        return node


def subst(node, env):
    """`node` with the locals of `env` (name -> expression bound once, before use) replaced by what they stand for"""
    return _Subst(env).visit(copy.deepcopy(node)) if env else node


def _is_doc(st) -> bool:
    return isinstance(st, ast.Pass) or (isinstance(st, ast.Expr) and isinstance(st.value, ast.Constant)
                                        and isinstance(st.value.value, str))


def _expand(value, env) -> List[Tuple[Optional[ast.AST], ast.AST]]:
    """a conditional expression is the same decision list as the if/else statement"""
    if isinstance(value, ast.IfExp):
        if isinstance(value.body, ast.IfExp):
            _unsupported("q: conditional expression nested in the true arm")
        return [(subst(value.test, env), subst(value.body, env))] + _expand(value.orelse, env)
    return [(None, subst(value, env))]


def _unsupported(msg):
    raise TranslationError(msg)


def decision_list(stmts, mode: str, acc: Optional[str], env: Dict[str, ast.AST], bound: set):
    """Normal form of a per-character case analysis: [(test, piece), ..., (None, piece)] — the first test that
    holds selects the piece. Accepts if/elif/else chains, early exits (`return` in a helper, `append` +
    `continue` in a loop body) followed by the remaining cases, conditional expressions, and pure
    sub-expressions hoisted into locals (bound once; substituted back)."""
    env = dict(env)
    for i, st in enumerate(stmts):
        if _is_doc(st):
            continue
        if isinstance(st, (ast.Assign, ast.AnnAssign)):
            tgt = st.targets[0] if isinstance(st, ast.Assign) and len(st.targets) == 1 else getattr(st, "target", None)
            if not isinstance(tgt, ast.Name) or st.value is None or tgt.id in bound:
                _unsupported(f"q: unsupported assignment {ast.unparse(st)}")
            bound.add(tgt.id)
            env[tgt.id] = subst(st.value, env)
            continue
        leaf = None
        if mode == "return" and isinstance(st, ast.Return) and st.value is not None:
            leaf, rest = st.value, []
        elif mode == "append" and isinstance(st, ast.Expr) and isinstance(st.value, ast.Call) \
                and same(st.value.func, f"{acc}.append") and len(st.value.args) == 1 and not st.value.keywords:
            leaf, rest = st.value.args[0], stmts[i + 1:]
            if rest and isinstance(rest[0], ast.Continue):
                rest = []
        if leaf is not None:
            if [x for x in rest if not _is_doc(x)]:
                _unsupported("q: statements after the piece of a case")
            return _expand(leaf, env)
        if isinstance(st, ast.If):
            then = decision_list(st.body, mode, acc, env, bound)
            if len(then) != 1:
                _unsupported("q: case analysis nested inside a case")
            terminated = mode == "return" or (st.body and isinstance(st.body[-1], ast.Continue))
            if st.orelse:
                if [x for x in stmts[i + 1:] if not _is_doc(x)]:
                    _unsupported("q: statements after an if/else")
                rest_list = decision_list(st.orelse, mode, acc, env, bound)
            else:
                if not terminated:
                    _unsupported("q: a case without else that falls through")
                rest_list = decision_list(stmts[i + 1:], mode, acc, env, bound)
            return [(subst(st.test, env), then[0][1])] + rest_list
        _unsupported(f"q: unsupported statement in the per-character case analysis: {ast.unparse(st)[:80]}")
    _unsupported("q: a path through the per-character case analysis yields no piece")


def _ord_of(e, var: str) -> bool:
    return same(e, f"ord({var})")


def _ctl_test(t, var: str) -> Tuple[int, int]:
    """`ord(c) < A or ord(c) == B` in any spelling that means the same: disjuncts in either order, constant on
    either side, `<=`/`>=` against the neighbouring integer, the character compared with a one-character string"""
    if not (isinstance(t, ast.BoolOp) and isinstance(t.op, ast.Or) and len(t.values) == 2):
        _unsupported(f"q: control-character test has an unexpected shape: {ast.unparse(t)}")
    below = also = None
    for c in t.values:
        if not (isinstance(c, ast.Compare) and len(c.ops) == 1):
            _unsupported(f"q: control-character test has an unexpected shape: {ast.unparse(t)}")
        l, op, r = c.left, c.ops[0], c.comparators[0]
        flip = {ast.Lt: ast.Gt, ast.Gt: ast.Lt, ast.LtE: ast.GtE, ast.GtE: ast.LtE, ast.Eq: ast.Eq}

        def const(e, other):
            if isinstance(e, ast.Constant) and isinstance(e.value, int) and not isinstance(e.value, bool) and _ord_of(other, var):
                return e.value
            if isinstance(e, ast.Constant) and isinstance(e.value, str) and len(e.value) == 1 \
                    and isinstance(other, ast.Name) and other.id == var:
                return ord(e.value)
            return None
        k, opt = const(r, l), type(op)
        if k is None:
            k, opt = const(l, r), flip.get(type(op))
        if k is None or opt is None:
            _unsupported(f"q: control-character test has an unexpected shape: {ast.unparse(t)}")
        if opt is ast.Lt and below is None:
            below = k
        elif opt is ast.LtE and below is None:
            below = k + 1
        elif opt is ast.Eq and also is None:
            also = k
        else:
            _unsupported(f"q: control-character test has an unexpected shape: {ast.unparse(t)}")
    if below is None or also is None:
        _unsupported(f"q: control-character test has an unexpected shape: {ast.unparse(t)}")
    return below, also


def _is_hex_escape(e, var: str) -> bool:
    r"""`\xNN` of the character's code, two lower-case hex digits: f-string, %-format or str.format"""
    return any(same(e, src % {"v": var}) for src in (
        'f"\\\\x{ord(%(v)s):02x}"', '"\\\\x%%02x" %% ord(%(v)s)', '"\\\\x%%02x" %% (ord(%(v)s),)',
        '"\\\\x{:02x}".format(ord(%(v)s))', '"\\\\x{0:02x}".format(ord(%(v)s))',
        '"\\\\x" + format(ord(%(v)s), "02x")', '"\\\\x" + "%%02x" %% ord(%(v)s)'))


def _rename(node, old: str, new: str):
    return subst(node, {old: ast.Name(id=new, ctx=ast.Load())})


def q_data(fn: ast.FunctionDef) -> Dict[str, str]:
    """The data of `q`: the `escapes` dict (constant keys; the `quote` entry separately) and the
    control-character test, read off a NORMAL FORM of the function — so that the same per-character case
    analysis is recognised whether it is a loop appending to a list, a nested helper / lambda with early
    returns applied by a comprehension or `map`, or a conditional expression inside the comprehension; with
    locals renamed, sub-expressions hoisted, dict entries reordered. Every statement of the function has
    to be accounted for: anything else is a TranslationError (the check then treats the bridge as broken)."""
    if len(fn.args.args) != 2 or fn.args.vararg or fn.args.kwarg or fn.args.kwonlyargs:
        _unsupported("q: expected the two parameters (text, quote)")
    text_p, quote_p = fn.args.args[0].arg, fn.args.args[1].arg
    bound = {text_p, quote_p}
    env: Dict[str, ast.AST] = {}
    esc = None          # (name, ast.Dict)
    acc = None          # the list a loop appends to
    helpers: Dict[str, Tuple[str, list]] = {}   # name -> (parameter, raw body / expression)
    loop = None
    final = None
    none_guard = False
    quote2 = (f'f"{{{quote_p}}}{{{quote_p}}}"', f"{quote_p} + {quote_p}", f"{quote_p} * 2", f"2 * {quote_p}")
    for st in fn.body:
        if _is_doc(st):
            continue
        if final is not None:
            _unsupported("q: statements after the return")
        if isinstance(st, ast.If) and (same(st.test, f"{text_p} is None") or same(st.test, f"None is {text_p}")) \
                and not st.orelse and len(st.body) == 1 and isinstance(st.body[0], ast.Return) \
                and any(same(st.body[0].value, x) for x in quote2) and esc is None and loop is None:
            none_guard = True
            continue
        if isinstance(st, ast.FunctionDef) and len(st.args.args) == 1 and not st.decorator_list \
                and not (st.args.vararg or st.args.kwarg or st.args.kwonlyargs or st.args.defaults) and st.name not in bound:
            bound.add(st.name)
            helpers[st.name] = (st.args.args[0].arg, st.body)
            continue
        if isinstance(st, (ast.Assign, ast.AnnAssign)):
            tgt = st.targets[0] if isinstance(st, ast.Assign) and len(st.targets) == 1 else getattr(st, "target", None)
            if not isinstance(tgt, ast.Name) or st.value is None or tgt.id in bound:
                _unsupported(f"q: unsupported assignment {ast.unparse(st)[:80]}")
            bound.add(tgt.id)
            v = st.value
            if isinstance(v, ast.Dict) and esc is None:
                esc = (tgt.id, v)
            elif isinstance(v, ast.List) and not v.elts and acc is None:
                acc = tgt.id
            elif isinstance(v, ast.Lambda) and len(v.args.args) == 1 and not v.args.defaults:
                helpers[tgt.id] = (v.args.args[0].arg, [ast.Return(value=v.body)])
            else:
                env[tgt.id] = subst(v, env)
            continue
        if isinstance(st, ast.For) and loop is None and isinstance(st.target, ast.Name) and same(st.iter, text_p) \
                and not st.orelse and acc is not None and st.target.id not in bound:
            loop = (st.target.id, st.body)
            continue
        if isinstance(st, ast.Return) and st.value is not None:
            final = subst(st.value, env)
            continue
        _unsupported(f"q: unsupported statement {ast.unparse(st)[:80]}")
    if esc is None or final is None:
        _unsupported("q: expected one dict literal (escapes) and a return")
    escn, escd = esc
    # ---- the result: quote + ''.join(pieces) + quote ------------------------------------------------
    JOIN = "__JOIN__"

    def joined(e):
        if isinstance(e, ast.Call) and isinstance(e.func, ast.Attribute) and e.func.attr == "join" \
                and isinstance(e.func.value, ast.Constant) and e.func.value.value == "" and len(e.args) == 1 and not e.keywords:
            return e.args[0]
        return None
    pieces = None
    if isinstance(final, ast.JoinedStr) and len(final.values) == 3 and all(
            isinstance(x, ast.FormattedValue) and x.conversion == -1 and x.format_spec is None for x in final.values):
        parts = [x.value for x in final.values]
    elif isinstance(final, ast.BinOp) and isinstance(final.op, ast.Add) and isinstance(final.left, ast.BinOp) \
            and isinstance(final.left.op, ast.Add):
        parts = [final.left.left, final.left.right, final.right]
    elif isinstance(final, ast.BinOp) and isinstance(final.op, ast.Add) and isinstance(final.right, ast.BinOp) \
            and isinstance(final.right.op, ast.Add):
        parts = [final.left, final.right.left, final.right.right]     # str + is associative
    else:
        parts = []
    if len(parts) == 3 and same(parts[0], quote_p) and same(parts[2], quote_p):
        pieces = joined(parts[1])
    if pieces is None:
        _unsupported(f"q: return is not quote + ''.join(pieces) + quote: {ast.unparse(final)[:100]}")
    # ---- the per-character case analysis ---------------------------------------------------------------
    VAR = "__c__"
    if isinstance(pieces, ast.Name) and pieces.id == acc and loop is not None:
        var, body = loop
        chain = decision_list(body, "append", acc, {}, set(bound) | {var})
    else:
        if loop is not None:
            _unsupported("q: a loop whose list is not what is joined")
        if isinstance(pieces, (ast.ListComp, ast.GeneratorExp)) and len(pieces.generators) == 1 \
                and not pieces.generators[0].ifs and not pieces.generators[0].is_async \
                and isinstance(pieces.generators[0].target, ast.Name) and same(pieces.generators[0].iter, text_p):
            var, elt = pieces.generators[0].target.id, pieces.elt
        elif isinstance(pieces, ast.Call) and same(pieces.func, "map") and len(pieces.args) == 2 \
                and isinstance(pieces.args[0], ast.Name) and same(pieces.args[1], text_p):
            var, elt = VAR, ast.Call(func=pieces.args[0], args=[ast.Name(id=VAR, ctx=ast.Load())], keywords=[])
        else:
            _unsupported(f"q: the joined pieces are neither the loop's list nor a comprehension over the text: {ast.unparse(pieces)[:100]}")
        if isinstance(elt, ast.Call) and isinstance(elt.func, ast.Name) and elt.func.id in helpers \
                and len(elt.args) == 1 and same(elt.args[0], var) and not elt.keywords:
            hp, hbody = helpers.pop(elt.func.id)            # one level of inlining: helper(c)
            chain = decision_list(hbody, "return", None, {}, set(bound) | {hp})
            chain = [(None if t is None else _rename(t, hp, var), _rename(p, hp, var)) for t, p in chain]
        else:
            chain = _expand(elt, {})
    if helpers:
        _unsupported(f"q: helper(s) {sorted(helpers)} defined but not applied to the characters of the text")
    chain = [(None if t is None else _rename(t, var, VAR), _rename(p, var, VAR)) for t, p in chain]
    if len(chain) != 3 or chain[2][0] is not None:
        _unsupported(f"q: expected three cases (escapes lookup, control character, copy), found {len(chain)}")
    (t0, p0), (t1, p1), (_, p2) = chain
    if not (same(t0, f"{VAR} in {escn}") or same(t0, f"{VAR} in {escn}.keys()")) or not same(p0, f"{escn}[{VAR}]"):
        _unsupported("q: first case is not the escapes lookup")
    below, also = _ctl_test(t1, VAR)
    if not _is_hex_escape(p1, VAR):
        _unsupported(f"q: control characters are not written as \\xNN: {ast.unparse(p1)}")
    if not same(p2, VAR):
        _unsupported("q: last case does not copy the character")
    # ---- the escapes dict: a lookup table, so the order of its (distinct) keys does not matter ----------
    consts, has_quote = [], False
    for k, v in zip(escd.keys, escd.values):
        if isinstance(k, ast.Constant) and isinstance(k.value, str) and len(k.value) == 1 \
                and isinstance(v, ast.Constant) and isinstance(v.value, str):
            if k.value in "\"'":
                _unsupported("q: a quote character as a constant key of escapes (would collide with the quote entry)")
            consts.append((k.value, v.value))
        elif isinstance(k, ast.Name) and k.id == quote_p and not has_quote and (
                same(v, 'f"\\\\{%s}"' % quote_p) or same(v, '"\\\\" + %s' % quote_p)):
            has_quote = True
        else:
            _unsupported(f"q: unsupported escapes entry {ast.unparse(k)}: {ast.unparse(v)}")
    if len({k for k, _ in consts}) != len(consts):
        _unsupported("q: duplicate keys in escapes")
    consts.sort(key=lambda kv: -ord(kv[0]))
    return {
        "qEscapes": "[" + ", ".join(f"({lean_char(k)}, {lean_str(v)})" for k, v in consts) + "]",
        "qEscapesQuote": "true" if has_quote else "false",
        "qCtlBelow": str(below), "qCtlAlso": str(also),
        "qNoneGuard": "true" if none_guard else "false",
    }


def lean_char(c: str) -> str:
    o = ord(c)
    if c == "\\":
        return "'\\\\'"
    if c == "'":
        return "'\\''"
    if c == "\n":
        return "'\\n'"
    if c == "\t":
        return "'\\t'"
    if c == "\r":
        return "'\\r'"
    if o < 32 or o == 127:
        return "'\\x%02x'" % o
    if o > 126:
        return "'\\u{%x}'" % o
    return f"'{c}'"


def const_int(e) -> int:
    try:
        v = eval(compile(ast.Expression(e), "<units>", "eval"), {"__builtins__": {}}, {})
    except Exception as ex:
        raise TranslationError(f"not a constant integer expression: {ast.unparse(e)} ({ex})")
    if not isinstance(v, int) or isinstance(v, bool):
        raise TranslationError(f"not an integer: {ast.unparse(e)}")
    return v


# ---- seconds_to_duration -------------------------------------------------------------------

def _is_name(e, name) -> bool:
    return isinstance(e, ast.Name) and e.id == name


def _nonzero_test(e, name) -> bool:
    """`name != 0`, `0 != name`, or the bare truth value `name` (an int)"""
    if _is_name(e, name):
        return True
    if isinstance(e, ast.Compare) and len(e.ops) == 1 and isinstance(e.ops[0], ast.NotEq):
        a, b = e.left, e.comparators[0]
        zero = lambda x: isinstance(x, ast.Constant) and type(x.value) is int and x.value == 0
        return (_is_name(a, name) and zero(b)) or (zero(a) and _is_name(b, name))
    return False


def _zero_test(e, name) -> bool:
    """`name == 0`, `0 == name`, `not name`"""
    if isinstance(e, ast.UnaryOp) and isinstance(e.op, ast.Not):
        return _is_name(e.operand, name)
    if isinstance(e, ast.Compare) and len(e.ops) == 1 and isinstance(e.ops[0], ast.Eq):
        a, b = e.left, e.comparators[0]
        zero = lambda x: isinstance(x, ast.Constant) and type(x.value) is int and x.value == 0
        return (_is_name(a, name) and zero(b)) or (zero(a) and _is_name(b, name))
    return False


def _single_target(st):
    """(name, value) of `name = value` / `name: T = value`, else None"""
    if isinstance(st, ast.Assign) and len(st.targets) == 1 and isinstance(st.targets[0], ast.Name):
        return st.targets[0].id, st.value
    if isinstance(st, ast.AnnAssign) and isinstance(st.target, ast.Name) and st.value is not None and st.simple:
        return st.target.id, st.value
    return None


def _append_of(st, parts):
    """the argument of the statement `parts.append(arg)`, else None"""
    if isinstance(st, ast.Expr) and isinstance(st.value, ast.Call) and not st.value.keywords \
            and len(st.value.args) == 1 and same(st.value.func, f"{parts}.append"):
        return st.value.args[0]
    return None


def _pair_names(t):
    if isinstance(t, ast.Tuple) and len(t.elts) == 2 and all(isinstance(x, ast.Name) for x in t.elts) \
            and t.elts[0].id != t.elts[1].id:
        return t.elts[0].id, t.elts[1].id
    return None


def _duration_step(stmts, secs, parts, u_sec, u_name) -> None:
    """the per-unit step, in normal form:
         value, secs = divmod(secs, u_sec)          (or  value = secs // u_sec ; secs = secs % u_sec / secs %= u_sec)
         if value != 0: parts.append(f"{value}{u_name}")
       Anything else is a TranslationError."""
    what = "seconds_to_duration: per-unit step"
    if not stmts:
        raise TranslationError(f"{what}: empty")
    st, rest = stmts[0], stmts[1:]
    value = None
    if isinstance(st, ast.Assign) and len(st.targets) == 1 and _pair_names(st.targets[0]) \
            and same(st.value, f"divmod({secs}, {u_sec})"):
        value, s2 = _pair_names(st.targets[0])
        if s2 != secs:
            raise TranslationError(f"{what}: the remainder is not carried in {secs}")
    elif _single_target(st) and same(_single_target(st)[1], f"{secs} // {u_sec}") and rest:
        value = _single_target(st)[0]
        st2, rest = rest[0], rest[1:]
        ok = (_single_target(st2) is not None and _single_target(st2)[0] == secs and isinstance(st2, ast.Assign)
              and same(st2.value, f"{secs} % {u_sec}")) or same(st2, f"{secs} %= {u_sec}")
        if not ok:
            raise TranslationError(f"{what}: quotient not followed by the remainder: {ast.unparse(st2)}")
    else:
        raise TranslationError(f"{what}: expected divmod({secs}, {u_sec}), found {ast.unparse(st)}")
    if value in (secs, parts, u_sec, u_name):
        raise TranslationError(f"{what}: the count {value} shadows another local")
    if len(rest) != 1 or not isinstance(rest[0], ast.If) or rest[0].orelse or len(rest[0].body) != 1 \
            or not _nonzero_test(rest[0].test, value):
        raise TranslationError(f"{what}: expected exactly `if {value} != 0: {parts}.append(...)` after the division")
    arg = _append_of(rest[0].body[0], parts)
    if arg is None or not any(same(arg, t) for t in (
            'f"{%s}{%s}"' % (value, u_name), f"str({value}) + {u_name}", f'"%d%s" % ({value}, {u_name})',
            f'"{{}}{{}}".format({value}, {u_name})')):
        raise TranslationError(f"{what}: the appended part is not the count followed by the unit name")


def duration_data(fn) -> Tuple[List[Tuple[int, str]], str]:
    """NORMAL FORM of `seconds_to_duration`: (units, text written when no part was written).

    Every statement of the function must be accounted for, in this order:
      docstring? ; secs = int(float(<param>)) ; units = [ (n, "c"), ... ] or ( ... ) ; parts = []   (these three in any
      order, optionally annotated) ; ONE loop that takes the units in order and applies the per-unit step
      (`_duration_step`) to each, until the units are exhausted and optionally until secs == 0:
          while secs != 0 and units:  a, b = units.pop(0) ; STEP          (either order of the conjuncts; `while units:`)
          for a, b in units:  [if secs == 0: break] ; STEP                (no else clause)
      -- both visit the same (unit, secs) states: once secs is 0 every further step divides 0 and appends nothing --
      then `if not parts: parts.append("<text>")`? ; `return C7N_Rewriter.q("".join(parts))` (optionally wrapped in an
      f-string with no other content).  Anything else is a TranslationError (= broken bridge)."""
    what = "seconds_to_duration"
    if len(fn.args.args) != 1 or fn.args.vararg or fn.args.kwarg or fn.args.kwonlyargs or fn.args.defaults:
        raise TranslationError(f"{what}: expected exactly one parameter")
    param = fn.args.args[0].arg
    body = list(fn.body)
    if body and isinstance(body[0], ast.Expr) and isinstance(body[0].value, ast.Constant) and isinstance(body[0].value.value, str):
        body = body[1:]
    secs = units = parts = None
    unit_node = None
    i = 0
    while i < len(body) and _single_target(body[i]) is not None:
        name, val = _single_target(body[i])
        if name in (param, secs, units, parts):
            raise TranslationError(f"{what}: {name} is bound twice")
        if same(val, f"int(float({param}))") and secs is None:
            secs = name
        elif isinstance(val, (ast.List, ast.Tuple)) and val.elts and units is None:
            units, unit_node = name, val
        elif isinstance(val, ast.List) and not val.elts and parts is None:
            parts = name
        else:
            raise TranslationError(f"{what}: unexpected assignment {ast.unparse(body[i])}")
        i += 1
    if secs is None or units is None or parts is None:
        raise TranslationError(f"{what}: expected the truncated count, the unit table and the empty part list before the loop")
    pairs: List[Tuple[int, str]] = []
    for e in unit_node.elts:
        if not (isinstance(e, ast.Tuple) and len(e.elts) == 2 and isinstance(e.elts[1], ast.Constant)
                and isinstance(e.elts[1].value, str) and len(e.elts[1].value) == 1):
            raise TranslationError(f"{what}: unit entry is not (seconds, one-letter name)")
        pairs.append((const_int(e.elts[0]), e.elts[1].value))
    if i >= len(body):
        raise TranslationError(f"{what}: no loop over the units")
    loop = body[i]
    i += 1
    if isinstance(loop, ast.While) and not loop.orelse:
        if not isinstance(unit_node, ast.List):
            raise TranslationError(f"{what}: a while loop consuming the units needs a list")
        tests = loop.test.values if isinstance(loop.test, ast.BoolOp) and isinstance(loop.test.op, ast.And) else [loop.test]
        n_units = sum(1 for t in tests if _is_name(t, units))
        n_secs = sum(1 for t in tests if _nonzero_test(t, secs))
        if n_units != 1 or n_units + n_secs != len(tests) or len(tests) > 2:
            raise TranslationError(f"{what}: unexpected loop condition {ast.unparse(loop.test)}")
        first = loop.body[0]
        names = _pair_names(first.targets[0]) if isinstance(first, ast.Assign) and len(first.targets) == 1 else None
        if names is None or not same(first.value, f"{units}.pop(0)"):
            raise TranslationError(f"{what}: the loop does not take the first unit: {ast.unparse(first)}")
        step = loop.body[1:]
    elif isinstance(loop, ast.For) and not loop.orelse:
        names = _pair_names(loop.target)
        if names is None or not _is_name(loop.iter, units):
            raise TranslationError(f"{what}: the loop does not run over the unit table")
        step = loop.body
        if step and isinstance(step[0], ast.If) and not step[0].orelse and len(step[0].body) == 1 \
                and isinstance(step[0].body[0], ast.Break) and _zero_test(step[0].test, secs):
            step = step[1:]
    else:
        raise TranslationError(f"{what}: expected a while or for loop over the units, found {ast.unparse(loop)[:60]}")
    if len({param, secs, units, parts, names[0], names[1]}) != 6:
        raise TranslationError(f"{what}: loop variables shadow other locals")
    _duration_step(step, secs, parts, names[0], names[1])
    ztext = ""
    if i < len(body) and isinstance(body[i], ast.If):
        st = body[i]
        empty = _zero_test(st.test, parts) and isinstance(st.test, ast.UnaryOp) or same(st.test, f"len({parts}) == 0") \
            or same(st.test, f"{parts} == []")
        arg = _append_of(st.body[0], parts) if len(st.body) == 1 and not st.orelse else None
        if not empty or not (isinstance(arg, ast.Constant) and isinstance(arg.value, str)):
            raise TranslationError(f"{what}: unexpected statement after the loop: {ast.unparse(st)[:80]}")
        ztext = arg.value
        i += 1
    if i != len(body) - 1 or not isinstance(body[i], ast.Return) or body[i].value is None:
        raise TranslationError(f"{what}: expected the return right after the loop / the empty case")
    rv = body[i].value
    if isinstance(rv, ast.JoinedStr) and len(rv.values) == 1 and isinstance(rv.values[0], ast.FormattedValue) \
            and rv.values[0].conversion == -1 and rv.values[0].format_spec is None:
        rv = rv.values[0].value          # f"{x}" of a str is x
    if not (isinstance(rv, ast.Call) and ast.unparse(rv.func) == "C7N_Rewriter.q" and not rv.keywords and len(rv.args) == 1
            and same(rv.args[0], f"''.join({parts})")):
        raise TranslationError(f"{what}: the result is not C7N_Rewriter.q(''.join({parts}))")
    return pairs, ztext



def gen_xlate_tables() -> str:
    m = parse(SRC)
    cls = find_class(m, "C7N_Rewriter")
    out = [HEADER.format(src=SRC + " (atomic_op_map, type_value_map, filter_op_map, resource tables, q, units)"),
           "import Cel.Model.XlateValue\nnamespace Cel.Gen.XlateTables\nopen Cel.XlateValue (TVPiece TVExpr)\n"]
    # class-level constants
    for name, lname in (("resource", "cResource"), ("now", "cNow")):
        v = _assign_value(cls.body, name)
        if not (isinstance(v, ast.Constant) and isinstance(v.value, str)):
            raise TranslationError(f"C7N_Rewriter.{name} is not a string constant")
        out.append(f"def {lname} : String := {lean_str(v.value)}")
    out.append("/-- `C7N_Rewriter.atomic_op_map` -/")
    out.append("def atomicOpMap : List (String × String) := " + lean_pairs(str_dict(_assign_value(cls.body, "atomic_op_map"), "atomic_op_map")))
    vt = find_func(cls.body, "value_to_cel")
    tvm = type_value_map(_assign_value(vt.body, "type_value_map"))
    out.append("/-- `type_value_map` of `value_to_cel`: name ↦ (new cel_value, new key) as piece lists -/")
    out.append("def typeValueMap : List (String × (TVExpr × TVExpr)) := [\n  "
               + ",\n  ".join(f"({lean_str(k)}, ({a}, {b}))" for k, a, b in tvm) + "]")
    vf = find_func(cls.body, "value_from_to_cel")
    out.append("/-- `filter_op_map` of `value_from_to_cel` -/")
    out.append("def filterOpMap : List (String × String) := " + lean_pairs(str_dict(_assign_value(vf.body, "filter_op_map"), "filter_op_map")))
    kf = find_func(cls.body, "key_to_cel")
    out.append("def functionMap : List (String × String) := " + lean_pairs(str_dict(_assign_value(kf.body, "function_map"), "function_map")))
    for fn, var, lname in RESOURCE_TABLES:
        f = find_func(cls.body, fn)
        out.append(f"/-- `{var}` of `{fn}` -/")
        out.append(f"def {lname} : List (String × List Char) := " + lean_pairs_chars(str_dict(_assign_value(f.body, var), f"{fn}.{var}")))
    # units of seconds_to_duration (the whole body is normalised: see duration_data)
    unit_pairs, ztext = duration_data(find_func(cls.body, "seconds_to_duration"))
    us = [f"({n}, {lean_char(c)})" for n, c in unit_pairs]
    out.append("/-- `units` of `seconds_to_duration` -/")
    out.append("def durationUnits : List (Nat × Char) := " + lean_list(us))
    out.append("/-- what `seconds_to_duration` writes when no unit has a non-zero count (\"\" if it has no such case) -/")
    out.append(f"def zeroDuration : String := {lean_str(ztext)}")
    ad = find_func(cls.body, "age_to_duration")
    ret = [st for st in ad.body if isinstance(st, ast.Return)]
    if not ret or not isinstance(ret[0].value, ast.Call) or ast.unparse(ret[0].value.func) != "C7N_Rewriter.seconds_to_duration":
        raise TranslationError("age_to_duration: not a call of seconds_to_duration")
    arg = ret[0].value.args[0]
    # float(age) * 24 * 60 * 60  -> the factor
    age_param = ad.args.args[0].arg
    probe = ast.unparse(arg).replace(f"float({age_param})", "1")
    try:
        factor = eval(probe, {"__builtins__": {}}, {})
    except Exception as ex:
        raise TranslationError(f"age_to_duration: unsupported expression {ast.unparse(arg)} ({ex})")
    if factor != int(factor):
        raise TranslationError("age_to_duration: non-integer seconds per day")
    out.append("/-- seconds per day used by `age_to_duration` -/")
    out.append(f"def secondsPerDay : Nat := {int(factor)}")
    qd = q_data(find_func(cls.body, "q"))
    out.append("/-- constant-key entries of the `escapes` dict of `q` -/")
    out.append(f"def qEscapes : List (Char × String) := {qd['qEscapes']}")
    out.append(f"def qEscapesQuote : Bool := {qd['qEscapesQuote']}")
    out.append(f"def qCtlBelow : Nat := {qd['qCtlBelow']}")
    out.append(f"def qCtlAlso : Nat := {qd['qCtlAlso']}")
    out.append("end Cel.Gen.XlateTables\n")
    return "\n".join(out)


GENERATORS = {"XlateTables": gen_xlate_tables}
