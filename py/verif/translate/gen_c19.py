"""Generator for Gen/XlateTables.lean (C19): the operator / value_type / resource tables and the
small constants of `src/xlate/c7n_to_cel.py`, re-read from the working tree on every run.

Everything is extracted from the AST (dict / list / tuple / string literals, `ast.literal_eval`
style); the `type_value_map` lambdas are translated into `TVExpr` piece lists; the `escapes` dict
and the control-character test of `q` and the `units` list of `seconds_to_duration` become data.
Anything that does not have the expected literal shape is a TranslationError (handled by the check
like a broken bridge)."""
from __future__ import annotations
import ast
from typing import Dict, List, Tuple
from .py2lean import TranslationError, find_class, find_func, lean_str, lean_list
from .common import parse, HEADER

SRC = "src/xlate/c7n_to_cel.py"

# (function, variable) -> Lean name, for the per-resource tables
RESOURCE_TABLES = [
    ("type_age_rewrite", "attribute_map", "ageAttr"),
    ("type_security_group_rewrite", "attribute_map", "sgAttr"),
    ("type_vpc_rewrite", "attribute_map", "vpcAttr"),
    ("type_kms_key_rewrite", "attribute_map", "kmsAttr"),
    ("cross_account_rewrite", "resource_type_map", "crossAccount"),
    ("used_rewrite", "resource_type_map", "used"),
]


def _assign_value(body, name: str):
    for st in ast.walk(ast.Module(body=list(body), type_ignores=[])):
        if isinstance(st, ast.Assign) and len(st.targets) == 1 and isinstance(st.targets[0], ast.Name) \
                and st.targets[0].id == name:
            return st.value
        if isinstance(st, ast.AnnAssign) and isinstance(st.target, ast.Name) and st.target.id == name and st.value is not None:
            return st.value
    raise TranslationError(f"assignment to {name} not found")


def same(node, src: str) -> bool:
    """structural equality of an AST node with the expression/statement written in `src`"""
    try:
        want = ast.parse(src, mode="eval").body
    except SyntaxError:
        want = ast.parse(src).body[0]
    if isinstance(node, ast.Expr) and not isinstance(want, ast.Expr):
        node = node.value
    return ast.dump(node) == ast.dump(want)


def str_dict(node, what: str) -> List[Tuple[str, str]]:
    if not isinstance(node, ast.Dict):
        raise TranslationError(f"{what}: not a dict literal")
    try:
        d = ast.literal_eval(node)
    except Exception as ex:
        raise TranslationError(f"{what}: not a literal dict ({ex})")
    out = []
    for k, v in d.items():
        if not isinstance(k, str) or not isinstance(v, str):
            raise TranslationError(f"{what}: non-string entry {k!r}: {v!r}")
        out.append((k, v))
    if len(out) != len(node.keys):
        raise TranslationError(f"{what}: duplicate keys")
    return out


def lean_chars(v: str) -> str:
    return "[" + ",".join(lean_char(c) for c in v) + "]"


def lean_pairs_chars(pairs: List[Tuple[str, str]]) -> str:
    """(name, text as an explicit `List Char`): kernel reduction (`decide +kernel`) over long texts is
    fast on char lists and very slow through `String.toList`"""
    return "[\n  " + ",\n  ".join(f"-- {v!r}\n  ({lean_str(k)}, {lean_chars(v)})" for k, v in pairs) + "]"


def lean_pairs(pairs: List[Tuple[str, str]]) -> str:
    return "[\n  " + ",\n  ".join(f"({lean_str(k)}, {lean_str(v)})" for k, v in pairs) + "]"


# ---- type_value_map lambdas ----------------------------------------------------------------

def _piece_arg(a, params) -> str:
    if isinstance(a, ast.Name) and a.id == params[0]:
        return ".sentinel"
    if isinstance(a, ast.Name) and a.id == params[1]:
        return ".value"
    src = ast.unparse(a)
    if src == "C7N_Rewriter.now":
        return ".now"
    if src == f"C7N_Rewriter.age_to_duration({params[0]})":
        return ".ageDur"
    raise TranslationError(f"type_value_map: unsupported format argument {src}")


def tv_expr(e, params) -> str:
    if isinstance(e, ast.Name):
        return lean_list([_piece_arg(e, params)])
    if isinstance(e, ast.Call) and isinstance(e.func, ast.Attribute) and e.func.attr == "format" \
            and isinstance(e.func.value, ast.Constant) and isinstance(e.func.value.value, str) and not e.keywords:
        fmt = e.func.value.value
        parts = fmt.split("{}")
        if len(parts) != len(e.args) + 1 or "{" in "".join(parts) or "}" in "".join(parts):
            raise TranslationError(f"type_value_map: format string {fmt!r} does not match its arguments")
        out = []
        for i, p in enumerate(parts):
            if p:
                out.append(f".text {lean_str(p)}")
            if i < len(e.args):
                out.append(_piece_arg(e.args[i], params))
        return lean_list(out)
    raise TranslationError(f"type_value_map: unsupported expression {ast.unparse(e)}")


def type_value_map(node) -> List[Tuple[str, str, str]]:
    if not isinstance(node, ast.Dict):
        raise TranslationError("type_value_map: not a dict literal")
    out = []
    for k, v in zip(node.keys, node.values):
        if not (isinstance(k, ast.Constant) and isinstance(k.value, str)):
            raise TranslationError("type_value_map: non-string key")
        if not (isinstance(v, ast.Lambda) and len(v.args.args) == 2 and isinstance(v.body, ast.Tuple) and len(v.body.elts) == 2):
            raise TranslationError(f"type_value_map[{k.value}]: not a two-argument lambda returning a pair")
        params = [a.arg for a in v.args.args]
        out.append((k.value, tv_expr(v.body.elts[0], params), tv_expr(v.body.elts[1], params)))
    return out


# ---- q --------------------------------------------------------------------------------------

def q_data(fn: ast.FunctionDef) -> Dict[str, str]:
    """the `escapes` dict (constant keys; the `quote` entry separately) and the control-character test"""
    # local names are read off the code (a renamed local is not a change of behaviour):
    # the dict literal assigned once, the list the loop appends to
    dicts = [st for st in fn.body if isinstance(st, ast.Assign) and len(st.targets) == 1
             and isinstance(st.targets[0], ast.Name) and isinstance(st.value, ast.Dict)]
    lists = [st for st in fn.body if isinstance(st, ast.Assign) and len(st.targets) == 1
             and isinstance(st.targets[0], ast.Name) and isinstance(st.value, ast.List) and not st.value.elts]
    if len(dicts) != 1 or len(lists) != 1:
        raise TranslationError("q: expected one dict literal (escapes) and one empty list (pieces)")
    esc, escn, bodyn = dicts[0].value, dicts[0].targets[0].id, lists[0].targets[0].id
    quote_param = fn.args.args[1].arg
    consts, has_quote = [], False
    for k, v in zip(esc.keys, esc.values):
        if isinstance(k, ast.Constant) and isinstance(k.value, str) and len(k.value) == 1 \
                and isinstance(v, ast.Constant) and isinstance(v.value, str):
            consts.append((k.value, v.value))
        elif isinstance(k, ast.Name) and k.id == quote_param and same(v, 'f"\\\\{%s}"' % quote_param):
            has_quote = True
        else:
            raise TranslationError(f"q: unsupported escapes entry {ast.unparse(k)}: {ast.unparse(v)}")
    # the loop: if c in escapes / elif ord(c) < A or ord(c) == B / else
    loops = [st for st in fn.body if isinstance(st, ast.For)]
    if len(loops) != 1:
        raise TranslationError("q: expected exactly one for-loop over the text")
    loop = loops[0]
    var = loop.target.id if isinstance(loop.target, ast.Name) else None
    if var is None or len(loop.body) != 1 or not isinstance(loop.body[0], ast.If):
        raise TranslationError("q: loop body is not a single if/elif/else")
    if1 = loop.body[0]
    if not same(if1.test, f"{var} in {escn}") or len(if1.body) != 1 or not same(if1.body[0], f"{bodyn}.append({escn}[{var}])"):
        raise TranslationError("q: first branch is not the escapes lookup")
    if len(if1.orelse) != 1 or not isinstance(if1.orelse[0], ast.If):
        raise TranslationError("q: missing control-character branch")
    if2 = if1.orelse[0]
    t = if2.test
    ok = (isinstance(t, ast.BoolOp) and isinstance(t.op, ast.Or) and len(t.values) == 2
          and all(isinstance(c, ast.Compare) and same(c.left, f"ord({var})") and len(c.ops) == 1
                  and isinstance(c.comparators[0], ast.Constant) and isinstance(c.comparators[0].value, int) for c in t.values)
          and isinstance(t.values[0].ops[0], ast.Lt) and isinstance(t.values[1].ops[0], ast.Eq))
    if not ok:
        raise TranslationError(f"q: control-character test has an unexpected shape: {ast.unparse(t)}")
    below, also = t.values[0].comparators[0].value, t.values[1].comparators[0].value
    if len(if2.body) != 1 or not same(if2.body[0], '%s.append(f"\\\\x{ord(%s):02x}")' % (bodyn, var)):
        raise TranslationError(f"q: control characters are not written as \\xNN: {ast.unparse(if2.body[0])}")
    if len(if2.orelse) != 1 or not same(if2.orelse[0], f"{bodyn}.append({var})"):
        raise TranslationError("q: last branch does not copy the character")
    rets = [st for st in fn.body if isinstance(st, ast.Return)]
    if not rets or not same(rets[-1].value, "f\"{%s}{''.join(%s)}{%s}\"" % (quote_param, bodyn, quote_param)):
        raise TranslationError("q: return is not quote + body + quote")
    return {
        "qEscapes": "[" + ", ".join(f"({lean_char(k)}, {lean_str(v)})" for k, v in consts) + "]",
        "qEscapesQuote": "true" if has_quote else "false",
        "qCtlBelow": str(below), "qCtlAlso": str(also),
    }


def lean_char(c: str) -> str:
    o = ord(c)
    if c == "\\":
        return "'\\\\'"
    if c == "'":
        return "'\\''"
    if c == "\n":
        return "'\\n'"
    if c == "\t":
        return "'\\t'"
    if c == "\r":
        return "'\\r'"
    if o < 32 or o == 127:
        return "'\\x%02x'" % o
    if o > 126:
        return "'\\u{%x}'" % o
    return f"'{c}'"


def const_int(e) -> int:
    try:
        v = eval(compile(ast.Expression(e), "<units>", "eval"), {"__builtins__": {}}, {})
    except Exception as ex:
        raise TranslationError(f"not a constant integer expression: {ast.unparse(e)} ({ex})")
    if not isinstance(v, int) or isinstance(v, bool):
        raise TranslationError(f"not an integer: {ast.unparse(e)}")
    return v


def gen_xlate_tables() -> str:
    m = parse(SRC)
    cls = find_class(m, "C7N_Rewriter")
    out = [HEADER.format(src=SRC + " (atomic_op_map, type_value_map, filter_op_map, resource tables, q, units)"),
           "import Cel.Model.XlateValue\nnamespace Cel.Gen.XlateTables\nopen Cel.XlateValue (TVPiece TVExpr)\n"]
    # class-level constants
    for name, lname in (("resource", "cResource"), ("now", "cNow")):
        v = _assign_value(cls.body, name)
        if not (isinstance(v, ast.Constant) and isinstance(v.value, str)):
            raise TranslationError(f"C7N_Rewriter.{name} is not a string constant")
        out.append(f"def {lname} : String := {lean_str(v.value)}")
    out.append("/-- `C7N_Rewriter.atomic_op_map` -/")
    out.append("def atomicOpMap : List (String × String) := " + lean_pairs(str_dict(_assign_value(cls.body, "atomic_op_map"), "atomic_op_map")))
    vt = find_func(cls.body, "value_to_cel")
    tvm = type_value_map(_assign_value(vt.body, "type_value_map"))
    out.append("/-- `type_value_map` of `value_to_cel`: name ↦ (new cel_value, new key) as piece lists -/")
    out.append("def typeValueMap : List (String × (TVExpr × TVExpr)) := [\n  "
               + ",\n  ".join(f"({lean_str(k)}, ({a}, {b}))" for k, a, b in tvm) + "]")
    vf = find_func(cls.body, "value_from_to_cel")
    out.append("/-- `filter_op_map` of `value_from_to_cel` -/")
    out.append("def filterOpMap : List (String × String) := " + lean_pairs(str_dict(_assign_value(vf.body, "filter_op_map"), "filter_op_map")))
    kf = find_func(cls.body, "key_to_cel")
    out.append("def functionMap : List (String × String) := " + lean_pairs(str_dict(_assign_value(kf.body, "function_map"), "function_map")))
    for fn, var, lname in RESOURCE_TABLES:
        f = find_func(cls.body, fn)
        out.append(f"/-- `{var}` of `{fn}` -/")
        out.append(f"def {lname} : List (String × List Char) := " + lean_pairs_chars(str_dict(_assign_value(f.body, var), f"{fn}.{var}")))
    # units of seconds_to_duration
    sd = find_func(cls.body, "seconds_to_duration")
    cands = [st.value for st in sd.body if isinstance(st, ast.Assign) and isinstance(st.value, ast.List)
             and st.value.elts and all(isinstance(e, ast.Tuple) for e in st.value.elts)]
    if len(cands) != 1:
        raise TranslationError("seconds_to_duration: expected one list of (seconds, name) pairs")
    units = cands[0]
    us = []
    for e in units.elts:
        if not (isinstance(e, ast.Tuple) and len(e.elts) == 2 and isinstance(e.elts[1], ast.Constant)
                and isinstance(e.elts[1].value, str) and len(e.elts[1].value) == 1):
            raise TranslationError("seconds_to_duration: unit entry is not (seconds, one-letter name)")
        us.append(f"({const_int(e.elts[0])}, {lean_char(e.elts[1].value)})")
    out.append("/-- `units` of `seconds_to_duration` -/")
    out.append("def durationUnits : List (Nat × Char) := " + lean_list(us))
    ztext = ""
    for st in ast.walk(sd):
        if isinstance(st, ast.If) and isinstance(st.test, ast.UnaryOp) and isinstance(st.test.op, ast.Not) \
                and isinstance(st.test.operand, ast.Name) and len(st.body) == 1 and isinstance(st.body[0], ast.Expr):
            call = st.body[0].value
            if isinstance(call, ast.Call) and same(call.func, f"{st.test.operand.id}.append") and len(call.args) == 1 \
                    and isinstance(call.args[0], ast.Constant) and isinstance(call.args[0].value, str):
                ztext = call.args[0].value
    out.append("/-- what `seconds_to_duration` writes when no unit has a non-zero count (\"\" if it has no such case) -/")
    out.append(f"def zeroDuration : String := {lean_str(ztext)}")
    ad = find_func(cls.body, "age_to_duration")
    ret = [st for st in ad.body if isinstance(st, ast.Return)]
    if not ret or not isinstance(ret[0].value, ast.Call) or ast.unparse(ret[0].value.func) != "C7N_Rewriter.seconds_to_duration":
        raise TranslationError("age_to_duration: not a call of seconds_to_duration")
    arg = ret[0].value.args[0]
    # float(age) * 24 * 60 * 60  -> the factor
    age_param = ad.args.args[0].arg
    probe = ast.unparse(arg).replace(f"float({age_param})", "1")
    try:
        factor = eval(probe, {"__builtins__": {}}, {})
    except Exception as ex:
        raise TranslationError(f"age_to_duration: unsupported expression {ast.unparse(arg)} ({ex})")
    if factor != int(factor):
        raise TranslationError("age_to_duration: non-integer seconds per day")
    out.append("/-- seconds per day used by `age_to_duration` -/")
    out.append(f"def secondsPerDay : Nat := {int(factor)}")
    qd = q_data(find_func(cls.body, "q"))
    out.append("/-- constant-key entries of the `escapes` dict of `q` -/")
    out.append(f"def qEscapes : List (Char × String) := {qd['qEscapes']}")
    out.append(f"def qEscapesQuote : Bool := {qd['qEscapesQuote']}")
    out.append(f"def qCtlBelow : Nat := {qd['qCtlBelow']}")
    out.append(f"def qCtlAlso : Nat := {qd['qCtlAlso']}")
    out.append("end Cel.Gen.XlateTables\n")
    return "\n".join(out)


GENERATORS = {"XlateTables": gen_xlate_tables}
