"""Generator for Gen/Eval.lean (C03): the control-skeleton facts of both runners that the Lean model assumes,
extracted from src/celpy/evaluation.py on every run:

  * the `except` classes of every Evaluator rule method (and of the map_lit branch of `primary`),
  * the classes caught by `result()` and by the macro sub-evaluators,
  * which operands the Phase1Transpiler templates wrap in `celpy.evaluation.result(activation, …)`,
  * which `macro_*` helpers wrap the body in `result()` and coerce with BoolType,
  * the macro name sets of both runners, the keys of `base_functions`.
"""
from __future__ import annotations
import ast
import re
from typing import Any, Dict, List

from .py2lean import TranslationError, find_func, find_class, lean_str, lean_list
from .common import parse, HEADER, exc_names, lean_exc

RULES = ["expr", "conditionalor", "conditionaland", "relation", "addition", "multiplication", "unary", "member_index",
         "function_eval", "method_eval", "literal", "member_object"]


_SCOPES: Dict[str, Any] = {}     # where extracted helpers are looked up: class body of the rule, module body


def _callee(call: ast.Call):
    """the FunctionDef of a private helper (`self._name(...)`, `cls._name(...)`, module-level `_name(...)`) this call
    applies, or None.  Rewrites that extract a block of a rule into such a helper are followed one level deep, so the
    extractor keeps seeing the handler / the error check that moved (and a changed one still shows)."""
    f = call.func
    name = None
    if isinstance(f, ast.Attribute) and isinstance(f.value, ast.Name) and f.value.id in ("self", "cls") and f.attr.startswith("_"):
        name, where = f.attr, "cls"
    elif isinstance(f, ast.Name) and f.id.startswith("_"):
        name, where = f.id, "mod"
    if name is None or name.startswith("__"):
        return None
    for n in _SCOPES.get(where, []):
        if isinstance(n, ast.FunctionDef) and n.name == name:
            return n
    return None


def _with_helpers(node: ast.AST) -> List[ast.AST]:
    """the node plus the bodies of the private helpers it calls (one level)"""
    out = [node]
    for n in ast.walk(node):
        if isinstance(n, ast.Call):
            d = _callee(n)
            if d is not None and d not in out and d is not node:
                out.append(d)
    return out


def _source(node: ast.AST) -> str:
    return "\n".join(ast.unparse(n) for n in _with_helpers(node))


def _handlers(node: ast.AST) -> List[str]:
    hs: List[str] = []
    for part in _with_helpers(node):
        for n in ast.walk(part):
            if isinstance(n, ast.Try):
                for h in n.handlers:
                    for c in exc_names(h.type):
                        if c not in hs:
                            hs.append(c)
    return hs


def _branch(func: ast.FunctionDef, needle: str) -> ast.AST:
    """the body of the `if/elif` whose test mentions the string constant `needle`"""
    for n in ast.walk(func):
        if isinstance(n, ast.If):
            consts = [c.value for c in ast.walk(n.test) if isinstance(c, ast.Constant)]
            if needle in consts and len(consts) == 1:
                return ast.Module(body=n.body, type_ignores=[])
    raise TranslationError(f"{func.name}: no branch for {needle!r}")


def _set_literal_with(func: ast.FunctionDef, member: str) -> List[str]:
    for n in ast.walk(func):
        if isinstance(n, ast.Set):
            vals = [e.value for e in n.elts if isinstance(e, ast.Constant)]
            if member in vals:
                return sorted(vals)
    raise TranslationError(f"{func.name}: no set literal containing {member!r}")


def extract_tables() -> Dict[str, Any]:
    ev = parse("src/celpy/evaluation.py")
    E = find_class(ev, "Evaluator")
    P1 = find_class(ev, "Phase1Transpiler")
    P2 = find_class(ev, "Phase2Transpiler")
    T = find_class(ev, "Transpiler")
    out: Dict[str, Any] = {"handlers": {}}
    _SCOPES["cls"], _SCOPES["mod"] = E.body, ev.body
    for r in RULES:
        out["handlers"][r] = _handlers(find_func(E.body, r))
    prim = find_func(E.body, "primary")
    out["handlers"]["map_lit"] = _handlers(_branch(prim, "map_lit"))
    out["handlers"]["ident"] = _handlers(_branch(prim, "ident"))
    mda = find_func(E.body, "member_dot_arg")
    for m in ("map", "filter", "exists_one"):
        out["handlers"]["macro_" + m] = _handlers(_branch(mda, m))
    out["handlers"]["ss_macro"] = _handlers(find_func(E.body, "build_ss_macro_eval"))
    out["handlers"]["macro_plain"] = _handlers(find_func(E.body, "build_macro_eval"))
    # reducers of all/exists in the interpreter
    for m, op in (("all", "logical_and"), ("exists", "logical_or")):
        src = _source(_branch(mda, m))
        out[f"interp_{m}_reducer_catches"] = ["TypeError"] if f"eval_error('no such overload', TypeError)(celpy.celtypes.{op})" in src else []
    out["macros_interp"] = _set_literal_with(mda, "exists_one")
    out["macros_compiled"] = _set_literal_with(find_func(P1.body, "member_dot_arg"), "exists_one")
    # result()
    # the classes result() CONVERTS: handlers of the try around the call of the lambda that do not re-raise
    # (one `except (A, B)`, several `except` clauses, a message chain moved into a helper: same set)
    res = find_func(ev.body, "result")
    tries = [s for s in ast.walk(res) if isinstance(s, ast.Try)]
    if len(tries) != 1:
        raise TranslationError("result(): expected exactly one try statement")
    conv: List[str] = []
    for h in tries[0].handlers:
        if any(isinstance(x, ast.Raise) for x in ast.walk(h)):
            continue
        for c in exc_names(h.type):
            if c not in conv:
                conv.append(c)
    out["result"] = conv
    # Transpiler.evaluate: blanket handler
    out["evaluate_blanket"] = _handlers(find_func(T.body, "evaluate"))
    # templates: number of operands wrapped in result()
    wrap = {}
    _SCOPES["cls"] = P1.body
    for r in ("expr", "conditionalor", "conditionaland", "ident_arg", "member_dot_arg"):
        src = _source(find_func(P1.body, r))
        # `${n}` of a string.Template or `{n}` of an f-string / str.format
        wrap[r] = len(re.findall(r"celpy\.evaluation\.result\(activation, ex_\$?\{n\}_", src))
    out["template_result_operands"] = wrap
    out["top_level_result"] = "CEL = celpy.evaluation.result(base_activation" in ast.unparse(find_func(P2.body, "statements"))
    # macro helpers
    helpers = {}
    _SCOPES["cls"] = []
    for m in ("map", "filter", "exists_one", "exists", "all"):
        f = find_func(ev.body, "macro_" + m)
        parts = _with_helpers(f)
        src = _source(f)
        if len(f.args.args) < 3:
            raise TranslationError(f"macro_{m}: expected (activation, bind_variable, cel_expr, cel_gen)")
        body_param = f.args.args[2].arg
        calls = [n for part in parts for n in ast.walk(part) if isinstance(n, ast.Call)]
        # the body lambda is applied through result() …
        via_result = [c for c in calls if ast.unparse(c.func) in ("result", "celpy.evaluation.result") and len(c.args) == 2
                      and isinstance(c.args[1], ast.Name) and c.args[1].id == body_param]
        # … or directly (called, or handed to map()/filter()/another callable)
        direct = [c for c in calls if (isinstance(c.func, ast.Name) and c.func.id == body_param)
                  or (c not in via_result and any(isinstance(a, ast.Name) and a.id == body_param for a in c.args)
                      and _callee(c) is None)]
        if via_result and direct:
            raise TranslationError(f"macro_{m}: the body is evaluated both inside and outside result()")
        if not via_result and not direct:
            raise TranslationError(f"macro_{m}: no evaluation of the body found")
        loops = [n for part in parts for n in ast.walk(part) if isinstance(n, (ast.For, ast.While))]
        early = any(isinstance(x, (ast.Break, ast.Return)) for lp in loops for x in ast.walk(lp))
        lazy = any(isinstance(x, (ast.Yield, ast.YieldFrom)) for part in parts for x in ast.walk(part)) \
            or any(ast.unparse(c.func) in ("any", "all", "next", "itertools.takewhile", "itertools.islice", "takewhile", "islice") for c in calls)
        helpers[m] = {"body_in_result": bool(via_result),
                      "reducer_catches_TypeError": "eval_error('no such overload', TypeError)" in src,
                      "coerces_BoolType": any(ast.unparse(c.func) == "celpy.celtypes.BoolType" and c.args
                                              and not isinstance(c.args[0], ast.Constant) for c in calls),
                      # a loop that can stop before the source is exhausted (break / return inside it, any()/all()/next())
                      "may_stop_early": bool(early or lazy)}
    out["macro_helpers"] = helpers
    # has(): interpreter and template
    _SCOPES["cls"] = P1.body
    out["has_template_pybool"] = bool(re.search(r"not isinstance\(celpy\.evaluation\.result\(activation, ex_\$?\{n\}_h\), CELEvalError\)",
                                                _source(find_func(P1.body, "ident_arg"))))
    _SCOPES["cls"] = E.body
    out["has_interp_booltype"] = bool(re.search(r"celpy\.celtypes\.BoolType\(not isinstance\(\w+(\[0\])?, CELEvalError\)\)", _source(find_func(E.body, "macro_has_eval"))))
    # base_functions keys
    bf = None
    for n in ev.body:
        if isinstance(n, ast.AnnAssign) and isinstance(n.target, ast.Name) and n.target.id == "base_functions":
            bf = n.value
        if isinstance(n, ast.Assign) and any(isinstance(t, ast.Name) and t.id == "base_functions" for t in n.targets):
            bf = n.value
    if not isinstance(bf, ast.Dict):
        raise TranslationError("base_functions: expected a dict literal")
    out["base_functions"] = [k.value for k in bf.keys if isinstance(k, ast.Constant)]
    if len(out["base_functions"]) != len(bf.keys):
        raise TranslationError("base_functions: non-constant key")
    # error checks of function_eval / method_eval / exprlist / mapinits / member_dot / macro receiver
    def checks_error(fn: ast.FunctionDef) -> bool:
        return bool(re.search(r"isinstance\([^()]*(\([^()]*\))?[^()]*,\s*CELEvalError\)", _source(fn)))
    out["arg_error_check"] = {r: checks_error(find_func(E.body, r)) for r in ("function_eval", "method_eval", "exprlist", "mapinits", "member_dot")}
    out["macro_receiver_error_check"] = bool(re.search(r"if isinstance\(\w+, CELEvalError\):\s*return \w+", _source(mda)))
    out["macro_receiver_iterable_check"] = bool(re.search(r"not isinstance\(\w+,\s*(typing\.)?(collections\.abc\.)?Iterable\)", _source(mda)))
    return out


def gen_eval() -> str:
    t = extract_tables()
    L = [HEADER.format(src="src/celpy/evaluation.py (Evaluator rules, result, macro_*, Phase1Transpiler templates, base_functions)"),
         "import Cel.Model.Basic\nnamespace Cel.Gen.Eval\nopen Cel (Exc)\n"]
    for r, hs in t["handlers"].items():
        L.append(f"def handlers_{r} : List Exc := " + lean_list([lean_exc(c) for c in hs]))
    L.append("def resultCaught : List Exc := " + lean_list([lean_exc(c) for c in t["result"]]))
    L.append("def evaluateBlanket : List Exc := " + lean_list([lean_exc(c) for c in t["evaluate_blanket"]]))
    for m in ("all", "exists"):
        L.append(f"def interp_{m}_reducer_catches : List Exc := " + lean_list([lean_exc(c) for c in t[f'interp_{m}_reducer_catches']]))
    L.append("def macrosInterp : List String := " + lean_list([lean_str(s) for s in t["macros_interp"]]))
    L.append("def macrosCompiled : List String := " + lean_list([lean_str(s) for s in t["macros_compiled"]]))
    for r, n in t["template_result_operands"].items():
        L.append(f"def template_{r}_result_operands : Nat := {n}")
    L.append(f"def topLevelResult : Bool := {'true' if t['top_level_result'] else 'false'}")
    for m, h in t["macro_helpers"].items():
        for k, v in h.items():
            L.append(f"def macro_{m}_{k} : Bool := {'true' if v else 'false'}")
    L.append(f"def has_template_pybool : Bool := {'true' if t['has_template_pybool'] else 'false'}")
    L.append(f"def has_interp_booltype : Bool := {'true' if t['has_interp_booltype'] else 'false'}")
    for r, v in t["arg_error_check"].items():
        L.append(f"def {r}_checks_error_values : Bool := {'true' if v else 'false'}")
    L.append(f"def macro_receiver_error_check : Bool := {'true' if t['macro_receiver_error_check'] else 'false'}")
    L.append(f"def macro_receiver_iterable_check : Bool := {'true' if t['macro_receiver_iterable_check'] else 'false'}")
    L.append("def baseFunctions : List String := " + lean_list([lean_str(s) for s in t["base_functions"]]))
    L.append("\nend Cel.Gen.Eval\n")
    return "\n".join(L)


GENERATORS = {"Eval": gen_eval}
