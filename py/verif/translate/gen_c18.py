"""Generator for Gen/Xlate.lean (C18): the boolean skeleton of src/xlate/c7n_to_cel.py.

`C7N_Rewriter.logical_connector` and `operands` are evaluated *symbolically*: each branch of the
connective dispatch is reduced to the string template it returns, written in a small canonical
language

    rec(X, L)            C7N_Rewriter.logical_connector(resource, X, L)
    prim(X)              C7N_Rewriter.primitive(resource, X)
    join('op', XS)       " op ".join(XS)          (blanks around the operator are dropped: they are not tokens)
    operands(XS)         C7N_Rewriter.operands(XS)
    map(E, v, SRC)       [E for v in SRC] / generator
    fmt(p1 p2 …)         f-string, literal pieces quoted, blanks dropped
    if(C, A, B)          conditional expression / if-statement assigning the same variable

so that renaming locals, docstrings, comments, logging and re-ordering of the dispatch leave the
output unchanged, while a changed join operator, a dropped `operands`, a changed parenthesis rule
or nesting level change it.  `top_level_logic` (a character scanner) is summarised by the string
constants it tests for plus a fingerprint of its normalised AST.
"""
from __future__ import annotations
import ast
import hashlib
from typing import Any, Dict, List, Optional

from .py2lean import TranslationError, find_class, find_func, strip_doc, is_logger_call, lean_str, lean_list
from .common import parse, HEADER

SELF = "C7N_Rewriter"


def _is_method_call(e, name: str) -> bool:
    return (isinstance(e, ast.Call) and isinstance(e.func, ast.Attribute) and e.func.attr == name
            and isinstance(e.func.value, ast.Name) and e.func.value.id in (SELF, "cls", "self"))


def _int(s: str) -> Optional[int]:
    try:
        return int(s)
    except ValueError:
        return None


def _is_text(t: str) -> bool:
    return t[:1] in "'\"" or t.startswith("fmt(")


def _pieces(t: str) -> List[str]:
    """the pieces of a text template: a string literal (blanks dropped, as in fmt), the pieces of a fmt(...), or one hole"""
    if t[:1] in "'\"":
        v = ast.literal_eval(t)
        if not isinstance(v, str):
            raise TranslationError("text piece: " + t)
        v = v.replace(" ", "")
        return [repr(v)] if v else []
    if t.startswith("fmt(") and t.endswith(")") and _balanced(t[4:-1]):
        out, d, cur, q = [], 0, "", None
        for ch in t[4:-1]:
            if q:
                cur += ch
                if ch == q:
                    q = None
                continue
            if ch in "'\"":
                q = ch
            d += ch == "("
            d -= ch == ")"
            if ch == " " and d == 0:
                out.append(cur)
                cur = ""
            else:
                cur += ch
        return [x for x in out + [cur] if x]
    return [t]


def compare(l: str, op: str, r: str) -> str:
    """integer comparisons against a literal in one spelling: `a > k` (k on the right; `>`) or `a < k`, so that
    `level > 1`, `level >= 2`, `1 < level`, `not level <= 1` read the same (ints: a >= k  <=>  a > k-1)"""
    if _int(l) is not None and _int(r) is None:
        l, r = r, l
        op = {">": "<", "<": ">", ">=": "<=", "<=": ">="}.get(op, op)
    k = _int(r)
    if k is not None:
        if op == ">=":
            return f"{l} > {k - 1}"
        if op == "<=":
            return f"{l} < {k + 1}"
    if op == "!=":
        return negate(f"{l} == {r}")
    return f"{l} {op} {r}"


def negate(c: str) -> str:
    import re
    if c.startswith("not(") and c.endswith(")") and _balanced(c[4:-1]):
        return c[4:-1]
    m = re.fullmatch(r"(.*) ([<>]) (-?\d+)", c)
    if m and _balanced(m.group(1)) and " " not in m.group(1).replace(" + ", "+"):
        l, op, k = m.group(1), m.group(2), int(m.group(3))
        return f"{l} < {k + 1}" if op == ">" else f"{l} > {k - 1}"
    return f"not({c})"


def _balanced(s: str) -> bool:
    d, q, esc = 0, None, False
    for ch in s:
        if q:
            if esc:
                esc = False
            elif ch == "\\":
                esc = True
            elif ch == q:
                q = None
            continue
        if ch in "'\"":
            q = ch
            continue
        d += ch == "("
        d -= ch == ")"
        if d < 0:
            return False
    return d == 0 and q is None


def mk_if(c: str, a: str, b: str) -> str:
    """a negated test swaps the branches; `level < 2` is read as `level > 1` with the branches swapped (one orientation
    per variable kind would do; the model's templates use `level > 1` and `len(..) < 2`, so `>` is kept for names, `<` for len)"""
    if c.startswith("not(") and c.endswith(")") and _balanced(c[4:-1]):
        return mk_if(c[4:-1], b, a)
    import re
    m = re.fullmatch(r"(\w+) < (-?\d+)", c)
    if m:
        return f"if({m.group(1)} > {int(m.group(2)) - 1}, {b}, {a})"
    m = re.fullmatch(r"(len\(.*\)) > (-?\d+)", c)
    if m and _balanced(m.group(1)):
        return f"if({m.group(1)} < {int(m.group(2)) + 1}, {b}, {a})"
    if a == b:
        return a
    return f"if({c}, {a}, {b})"


class Sym:
    """symbolic evaluation of the straight-line/if code of one branch"""

    KNOWN = ("logical_connector", "primitive", "operands", "top_level_logic")

    def __init__(self, params: Dict[str, str], cls: Optional[ast.ClassDef] = None, mod: Optional[ast.Module] = None,
                 stack: tuple = ()):
        self.params = params      # python name -> canonical name (resource, c7n_filter, level)
        self.cls, self.mod, self.stack = cls, mod, stack

    def _helper(self, e) -> Optional[ast.FunctionDef]:
        """the definition of a private helper called as C7N_Rewriter.h(...) / cls.h(...) / module-level h(...), if any"""
        if not isinstance(e, ast.Call):
            return None
        body, name = None, None
        if (isinstance(e.func, ast.Attribute) and isinstance(e.func.value, ast.Name) and e.func.value.id in (SELF, "cls", "self")
                and e.func.attr not in self.KNOWN and self.cls is not None):
            body, name = self.cls.body, e.func.attr
        elif isinstance(e.func, ast.Name) and self.mod is not None and e.func.id not in ("list", "iter", "tuple", "len", "set", "isinstance"):
            body, name = self.mod.body, e.func.id
        if body is None:
            return None
        for n in body:
            if isinstance(n, ast.FunctionDef) and n.name == name:
                return n
        return None

    def inline(self, fn: ast.FunctionDef, e: ast.Call, env: Dict[str, str]) -> str:
        """a call of an extracted helper is replaced by the template its body returns, with the (pure, symbolic)
        argument templates substituted for the parameters; helpers may call helpers (no recursion)"""
        if fn.name in self.stack or len(self.stack) >= 3:
            raise TranslationError(f"recursive / too deeply nested helper {fn.name}")
        a = fn.args
        if a.vararg or a.kwarg or a.kwonlyargs or a.posonlyargs:
            raise TranslationError(f"helper {fn.name}: parameter list shape")
        names = [x.arg for x in a.args]
        decos = {ast.unparse(d) for d in fn.decorator_list}
        if decos - {"staticmethod", "classmethod"}:
            raise TranslationError(f"helper {fn.name}: decorator {sorted(decos)}")
        if "classmethod" in decos or (self.cls is not None and fn in self.cls.body and "staticmethod" not in decos):
            names = names[1:]          # cls / self
        bound: Dict[str, str] = {}
        if len(e.args) > len(names) or any(isinstance(x, ast.Starred) for x in e.args):
            raise TranslationError(f"helper {fn.name}: call shape")
        for n, x in zip(names, e.args):
            bound[n] = self.expr(x, env)
        for k in e.keywords:
            if k.arg is None or k.arg not in names or k.arg in bound:
                raise TranslationError(f"helper {fn.name}: keyword {k.arg}")
            bound[k.arg] = self.expr(k.value, env)
        for n, d in zip(names[len(names) - len(a.defaults):], a.defaults):
            if n not in bound:
                bound[n] = self.expr(d, {})
        if set(bound) != set(names):
            raise TranslationError(f"helper {fn.name}: missing argument")
        sub = Sym({}, self.cls, self.mod, self.stack + (fn.name,))
        r = sub.block(strip_doc(fn.body), bound)
        if r is None:
            raise TranslationError(f"helper {fn.name} falls through")
        return r

    def expr(self, e, env: Dict[str, str]) -> str:
        if isinstance(e, ast.Name):
            if e.id in env:
                return env[e.id]
            if e.id in self.params:
                return self.params[e.id]
            raise TranslationError(f"free name {e.id}")
        if isinstance(e, ast.Constant):
            return repr(e.value)
        if isinstance(e, ast.List) and not e.elts:
            return "[]"
        if _is_method_call(e, "logical_connector"):
            if len(e.args) != 3 or e.keywords:
                raise TranslationError("logical_connector call shape: " + ast.unparse(e))
            if self.expr(e.args[0], env) != "resource":
                raise TranslationError("logical_connector: first argument is not the resource")
            return f"rec({self.expr(e.args[1], env)}, {self.expr(e.args[2], env)})"
        if _is_method_call(e, "primitive"):
            if len(e.args) != 2 or self.expr(e.args[0], env) != "resource":
                raise TranslationError("primitive call shape: " + ast.unparse(e))
            return f"prim({self.expr(e.args[1], env)})"
        if _is_method_call(e, "operands"):
            if len(e.args) != 1:
                raise TranslationError("operands call shape")
            return f"operands({self.expr(e.args[0], env)})"
        if _is_method_call(e, "top_level_logic"):
            return f"top_level_logic({self.expr(e.args[0], env)})"
        if (isinstance(e, ast.Call) and isinstance(e.func, ast.Attribute) and e.func.attr == "join"
                and isinstance(e.func.value, (ast.Constant, ast.Name)) and len(e.args) == 1 and not e.keywords):
            sep = self.expr(e.func.value, env)          # a literal, or a local / helper parameter bound to one
            try:
                sepv = ast.literal_eval(sep)
            except Exception:
                sepv = None
            if not isinstance(sepv, str):
                raise TranslationError("join: separator is not a string constant: " + ast.unparse(e.func.value))
            return f"join({sepv.strip()!r}, {self.expr(e.args[0], env)})"
        fn = self._helper(e)
        if fn is not None:
            return self.inline(fn, e, env)
        if isinstance(e, (ast.ListComp, ast.GeneratorExp)):
            if len(e.generators) != 1 or e.generators[0].ifs or not isinstance(e.generators[0].target, ast.Name):
                raise TranslationError("comprehension shape: " + ast.unparse(e))
            g = e.generators[0]
            env2 = dict(env)
            env2[g.target.id] = "x"
            return f"map({self.expr(e.elt, env2)}, x, {self.expr(g.iter, env)})"
        if isinstance(e, ast.Call) and isinstance(e.func, ast.Name) and e.func.id in ("list", "iter", "tuple") and len(e.args) == 1:
            return self.expr(e.args[0], env)      # list(generator) is the same sequence
        if isinstance(e, ast.Call) and isinstance(e.func, ast.Name) and e.func.id == "len" and len(e.args) == 1:
            return f"len({self.expr(e.args[0], env)})"
        if isinstance(e, ast.Subscript):
            return f"{self.expr(e.value, env)}[{self.expr(e.slice, env)}]"
        if isinstance(e, ast.JoinedStr):
            parts = []
            for v in e.values:
                if isinstance(v, ast.Constant):
                    t = str(v.value).replace(" ", "")
                    if t:
                        parts.append(repr(t))
                elif isinstance(v, ast.FormattedValue) and v.conversion == -1 and v.format_spec is None:
                    parts.append(self.expr(v.value, env))
                else:
                    raise TranslationError("f-string piece: " + ast.unparse(e))
            return "fmt(" + " ".join(parts) + ")"
        if isinstance(e, ast.IfExp):
            return mk_if(self.expr(e.test, env), self.expr(e.body, env), self.expr(e.orelse, env))
        if isinstance(e, ast.UnaryOp) and isinstance(e.op, ast.Not):
            return negate(self.expr(e.operand, env))
        if isinstance(e, ast.Compare) and len(e.ops) == 1:
            op = {ast.Gt: ">", ast.GtE: ">=", ast.Lt: "<", ast.LtE: "<=", ast.Eq: "==", ast.NotEq: "!="}.get(type(e.ops[0]))
            if op is None:
                raise TranslationError("comparison: " + ast.unparse(e))
            return compare(self.expr(e.left, env), op, self.expr(e.comparators[0], env))
        if isinstance(e, ast.BinOp) and isinstance(e.op, ast.Add):
            l, r = self.expr(e.left, env), self.expr(e.right, env)
            if _is_text(l) or _is_text(r):
                return "fmt(" + " ".join(_pieces(l) + _pieces(r)) + ")"      # "(" + x + ")"  ==  f"({x})"
            if _int(l) is not None and _int(r) is None:
                l, r = r, l                                                   # 1 + level  ==  level + 1
            return f"{l} + {r}"
        raise TranslationError("unsupported expression: " + ast.unparse(e)[:80])

    def appended(self, stmts, env: Dict[str, str], acc: str) -> str:
        """the one element a loop body appends to `acc` (on every path exactly one append, as the last statement)"""
        stmts = [st for st in stmts if not (is_logger_call(st) or isinstance(st, ast.Pass)
                                            or (isinstance(st, ast.Expr) and isinstance(st.value, ast.Constant)))]
        env = dict(env)
        for st in stmts[:-1]:
            if isinstance(st, ast.Assign) and len(st.targets) == 1 and isinstance(st.targets[0], ast.Name) and st.targets[0].id != acc:
                env[st.targets[0].id] = self.expr(st.value, env)
            else:
                raise TranslationError("loop body: unsupported statement before the append")
        if not stmts:
            raise TranslationError("loop body appends nothing")
        last = stmts[-1]
        if (isinstance(last, ast.Expr) and isinstance(last.value, ast.Call) and isinstance(last.value.func, ast.Attribute)
                and last.value.func.attr == "append" and isinstance(last.value.func.value, ast.Name)
                and last.value.func.value.id == acc and len(last.value.args) == 1 and not last.value.keywords):
            return self.expr(last.value.args[0], env)
        if isinstance(last, ast.If) and last.orelse:
            return mk_if(self.expr(last.test, env), self.appended(last.body, env, acc), self.appended(last.orelse, env, acc))
        raise TranslationError("loop body: expected acc.append(E) on every path")

    def block(self, stmts, env: Dict[str, str]) -> Optional[str]:
        """returns the canonical returned template, or None if the block falls through (env updated)"""
        for i, st in enumerate(stmts):
            if isinstance(st, ast.Expr) and isinstance(st.value, ast.Constant):
                continue
            if is_logger_call(st) or isinstance(st, ast.Pass):
                continue
            if isinstance(st, ast.AnnAssign) and st.value is None:
                continue
            if isinstance(st, ast.Assign) and len(st.targets) == 1 and isinstance(st.targets[0], ast.Name):
                env[st.targets[0].id] = self.expr(st.value, env)
                continue
            if isinstance(st, ast.AnnAssign) and isinstance(st.target, ast.Name):
                env[st.target.id] = self.expr(st.value, env)
                continue
            if isinstance(st, ast.Return):
                return self.expr(st.value, env)
            if isinstance(st, ast.For):
                # acc = []; for v in SRC: acc.append(E)   ==   acc = [E for v in SRC]   (E may be chosen by an if/else)
                if st.orelse or not isinstance(st.target, ast.Name):
                    raise TranslationError("for loop shape")
                accs = {n.func.value.id for n in ast.walk(st) if isinstance(n, ast.Call) and isinstance(n.func, ast.Attribute)
                        and n.func.attr == "append" and isinstance(n.func.value, ast.Name)}
                if len(accs) != 1:
                    raise TranslationError("for loop: expected appends to one accumulator")
                acc = accs.pop()
                if env.get(acc) != "[]":
                    raise TranslationError(f"for loop: accumulator {acc} is not an empty list before the loop")
                env2 = dict(env)
                env2[st.target.id] = "x"
                env[acc] = f"map({self.appended(st.body, env2, acc)}, x, {self.expr(st.iter, env)})"
                continue
            if isinstance(st, ast.If):
                c = self.expr(st.test, env)
                e1, e2 = dict(env), dict(env)
                r1 = self.block(st.body, e1)
                r2 = self.block(st.orelse, e2)
                if r1 is not None and r2 is not None:
                    return mk_if(c, r1, r2)
                if r1 is None and r2 is None:
                    for k in set(e1) | set(e2):
                        a, b = e1.get(k), e2.get(k)
                        if a != b:
                            if a is None or b is None:
                                raise TranslationError(f"variable {k} assigned on one path only")
                            env[k] = mk_if(c, a, b)
                        else:
                            env[k] = a
                    continue
                rest = self.block(stmts[i + 1:], e1 if r1 is None else e2)
                if rest is None:
                    raise TranslationError("fall-through after if")
                return mk_if(c, rest, r2) if r1 is None else mk_if(c, r1, rest)
            raise TranslationError("unsupported statement: " + type(st).__name__)
        return None


def _is_keyset(l, pname: str) -> bool:
    """`set(c7n_filter.keys())` / `c7n_filter.keys()` / `set(c7n_filter)`: the key set of the filter mapping"""
    if isinstance(l, ast.Call) and isinstance(l.func, ast.Name) and l.func.id == "set" and len(l.args) == 1 and not l.keywords:
        l = l.args[0]
        if isinstance(l, ast.Name) and l.id == pname:
            return True
    return (isinstance(l, ast.Call) and isinstance(l.func, ast.Attribute) and l.func.attr == "keys" and not l.args
            and not l.keywords and isinstance(l.func.value, ast.Name) and l.func.value.id == pname)


def _keyset_test(t, pname: str, aliases=()) -> Optional[str]:
    """`set(c7n_filter.keys()) == {"not"}` (or `c7n_filter.keys() == {"not"}`, or a local bound to the key set just before
    the dispatch, or the operands swapped) -> "not" """
    if not (isinstance(t, ast.Compare) and len(t.ops) == 1 and isinstance(t.ops[0], ast.Eq)):
        return None
    l, r = t.left, t.comparators[0]
    if isinstance(l, ast.Set):
        l, r = r, l
    if not (_is_keyset(l, pname) or (isinstance(l, ast.Name) and l.id in aliases)):
        return None
    if isinstance(r, ast.Set) and len(r.elts) == 1 and isinstance(r.elts[0], ast.Constant):
        return r.elts[0].value
    return None


def _isinstance_test(t, pname: str) -> Optional[str]:
    if (isinstance(t, ast.Call) and isinstance(t.func, ast.Name) and t.func.id == "isinstance" and len(t.args) == 2
            and isinstance(t.args[0], ast.Name) and t.args[0].id == pname and isinstance(t.args[1], ast.Name)):
        return t.args[1].id
    return None


def connector_branches() -> Dict[str, str]:
    m = parse("src/xlate/c7n_to_cel.py")
    cls = find_class(m, SELF)
    f = find_func(cls.body, "logical_connector")
    names = [a.arg for a in f.args.args]
    if len(names) != 3:
        raise TranslationError("logical_connector: expected (resource, c7n_filter, level)")
    defaults = f.args.defaults
    if not (len(defaults) == 1 and isinstance(defaults[0], ast.Constant) and defaults[0].value == 0):
        raise TranslationError("logical_connector: level must default to 0")
    pres, pfil, plev = names
    sym = Sym({pres: "resource", pfil: "filter", plev: "level"}, cls, m)
    out: Dict[str, str] = {}

    def dispatch(stmts, env, aliases=frozenset()):
        """if/elif chain over isinstance / key-set tests; the key set of the filter may be bound to a local first
        (`connective = set(c7n_filter.keys())`): such a local is an alias of the key set in the tests of the chain that follows
        (all tests of an if/elif chain are evaluated before any branch body runs, and every branch returns)"""
        stmts = [s for s in strip_doc(stmts) if not (isinstance(s, ast.AnnAssign) and s.value is None) and not is_logger_call(s)]
        aliases = set(aliases)
        while len(stmts) > 1:
            s0 = stmts[0]
            tgt = (s0.targets[0] if isinstance(s0, ast.Assign) and len(s0.targets) == 1 else
                   s0.target if isinstance(s0, ast.AnnAssign) else None)
            if (isinstance(tgt, ast.Name) and tgt.id not in (pres, pfil, plev) and s0.value is not None
                    and _is_keyset(s0.value, pfil)):
                aliases.add(tgt.id)
                stmts = stmts[1:]
            else:
                break
        if len(stmts) != 1 or not isinstance(stmts[0], ast.If):
            raise TranslationError("logical_connector: expected a single if/elif dispatch")
        st = stmts[0]
        if aliases:
            # sound only if nothing rebinds the alias or the filter parameter inside the chain
            for n in ast.walk(st):
                if isinstance(n, ast.Name) and isinstance(n.ctx, (ast.Store, ast.Del)) and (n.id in aliases or n.id == pfil):
                    raise TranslationError(f"logical_connector: {n.id} is rebound inside the dispatch")
        while True:
            ty = _isinstance_test(st.test, pfil)
            ks = _keyset_test(st.test, pfil, aliases)
            if ty == "dict":
                dispatch(st.body, dict(env), aliases)
            elif ty == "list":
                out["list"] = sym.block(st.body, dict(env)) or _fail("list branch falls through")
            elif ks is not None:
                out[ks] = sym.block(st.body, dict(env)) or _fail(f"{ks} branch falls through")
            else:
                raise TranslationError("logical_connector: unrecognised test " + ast.unparse(st.test))
            if len(st.orelse) == 1 and isinstance(st.orelse[0], ast.If):
                st = st.orelse[0]
                continue
            if st.orelse:
                if len(st.orelse) == 1 and isinstance(st.orelse[0], ast.Raise):
                    out.setdefault("else-outer", "raise")
                else:
                    out["else-dict"] = sym.block(st.orelse, dict(env)) or _fail("else branch falls through")
            return
    dispatch(f.body, {})
    return out


def _fail(msg):
    raise TranslationError(msg)


def operands_template() -> str:
    m = parse("src/xlate/c7n_to_cel.py")
    cls = find_class(m, SELF)
    f = find_func(cls.body, "operands")
    names = [a.arg for a in f.args.args]
    if len(names) != 1:
        raise TranslationError("operands: expected one parameter")
    sym = Sym({names[0]: "clauses"}, cls, m)
    r = sym.block(strip_doc(f.body), {})
    if r is None:
        raise TranslationError("operands falls through")
    return r


class _Alpha(ast.NodeTransformer):
    """locals (parameters and assigned names) renamed v0, v1, … in order of first occurrence; annotations dropped;
    `x = x op e` read as `x op= e`"""

    def __init__(self, local_names):
        self.local_names, self.names = set(local_names), {}

    def visit_Name(self, n):
        if n.id in self.local_names:
            return ast.copy_location(ast.Name(id=self.names.setdefault(n.id, f"v{len(self.names)}"), ctx=n.ctx), n)
        return n

    def visit_AnnAssign(self, n):
        if n.value is None:
            return None
        return self.visit(ast.copy_location(ast.Assign(targets=[n.target], value=n.value), n))

    def visit_Call(self, n):
        """`s.startswith((a, b), ...)` / `s.endswith((a, b), ...)` read as `s.startswith(a, ...) or s.startswith(b, ...)`
        (str semantics; the receiver and the position arguments are names / constants, so evaluating them twice is the same)"""
        n = self.generic_visit(n)
        if (isinstance(n.func, ast.Attribute) and n.func.attr in ("startswith", "endswith") and n.args and not n.keywords
                and isinstance(n.args[0], ast.Tuple) and len(n.args[0].elts) >= 2
                and all(isinstance(x, (ast.Name, ast.Constant)) for x in [n.func.value] + n.args[1:])
                and all(isinstance(x, ast.Constant) and isinstance(x.value, str) for x in n.args[0].elts)):
            return ast.BoolOp(op=ast.Or(), values=[
                ast.Call(func=ast.Attribute(value=n.func.value, attr=n.func.attr, ctx=ast.Load()), args=[x] + n.args[1:], keywords=[])
                for x in n.args[0].elts])
        return n

    def visit_BoolOp(self, n):
        """`a or (b or c)` is `a or b or c` (same value, same evaluation order)"""
        n = self.generic_visit(n)
        vals = []
        for v in n.values:
            if isinstance(v, ast.BoolOp) and type(v.op) is type(n.op):
                vals += v.values
            else:
                vals.append(v)
        n.values = vals
        return n

    def visit_Assign(self, n):
        if (len(n.targets) == 1 and isinstance(n.targets[0], ast.Name) and isinstance(n.value, ast.BinOp)
                and isinstance(n.value.left, ast.Name) and n.value.left.id == n.targets[0].id):
            n = ast.copy_location(ast.AugAssign(target=n.targets[0], op=n.value.op, value=n.value.right), n)
        return self.generic_visit(n)


def scanner_facts() -> Dict[str, Any]:
    import copy
    m = parse("src/xlate/c7n_to_cel.py")
    cls = find_class(m, SELF)
    f = find_func(cls.body, "top_level_logic")
    body = [st for st in strip_doc(f.body) if not (is_logger_call(st) or isinstance(st, ast.Pass))]
    consts = sorted({n.value for st in body for n in ast.walk(st) if isinstance(n, ast.Constant) and isinstance(n.value, str)})
    params = [a.arg for a in f.args.args]
    stored = [n.id for st in body for n in ast.walk(st) if isinstance(n, ast.Name) and isinstance(n.ctx, ast.Store)]
    al = _Alpha(params + stored)
    for p in params:
        al.names[p] = f"v{len(al.names)}"
    norm = [al.visit(copy.deepcopy(st)) for st in body]
    dump = "\n".join(ast.dump(st, annotate_fields=False) for st in norm if st is not None)
    return {"consts": consts, "fingerprint": hashlib.sha1(dump.encode()).hexdigest()[:16]}


def rewrite_entry() -> str:
    """c7n_rewrite: how logical_connector is entered"""
    m = parse("src/xlate/c7n_to_cel.py")
    cls = find_class(m, SELF)
    f = find_func(cls.body, "c7n_rewrite")
    calls = [n for n in ast.walk(f) if _is_method_call(n, "logical_connector")]
    if len(calls) != 1:
        raise TranslationError("c7n_rewrite: expected one logical_connector call")
    c = calls[0]
    return f"{len(c.args)} positional, keywords {sorted(k.arg or '**' for k in c.keywords)}"


def gen_xlate() -> str:
    br = connector_branches()
    out = [HEADER.format(src="src/xlate/c7n_to_cel.py (C7N_Rewriter.logical_connector, operands, top_level_logic, c7n_rewrite)"),
           "namespace Cel.Gen.Xlate\n",
           "/-- the template each branch of `logical_connector` returns (canonical form, see gen_c18.py) -/",
           "def branches : List (String × String) := [\n" + ",\n".join(
               f"  ({lean_str(k)}, {lean_str(v)})" for k, v in sorted(br.items())) + "\n]\n",
           "def operandsTemplate : String := " + lean_str(operands_template()),
           "/-- string constants tested by the scanner `top_level_logic` -/"]
    sc = scanner_facts()
    out.append("def scannerConstants : List String := " + lean_list([lean_str(c) for c in sc["consts"]]))
    out.append("def scannerFingerprint : String := " + lean_str(sc["fingerprint"]))
    out.append("def rewriteEntry : String := " + lean_str(rewrite_entry()))
    out.append("\nend Cel.Gen.Xlate\n")
    return "\n".join(out)


GENERATORS = {"Xlate": gen_xlate}
