"""Generator for Gen/Xlate.lean (C18): the boolean skeleton of src/xlate/c7n_to_cel.py.

`C7N_Rewriter.logical_connector` and `operands` are evaluated *symbolically*: each branch of the
connective dispatch is reduced to the string template it returns, written in a small canonical
language

    rec(X, L)            C7N_Rewriter.logical_connector(resource, X, L)
    prim(X)              C7N_Rewriter.primitive(resource, X)
    join('op', XS)       " op ".join(XS)          (blanks around the operator are dropped: they are not tokens)
    operands(XS)         C7N_Rewriter.operands(XS)
    map(E, v, SRC)       [E for v in SRC] / generator
    fmt(p1 p2 …)         f-string, literal pieces quoted, blanks dropped
    if(C, A, B)          conditional expression / if-statement assigning the same variable

so that renaming locals, docstrings, comments, logging and re-ordering of the dispatch leave the
output unchanged, while a changed join operator, a dropped `operands`, a changed parenthesis rule
or nesting level change it.  `top_level_logic` (a character scanner) is summarised by the string
constants it tests for plus a fingerprint of its normalised AST.
"""
from __future__ import annotations
import ast
import hashlib
from typing import Any, Dict, List, Optional

from .py2lean import TranslationError, find_class, find_func, strip_doc, is_logger_call, lean_str, lean_list
from .common import parse, HEADER

SELF = "C7N_Rewriter"


def _is_method_call(e, name: str) -> bool:
    return (isinstance(e, ast.Call) and isinstance(e.func, ast.Attribute) and e.func.attr == name
            and isinstance(e.func.value, ast.Name) and e.func.value.id in (SELF, "cls", "self"))


class Sym:
    """symbolic evaluation of the straight-line/if code of one branch"""

    def __init__(self, params: Dict[str, str]):
        self.params = params      # python name -> canonical name (resource, c7n_filter, level)

    def expr(self, e, env: Dict[str, str]) -> str:
        if isinstance(e, ast.Name):
            if e.id in env:
                return env[e.id]
            if e.id in self.params:
                return self.params[e.id]
            raise TranslationError(f"free name {e.id}")
        if isinstance(e, ast.Constant):
            return repr(e.value)
        if _is_method_call(e, "logical_connector"):
            if len(e.args) != 3 or e.keywords:
                raise TranslationError("logical_connector call shape: " + ast.unparse(e))
            if self.expr(e.args[0], env) != "resource":
                raise TranslationError("logical_connector: first argument is not the resource")
            return f"rec({self.expr(e.args[1], env)}, {self.expr(e.args[2], env)})"
        if _is_method_call(e, "primitive"):
            if len(e.args) != 2 or self.expr(e.args[0], env) != "resource":
                raise TranslationError("primitive call shape: " + ast.unparse(e))
            return f"prim({self.expr(e.args[1], env)})"
        if _is_method_call(e, "operands"):
            if len(e.args) != 1:
                raise TranslationError("operands call shape")
            return f"operands({self.expr(e.args[0], env)})"
        if _is_method_call(e, "top_level_logic"):
            return f"top_level_logic({self.expr(e.args[0], env)})"
        if (isinstance(e, ast.Call) and isinstance(e.func, ast.Attribute) and e.func.attr == "join"
                and isinstance(e.func.value, ast.Constant) and isinstance(e.func.value.value, str) and len(e.args) == 1):
            return f"join({e.func.value.value.strip()!r}, {self.expr(e.args[0], env)})"
        if isinstance(e, (ast.ListComp, ast.GeneratorExp)):
            if len(e.generators) != 1 or e.generators[0].ifs or not isinstance(e.generators[0].target, ast.Name):
                raise TranslationError("comprehension shape: " + ast.unparse(e))
            g = e.generators[0]
            env2 = dict(env)
            env2[g.target.id] = "x"
            return f"map({self.expr(e.elt, env2)}, x, {self.expr(g.iter, env)})"
        if isinstance(e, ast.Call) and isinstance(e.func, ast.Name) and e.func.id in ("list", "iter", "tuple") and len(e.args) == 1:
            return self.expr(e.args[0], env)      # list(generator) is the same sequence
        if isinstance(e, ast.Call) and isinstance(e.func, ast.Name) and e.func.id == "len" and len(e.args) == 1:
            return f"len({self.expr(e.args[0], env)})"
        if isinstance(e, ast.Subscript):
            return f"{self.expr(e.value, env)}[{self.expr(e.slice, env)}]"
        if isinstance(e, ast.JoinedStr):
            parts = []
            for v in e.values:
                if isinstance(v, ast.Constant):
                    t = str(v.value).replace(" ", "")
                    if t:
                        parts.append(repr(t))
                elif isinstance(v, ast.FormattedValue) and v.conversion == -1 and v.format_spec is None:
                    parts.append(self.expr(v.value, env))
                else:
                    raise TranslationError("f-string piece: " + ast.unparse(e))
            return "fmt(" + " ".join(parts) + ")"
        if isinstance(e, ast.IfExp):
            return f"if({self.expr(e.test, env)}, {self.expr(e.body, env)}, {self.expr(e.orelse, env)})"
        if isinstance(e, ast.Compare) and len(e.ops) == 1:
            op = {ast.Gt: ">", ast.GtE: ">=", ast.Lt: "<", ast.LtE: "<=", ast.Eq: "==", ast.NotEq: "!="}.get(type(e.ops[0]))
            if op is None:
                raise TranslationError("comparison: " + ast.unparse(e))
            return f"{self.expr(e.left, env)} {op} {self.expr(e.comparators[0], env)}"
        if isinstance(e, ast.BinOp) and isinstance(e.op, ast.Add):
            return f"{self.expr(e.left, env)} + {self.expr(e.right, env)}"
        raise TranslationError("unsupported expression: " + ast.unparse(e)[:80])

    def block(self, stmts, env: Dict[str, str]) -> Optional[str]:
        """returns the canonical returned template, or None if the block falls through (env updated)"""
        for i, st in enumerate(stmts):
            if isinstance(st, ast.Expr) and isinstance(st.value, ast.Constant):
                continue
            if is_logger_call(st) or isinstance(st, ast.Pass):
                continue
            if isinstance(st, ast.AnnAssign) and st.value is None:
                continue
            if isinstance(st, ast.Assign) and len(st.targets) == 1 and isinstance(st.targets[0], ast.Name):
                env[st.targets[0].id] = self.expr(st.value, env)
                continue
            if isinstance(st, ast.AnnAssign) and isinstance(st.target, ast.Name):
                env[st.target.id] = self.expr(st.value, env)
                continue
            if isinstance(st, ast.Return):
                return self.expr(st.value, env)
            if isinstance(st, ast.If):
                c = self.expr(st.test, env)
                e1, e2 = dict(env), dict(env)
                r1 = self.block(st.body, e1)
                r2 = self.block(st.orelse, e2)
                if r1 is not None and r2 is not None:
                    return f"if({c}, {r1}, {r2})"
                if r1 is None and r2 is None:
                    for k in set(e1) | set(e2):
                        a, b = e1.get(k), e2.get(k)
                        if a != b:
                            if a is None or b is None:
                                raise TranslationError(f"variable {k} assigned on one path only")
                            env[k] = f"if({c}, {a}, {b})"
                        else:
                            env[k] = a
                    continue
                rest = self.block(stmts[i + 1:], e1 if r1 is None else e2)
                if rest is None:
                    raise TranslationError("fall-through after if")
                return f"if({c}, {rest}, {r2})" if r1 is None else f"if({c}, {r1}, {rest})"
            raise TranslationError("unsupported statement: " + type(st).__name__)
        return None


def _keyset_test(t, pname: str) -> Optional[str]:
    """`set(c7n_filter.keys()) == {"not"}` (or `c7n_filter.keys() == {"not"}`) -> "not" """
    if not (isinstance(t, ast.Compare) and len(t.ops) == 1 and isinstance(t.ops[0], ast.Eq)):
        return None
    l, r = t.left, t.comparators[0]
    if isinstance(l, ast.Call) and isinstance(l.func, ast.Name) and l.func.id == "set" and len(l.args) == 1:
        l = l.args[0]
    if not (isinstance(l, ast.Call) and isinstance(l.func, ast.Attribute) and l.func.attr == "keys"
            and isinstance(l.func.value, ast.Name) and l.func.value.id == pname):
        return None
    if isinstance(r, ast.Set) and len(r.elts) == 1 and isinstance(r.elts[0], ast.Constant):
        return r.elts[0].value
    return None


def _isinstance_test(t, pname: str) -> Optional[str]:
    if (isinstance(t, ast.Call) and isinstance(t.func, ast.Name) and t.func.id == "isinstance" and len(t.args) == 2
            and isinstance(t.args[0], ast.Name) and t.args[0].id == pname and isinstance(t.args[1], ast.Name)):
        return t.args[1].id
    return None


def connector_branches() -> Dict[str, str]:
    m = parse("src/xlate/c7n_to_cel.py")
    cls = find_class(m, SELF)
    f = find_func(cls.body, "logical_connector")
    names = [a.arg for a in f.args.args]
    if len(names) != 3:
        raise TranslationError("logical_connector: expected (resource, c7n_filter, level)")
    defaults = f.args.defaults
    if not (len(defaults) == 1 and isinstance(defaults[0], ast.Constant) and defaults[0].value == 0):
        raise TranslationError("logical_connector: level must default to 0")
    pres, pfil, plev = names
    sym = Sym({pres: "resource", pfil: "filter", plev: "level"})
    out: Dict[str, str] = {}

    def dispatch(stmts, env):
        """if/elif chain over isinstance / key-set tests"""
        stmts = [s for s in strip_doc(stmts) if not (isinstance(s, ast.AnnAssign) and s.value is None) and not is_logger_call(s)]
        if len(stmts) != 1 or not isinstance(stmts[0], ast.If):
            raise TranslationError("logical_connector: expected a single if/elif dispatch")
        st = stmts[0]
        while True:
            ty = _isinstance_test(st.test, pfil)
            ks = _keyset_test(st.test, pfil)
            if ty == "dict":
                dispatch(st.body, dict(env))
            elif ty == "list":
                out["list"] = sym.block(st.body, dict(env)) or _fail("list branch falls through")
            elif ks is not None:
                out[ks] = sym.block(st.body, dict(env)) or _fail(f"{ks} branch falls through")
            else:
                raise TranslationError("logical_connector: unrecognised test " + ast.unparse(st.test))
            if len(st.orelse) == 1 and isinstance(st.orelse[0], ast.If):
                st = st.orelse[0]
                continue
            if st.orelse:
                if len(st.orelse) == 1 and isinstance(st.orelse[0], ast.Raise):
                    out.setdefault("else-outer", "raise")
                else:
                    out["else-dict"] = sym.block(st.orelse, dict(env)) or _fail("else branch falls through")
            return
    dispatch(f.body, {})
    return out


def _fail(msg):
    raise TranslationError(msg)


def operands_template() -> str:
    m = parse("src/xlate/c7n_to_cel.py")
    cls = find_class(m, SELF)
    f = find_func(cls.body, "operands")
    names = [a.arg for a in f.args.args]
    if len(names) != 1:
        raise TranslationError("operands: expected one parameter")
    sym = Sym({names[0]: "clauses"})
    r = sym.block(strip_doc(f.body), {})
    if r is None:
        raise TranslationError("operands falls through")
    return r


def scanner_facts() -> Dict[str, Any]:
    m = parse("src/xlate/c7n_to_cel.py")
    cls = find_class(m, SELF)
    f = find_func(cls.body, "top_level_logic")
    body = strip_doc(f.body)
    consts = sorted({n.value for st in body for n in ast.walk(st) if isinstance(n, ast.Constant) and isinstance(n.value, str)})
    dump = "\n".join(ast.dump(st, annotate_fields=False) for st in body)
    return {"consts": consts, "fingerprint": hashlib.sha1(dump.encode()).hexdigest()[:16]}


def rewrite_entry() -> str:
    """c7n_rewrite: how logical_connector is entered"""
    m = parse("src/xlate/c7n_to_cel.py")
    cls = find_class(m, SELF)
    f = find_func(cls.body, "c7n_rewrite")
    calls = [n for n in ast.walk(f) if _is_method_call(n, "logical_connector")]
    if len(calls) != 1:
        raise TranslationError("c7n_rewrite: expected one logical_connector call")
    c = calls[0]
    return f"{len(c.args)} positional, keywords {sorted(k.arg or '**' for k in c.keywords)}"


def gen_xlate() -> str:
    br = connector_branches()
    out = [HEADER.format(src="src/xlate/c7n_to_cel.py (C7N_Rewriter.logical_connector, operands, top_level_logic, c7n_rewrite)"),
           "namespace Cel.Gen.Xlate\n",
           "/-- the template each branch of `logical_connector` returns (canonical form, see gen_c18.py) -/",
           "def branches : List (String × String) := [\n" + ",\n".join(
               f"  ({lean_str(k)}, {lean_str(v)})" for k, v in sorted(br.items())) + "\n]\n",
           "def operandsTemplate : String := " + lean_str(operands_template()),
           "/-- string constants tested by the scanner `top_level_logic` -/"]
    sc = scanner_facts()
    out.append("def scannerConstants : List String := " + lean_list([lean_str(c) for c in sc["consts"]]))
    out.append("def scannerFingerprint : String := " + lean_str(sc["fingerprint"]))
    out.append("def rewriteEntry : String := " + lean_str(rewrite_entry()))
    out.append("\nend Cel.Gen.Xlate\n")
    return "\n".join(out)


GENERATORS = {"Xlate": gen_xlate}
