"""Generator for Gen/Coll.lean (C09): the collection/macro/string parts of evaluation.py and celtypes.py
that are small enough to be *translated* into Lean on every run.

  * operator_in                       -> `Gen.Coll.operator_in` (the guarded loop, as a Lean recursion)
  * ListType.__getitem__              -> `Gen.Coll.listGetitem` (guard + Python's own list indexing)
  * MapType.__init__ / mapinits loop  -> `Gen.Coll.mapInit` / `Gen.Coll.mapinitsLoop`
  * function_startsWith/endsWith/contains/size/matches -> which primitive, which argument order
  * handler sets of member_index / member_dot / function_eval / method_eval / map_lit, result()
  * the macro branches of member_dot_arg (builder, caught classes, reducer, initial value) and macro_*
  * base_functions entries of the operators the model gives a meaning to

Anything that leaves the recognised shapes raises TranslationError (handled like a broken bridge).
"""
from __future__ import annotations
import ast
from typing import List

from .py2lean import TranslationError, find_func, find_class, strip_doc, is_logger_call, lean_str, lean_list
from .common import parse, HEADER, exc_names, lean_exc


def need(c: bool, msg: str):
    if not c:
        raise TranslationError(msg)


def body_of(fn: ast.FunctionDef) -> List[ast.stmt]:
    """statements without docstring and logging calls"""
    return [s for s in strip_doc(fn.body) if not is_logger_call(s)]


def uncast(e: ast.expr) -> ast.expr:
    """strip typing.cast(T, x)"""
    while isinstance(e, ast.Call) and isinstance(e.func, ast.Name) and e.func.id == "cast" and len(e.args) == 2:
        e = e.args[1]
    return e


def is_name(e, n: str) -> bool:
    return isinstance(e, ast.Name) and e.id == n


def ctor_name(e) -> str:
    """celpy.celtypes.BoolType / BoolType -> 'BoolType'"""
    if isinstance(e, ast.Attribute):
        return e.attr
    if isinstance(e, ast.Name):
        return e.id
    return ""


def is_isinstance(e, var: str, cls: str) -> bool:
    return (isinstance(e, ast.Call) and is_name(e.func, "isinstance") and len(e.args) == 2
            and is_name(e.args[0], var) and ctor_name(e.args[1]) == cls)


def bool_const(e) -> bool:
    """BoolType(True) / celpy.celtypes.BoolType(False)"""
    need(isinstance(e, ast.Call) and ctor_name(e.func) == "BoolType" and len(e.args) == 1
         and isinstance(e.args[0], ast.Constant) and isinstance(e.args[0].value, bool), f"expected BoolType(True|False): {ast.unparse(e)}")
    return e.args[0].value


def lean_bool(b: bool) -> str:
    return "true" if b else "false"


class _Subst(ast.NodeTransformer):
    def __init__(self, env):
        self.env = env

    def visit_Name(self, node):
        return self.env.get(node.id, node)

    def visit_Call(self, node):
        node = self.generic_visit(node)
        return uncast(node)

    def visit_Attribute(self, node):
        # celpy.celtypes.X -> X
        if isinstance(node.value, ast.Attribute) and ast.unparse(node.value) == "celpy.celtypes":
            return ast.Name(id=node.attr, ctx=ast.Load())
        return self.generic_visit(node)


def inline_return(fn: ast.FunctionDef) -> str:
    """the expression returned by the LAST top-level `return`, with single-assignment locals inlined,
    `cast(T, x)` dropped and `celpy.celtypes.` prefixes removed"""
    env = {}
    last = None
    for st in body_of(fn):
        if isinstance(st, ast.Assign) and len(st.targets) == 1 and isinstance(st.targets[0], ast.Name):
            env[st.targets[0].id] = _Subst(env).visit(ast.parse(ast.unparse(st.value), mode="eval").body)
        elif isinstance(st, ast.AnnAssign) and isinstance(st.target, ast.Name) and st.value is not None:
            env[st.target.id] = _Subst(env).visit(ast.parse(ast.unparse(st.value), mode="eval").body)
        elif isinstance(st, ast.Return):
            last = st
    need(last is not None and last.value is not None, f"{fn.name}: no top-level return")
    return ast.unparse(_Subst(env).visit(ast.parse(ast.unparse(last.value), mode="eval").body))


def handlers_in(fn: ast.AST) -> List[str]:
    hs = []
    for node in ast.walk(fn):
        if isinstance(node, ast.Try):
            for h in node.handlers:
                hs += exc_names(h.type)
    return hs


# ----------------------------------------------------------------------------------------------

def _ends_function(stmts) -> bool:
    """every path through the block leaves the function (return / raise)"""
    if not stmts:
        return False
    st = stmts[-1]
    if isinstance(st, (ast.Return, ast.Raise)):
        return True
    if isinstance(st, ast.If):
        return bool(st.orelse) and _ends_function(st.body) and _ends_function(st.orelse)
    return False


def hoist_try_else(stmts: List[ast.stmt]) -> List[ast.stmt]:
    """`try: A  except E: H  else: B` -> `try: A  except E: H` followed by `B`, when every handler leaves the
    function and there is no `finally`: B runs exactly when A finished without an exception, which is then the
    only way to reach the statement after the try; in both forms an exception raised by B is not handled."""
    out: List[ast.stmt] = []
    for st in stmts:
        if (isinstance(st, ast.Try) and st.orelse and not st.finalbody and st.handlers
                and all(_ends_function(h.body) for h in st.handlers)):
            out.append(ast.Try(body=st.body, handlers=st.handlers, orelse=[], finalbody=[]))
            out += hoist_try_else(st.orelse)
        else:
            out.append(st)
    return out


def _stores(fn: ast.FunctionDef, name: str) -> int:
    """how many places of `fn` (nested scopes included) can bind `name`"""
    n = 0
    for node in ast.walk(fn):
        if isinstance(node, ast.Name) and node.id == name and isinstance(node.ctx, (ast.Store, ast.Del)):
            n += 1
        elif isinstance(node, ast.arg) and node.arg == name:
            n += 1
        elif isinstance(node, ast.ExceptHandler) and node.name == name:
            n += 1
        elif isinstance(node, (ast.Global, ast.Nonlocal)) and name in node.names:
            n += 2
        elif isinstance(node, (ast.FunctionDef, ast.AsyncFunctionDef, ast.ClassDef)) and node is not fn and node.name == name:
            n += 1
        elif isinstance(node, ast.alias) and (node.asname or node.name.split(".")[0]) == name:
            n += 1
    return n


def resolve_local(fn: ast.FunctionDef, e: ast.expr, user: ast.stmt) -> ast.expr:
    """`e` (read inside the top-level statement `user` of `fn`) with a hoisted local followed to its definition:
    a name bound exactly ONCE in the whole function, by a plain top-level `n = <name>.<attr>` that precedes `user`,
    where <name> is itself bound exactly once, at top level and earlier, and the function stores to no attribute
    `<attr>`.  Then the local denotes, at every use after its definition, what the expression denoted there.
    Anything else is returned unchanged (and then fails the caller's shape test)."""
    if not isinstance(e, ast.Name):
        return e
    top = list(fn.body)
    if user not in top or _stores(fn, e.id) != 1:
        return e
    for i, st in enumerate(top[:top.index(user)]):
        if isinstance(st, ast.Assign) and len(st.targets) == 1 and is_name(st.targets[0], e.id):
            v = st.value
            if not (isinstance(v, ast.Attribute) and isinstance(v.value, ast.Name) and _stores(fn, v.value.id) == 1):
                return e
            base_bound_before = any(isinstance(n, ast.Name) and n.id == v.value.id and isinstance(n.ctx, ast.Store)
                                    for prev in top[:i] if isinstance(prev, (ast.Assign, ast.AnnAssign)) for n in ast.walk(prev)) \
                or any(a.arg == v.value.id for a in fn.args.args)
            attr_stored = any(isinstance(n, ast.Attribute) and n.attr == v.attr and isinstance(n.ctx, (ast.Store, ast.Del)) for n in ast.walk(fn))
            if base_bound_before and not attr_stored:
                return v
            return e
    return e


def flatten_elif_returns(stmts: List[ast.stmt]) -> List[ast.stmt]:
    """`if a: return x elif b: return y [else: rest]` -> `if a: return x; if b: return y; rest` (the same control
    flow: every taken branch leaves the function)"""
    out: List[ast.stmt] = []
    for st in stmts:
        while (isinstance(st, ast.If) and st.orelse and len(st.body) == 1 and isinstance(st.body[0], (ast.Return, ast.Raise))):
            out.append(ast.If(test=st.test, body=st.body, orelse=[]))
            rest = st.orelse
            if len(rest) == 1 and isinstance(rest[0], ast.If):
                st = rest[0]
            else:
                out += flatten_elif_returns(rest)
                st = None
                break
        if st is not None:
            out.append(st)
    return out


def tr_operator_in(ev: ast.Module) -> str:
    fn = find_func(ev.body, "operator_in")
    params = [a.arg for a in fn.args.args]
    need(len(params) == 2, "operator_in: two parameters")
    item, cont = params
    b = flatten_elif_returns(body_of(fn))
    # the accumulator initialisation (a constant) is independent of the guards: accept it before, between or after them
    accs = [i for i, st in enumerate(b[:3]) if isinstance(st, (ast.Assign, ast.AnnAssign))]
    if len(accs) == 1 and accs[0] != 2:
        b = [x for i, x in enumerate(b) if i != accs[0]][:2] + [b[accs[0]]] + [x for i, x in enumerate(b) if i != accs[0]][2:]
    need(len(b) == 5, f"operator_in: expected 5 statements, found {len(b)}")
    # 1,2: error operands are returned, item first
    order = []
    for st in b[:2]:
        need(isinstance(st, ast.If) and not st.orelse and len(st.body) == 1 and isinstance(st.body[0], ast.Return), "operator_in: guard shape")
        v = st.body[0].value
        for p in params:
            if is_isinstance(st.test, p, "CELEvalError") and is_name(v, p):
                order.append(p)
    need(sorted(order) == sorted([item, cont]), "operator_in: both error operands must be returned first")
    # 3: result_value = BoolType(False)
    st = b[2]
    need(isinstance(st, (ast.Assign, ast.AnnAssign)), "operator_in: accumulator assignment")
    acc = st.targets[0].id if isinstance(st, ast.Assign) else st.target.id
    init = bool_const(st.value)
    # 4: for c in container: try: if c == item: return BoolType(True) except TypeError: acc = CELEvalError(..)
    st = b[3]
    need(isinstance(st, ast.For) and not st.orelse and isinstance(st.target, ast.Name) and is_name(uncast(st.iter), cont), "operator_in: loop over the container")
    c = st.target.id
    lb = [s for s in st.body if not is_logger_call(s)]
    need(len(lb) == 1 and isinstance(lb[0], ast.Try) and len(lb[0].handlers) == 1 and not lb[0].orelse and not lb[0].finalbody, "operator_in: try in loop")
    tr = lb[0]
    tb = [s for s in tr.body if not is_logger_call(s)]
    need(len(tb) == 1 and isinstance(tb[0], ast.If) and not tb[0].orelse, "operator_in: if in try")
    test = tb[0].test
    need(isinstance(test, ast.Compare) and len(test.ops) == 1 and isinstance(test.ops[0], ast.Eq), "operator_in: equality test")
    l, r = test.left, test.comparators[0]
    if is_name(l, c) and is_name(r, item):
        cmp = "veq c item"
    elif is_name(l, item) and is_name(r, c):
        cmp = "veq item c"
    else:
        raise TranslationError("operator_in: comparison operands")
    ib = tb[0].body
    need(len(ib) == 1 and isinstance(ib[0], ast.Return), "operator_in: return on match")
    found = bool_const(ib[0].value)
    h = tr.handlers[0]
    caught = exc_names(h.type)
    hb = [s for s in h.body if not is_logger_call(s)]
    need(len(hb) == 1 and isinstance(hb[0], ast.Assign) and is_name(hb[0].targets[0], acc)
         and isinstance(hb[0].value, ast.Call) and ctor_name(hb[0].value.func) == "CELEvalError", "operator_in: handler stores an error")
    # 5: return acc
    need(isinstance(b[4], ast.Return) and is_name(b[4].value, acc), "operator_in: returns the accumulator")
    catches_te = any(x in ("TypeError", "Exception", "BaseException") for x in caught)
    err_arm = "loop item rest .err" if catches_te else "acc  -- TypeError is not caught: it would escape"
    g0, g1 = ["item" if p == item else "container" for p in order]
    return f"""/-- `operator_in` (evaluation.py), translated: guarded loop over the container -/
def operator_in_loop (item : V) : List V → V → V
  | [], acc => acc
  | c :: rest, acc =>
      match {cmp} with
      | .ok true => .bool {lean_bool(found)}
      | .ok false => operator_in_loop item rest acc
      | .error _ => {err_arm.replace('loop', 'operator_in_loop')}

def operator_in (item container : V) : PyM V :=
  if {g0}.isErr then .ok {g0}
  else if {g1}.isErr then .ok {g1}
  else do
    let xs ← iterOf container
    .ok (operator_in_loop item xs (.bool {lean_bool(init)}))
"""


def tr_list_getitem(ct: ast.Module) -> str:
    cls = find_class(ct, "ListType")
    try:
        fn = find_func(cls.body, "__getitem__")
    except TranslationError:
        # no override: Python's own list indexing
        return ("/-- `ListType` inherits `list.__getitem__` -/\n"
                "def listGetitem (xs : List V) (n : Int) : PyM V := pyListGetitem xs n\n")
    params = [a.arg for a in fn.args.args]
    need(len(params) == 2, "ListType.__getitem__: (self, index)")
    idx = params[1]
    b = body_of(fn)
    need(len(b) == 2 and isinstance(b[0], ast.If) and not b[0].orelse and isinstance(b[1], ast.Return), "ListType.__getitem__: guard then return")
    ret = b[1].value
    need(isinstance(ret, ast.Call) and ast.unparse(ret.func) == "super().__getitem__" and len(ret.args) == 1 and is_name(ret.args[0], idx),
         "ListType.__getitem__: delegates to super().__getitem__(index)")
    gb = b[0].body
    need(len(gb) == 1 and isinstance(gb[0], ast.Raise), "ListType.__getitem__: guard raises")
    exc = gb[0].exc
    cls_name = ctor_name(exc.func) if isinstance(exc, ast.Call) else ctor_name(exc)
    cond = guard_cond(b[0].test, idx)
    return f"""/-- `ListType.__getitem__(self, index)` for an `int` index, translated -/
def listGetitem (xs : List V) (n : Int) : PyM V :=
  if {cond} then .error {lean_exc(cls_name).replace('Cel.Exc', '')} else pyListGetitem xs n
"""


def guard_cond(e: ast.expr, idx: str) -> str:
    """boolean condition over an `int` index `n` (isinstance(index, int) is true on this path)"""
    if isinstance(e, ast.BoolOp):
        parts = [guard_cond(v, idx) for v in e.values]
        return "(" + (" ∧ " if isinstance(e.op, ast.And) else " ∨ ").join(parts) + ")"
    if isinstance(e, ast.UnaryOp) and isinstance(e.op, ast.Not):
        return f"¬{guard_cond(e.operand, idx)}"
    if isinstance(e, ast.Call) and is_name(e.func, "isinstance") and is_name(e.args[0], idx):
        t = e.args[1]
        names = [ctor_name(x) for x in t.elts] if isinstance(t, ast.Tuple) else [ctor_name(t)]
        return "True" if ("int" in names or "IntType" in names) else "False"
    if isinstance(e, ast.Compare) and len(e.ops) == 1:
        def term(x):
            if is_name(x, idx):
                return "n"
            if isinstance(x, ast.Constant) and isinstance(x.value, int) and not isinstance(x.value, bool):
                return f"({x.value} : Int)"
            if isinstance(x, ast.UnaryOp) and isinstance(x.op, ast.USub) and isinstance(x.operand, ast.Constant):
                return f"(-{x.operand.value} : Int)"
            raise TranslationError(f"guard term {ast.unparse(x)}")
        op = {ast.Lt: "<", ast.LtE: "≤", ast.Gt: ">", ast.GtE: "≥", ast.Eq: "=", ast.NotEq: "≠"}.get(type(e.ops[0]))
        need(op is not None, "guard comparison operator")
        return f"({term(e.left)} {op} {term(e.comparators[0])})"
    raise TranslationError(f"guard {ast.unparse(e)}")


def dup_loop(stmts, what: str):
    """`for k, v in pairs: if k in target: raise E(..); target[k] = v` -> exception class name"""
    loops = [s for s in stmts if isinstance(s, ast.For)]
    need(len(loops) >= 1, f"{what}: loop over pairs")
    for lp in loops:
        lb = [s for s in lp.body if not is_logger_call(s)]
        # `if k not in target: target[k] = v  else: raise E` is the same loop body
        if (len(lb) == 1 and isinstance(lb[0], ast.If) and isinstance(lb[0].test, ast.Compare) and isinstance(lb[0].test.ops[0], ast.NotIn)
                and len(lb[0].body) == 1 and len(lb[0].orelse) == 1 and isinstance(lb[0].orelse[0], ast.Raise)):
            t = lb[0].test
            lb = [ast.If(test=ast.Compare(left=t.left, ops=[ast.In()], comparators=t.comparators), body=lb[0].orelse, orelse=[]), lb[0].body[0]]
        if (len(lb) == 2 and isinstance(lb[0], ast.If) and not lb[0].orelse and isinstance(lb[0].test, ast.Compare)
                and isinstance(lb[0].test.ops[0], ast.In) and len(lb[0].body) == 1 and isinstance(lb[0].body[0], ast.Raise)
                and isinstance(lb[1], ast.Assign) and isinstance(lb[1].targets[0], ast.Subscript)):
            tgt = lp.target
            need(isinstance(tgt, ast.Tuple) and len(tgt.elts) == 2, f"{what}: loop target (key, value)")
            k, v = tgt.elts[0].id, tgt.elts[1].id
            need(is_name(lb[0].test.left, k), f"{what}: membership test on the key")
            container = ast.unparse(lb[0].test.comparators[0])
            need(ast.unparse(lb[1].targets[0].value) == container and is_name(lb[1].targets[0].slice, k) and is_name(lb[1].value, v),
                 f"{what}: stores value under key in the same mapping")
            exc = lb[0].body[0].exc
            return ctor_name(exc.func) if isinstance(exc, ast.Call) else ctor_name(exc)
    raise TranslationError(f"{what}: duplicate-key loop not recognised")


def tr_maps(ev: ast.Module, ct: ast.Module) -> str:
    out = []
    evcls = find_class(ev, "Evaluator")
    mi = find_func(evcls.body, "mapinits")
    b = body_of(mi)
    exc = dup_loop(b, "mapinits")
    # error propagation before the loop: `for item in keys_values: if isinstance(item, CELEvalError): return item`
    checks = False
    for s in b:
        if isinstance(s, ast.For) and len(s.body) == 1 and isinstance(s.body[0], ast.If):
            t = s.body[0].test
            if isinstance(t, ast.Call) and is_name(t.func, "isinstance") and ctor_name(t.args[1]) == "CELEvalError" \
                    and isinstance(s.body[0].body[0], ast.Return):
                checks = True
    out.append(f"def mapinitsDupRaises : Exc := {lean_exc(exc).replace('Cel.Exc', '')}")
    out.append(f"def mapinitsReturnsFirstError : Bool := {lean_bool(checks)}")
    init = find_func(find_class(ct, "MapType").body, "__init__")
    seq_branch = None
    for s in ast.walk(init):
        if isinstance(s, ast.If) and isinstance(s.test, ast.Call) and is_name(s.test.func, "isinstance") and ctor_name(s.test.args[1]) == "Sequence":
            seq_branch = s.body
    need(seq_branch is not None, "MapType.__init__: Sequence branch")
    out.append(f"def mapInitDupRaises : Exc := {lean_exc(dup_loop(seq_branch, 'MapType.__init__')).replace('Cel.Exc', '')}")
    # exprlist: first error among the values is returned
    el = find_func(evcls.body, "exprlist")
    src = ast.unparse(el)
    out.append(f"def exprlistReturnsFirstError : Bool := {lean_bool('isinstance(v, CELEvalError)' in src and 'next(errors)' in src)}")
    # MapType.__getitem__ : key type check raising TypeError, then dict lookup
    gi = find_func(find_class(ct, "MapType").body, "__getitem__")
    gb = body_of(gi)
    need(len(gb) == 2 and isinstance(gb[0], ast.If) and isinstance(gb[0].body[0], ast.Raise) and isinstance(gb[1], ast.Return)
         and ast.unparse(gb[1].value.func) == "super().__getitem__", "MapType.__getitem__: check then dict lookup")
    need(ast.unparse(gb[0].test) == f"not MapType.valid_key_type({gi.args.args[1].arg})", "MapType.__getitem__: valid_key_type guard")
    e = gb[0].body[0].exc
    out.append(f"def mapGetitemBadKeyRaises : Exc := {lean_exc(ctor_name(e.func)).replace('Cel.Exc', '')}")
    vk = find_func(find_class(ct, "MapType").body, "valid_key_type")
    rb = body_of(vk)
    need(len(rb) == 1 and isinstance(rb[0], ast.Return) and isinstance(rb[0].value, ast.Call) and is_name(rb[0].value.func, "isinstance"),
         "valid_key_type: isinstance ladder")
    names = sorted(ctor_name(x) for x in rb[0].value.args[1].elts)      # a set of classes
    out.append("def validKeyTypes : List String := " + lean_list([lean_str(n) for n in names]))
    return "\n".join(out) + "\n"


class MiniTr:
    """A small method over `self` (a dict as its entry list) and value parameters -> a Lean `do` block in
    `PyM V`.  Statements: if/elif/else, return, raise, single assignment, a terminal try/except around a
    returning body.  Expressions: parameters/locals, None, cast(T, x), super().get(k[, d]) / dict.get(self, k[, d]),
    super().__getitem__(k) / dict.__getitem__(self, k), self[k].  Conditions: not / and / or, `k in self`,
    `k not in self`, `x is None`, `x is not None`, <Class|self>.valid_key_type(x).  Everything else: TranslationError."""

    def __init__(self, what: str, self_name: str, names: List[str]):
        self.what = what
        self.self_name = self_name
        self.names = set(names)

    def fail(self, node):
        raise TranslationError(f"{self.what}: outside the translated subset: {ast.unparse(node)[:80]}")

    def v(self, name: str) -> str:
        return "p_" + name

    def is_self(self, e) -> bool:
        return is_name(e, self.self_name)

    def dict_call(self, e, meth: str):
        """arguments of super().<meth>(…) / dict.<meth>(self, …), else None"""
        if not (isinstance(e, ast.Call) and isinstance(e.func, ast.Attribute) and e.func.attr == meth and not e.keywords):
            return None
        recv = e.func.value
        if isinstance(recv, ast.Call) and is_name(recv.func, "super") and not recv.args:
            return list(e.args)
        if is_name(recv, "dict") and e.args and self.is_self(e.args[0]):
            return list(e.args[1:])
        return None

    def expr(self, e) -> str:
        """a Lean term of type V, usable inside a do block (monadic parts are `(← …)`)"""
        e = uncast(e)
        if isinstance(e, ast.Name) and e.id in self.names:
            return self.v(e.id)
        if isinstance(e, ast.Constant) and e.value is None:
            return ".null"
        a = self.dict_call(e, "get")
        if a is not None and len(a) in (1, 2):
            d = self.expr(a[1]) if len(a) == 2 else ".null"
            return f"(← dictGetD p_self {self.expr(a[0])} {d})"
        a = self.dict_call(e, "__getitem__")
        if a is not None and len(a) == 1:
            return f"(← dictGetitem p_self {self.expr(a[0])})"
        if isinstance(e, ast.Subscript) and self.is_self(e.value):
            return f"(← getitem (.map p_self) {self.expr(e.slice)})"
        self.fail(e)

    def cond(self, e) -> str:
        if isinstance(e, ast.UnaryOp) and isinstance(e.op, ast.Not):
            return f"(!{self.cond(e.operand)})"
        if isinstance(e, ast.BoolOp):
            parts = [self.cond(x) for x in e.values]
            need(not any("←" in p for p in parts[1:]), f"{self.what}: an effectful operand after a short-circuit operator")
            return "(" + (" && " if isinstance(e.op, ast.And) else " || ").join(parts) + ")"
        if isinstance(e, ast.Compare) and len(e.ops) == 1:
            l, r, op = e.left, e.comparators[0], e.ops[0]
            if isinstance(op, (ast.In, ast.NotIn)) and self.is_self(r):
                t = f"(← dictContains {self.expr(l)} p_self)"
                return t if isinstance(op, ast.In) else f"(!{t})"
            if isinstance(op, (ast.Is, ast.IsNot)) and isinstance(r, ast.Constant) and r.value is None:
                t = f"(V.isNone {self.expr(l)})"
                return t if isinstance(op, ast.Is) else f"(!{t})"
        if isinstance(e, ast.Call) and isinstance(e.func, ast.Attribute) and e.func.attr == "valid_key_type" and len(e.args) == 1 \
                and (self.is_self(e.func.value) or ctor_name(e.func.value) == "MapType"):
            return f"(validKey {self.expr(e.args[0])})"
        self.fail(e)

    def terminates(self, stmts) -> bool:
        if not stmts:
            return False
        st = stmts[-1]
        if isinstance(st, (ast.Return, ast.Raise)):
            return True
        if isinstance(st, ast.If):
            return bool(st.orelse) and self.terminates(st.body) and self.terminates(st.orelse)
        if isinstance(st, ast.Try):
            return self.terminates(st.body) and all(self.terminates(h.body) for h in st.handlers)
        return False

    def block(self, stmts, ind: str) -> List[str]:
        out: List[str] = []
        stmts = [s for s in stmts if not is_logger_call(s) and not isinstance(s, ast.Pass)]
        need(stmts, f"{self.what}: empty block")
        for i, st in enumerate(stmts):
            if isinstance(st, ast.Return):
                need(st.value is not None, f"{self.what}: bare return")
                out.append(f"{ind}return {self.expr(st.value)}")
            elif isinstance(st, ast.Raise):
                exc = st.exc
                need(exc is not None, f"{self.what}: bare raise")
                cls = ctor_name(exc.func) if isinstance(exc, ast.Call) else ctor_name(exc)
                out.append(f"{ind}throw {lean_exc(cls).replace('Cel.Exc', '')}")
            elif isinstance(st, (ast.Assign, ast.AnnAssign)):
                tgt = st.targets[0] if isinstance(st, ast.Assign) else st.target
                need(isinstance(tgt, ast.Name) and st.value is not None and (not isinstance(st, ast.Assign) or len(st.targets) == 1),
                     f"{self.what}: assignment shape")
                val = self.expr(st.value)
                self.names.add(tgt.id)
                out.append(f"{ind}let {self.v(tgt.id)} : V := {val}")
            elif isinstance(st, ast.If):
                out.append(f"{ind}if {self.cond(st.test)} then")
                out += self.block(st.body, ind + "  ")
                if st.orelse:
                    out.append(f"{ind}else")
                    out += self.block(st.orelse, ind + "  ")
            elif isinstance(st, ast.Try):
                need(i == len(stmts) - 1 and not st.orelse and not st.finalbody and len(st.handlers) == 1 and self.terminates([st]),
                     f"{self.what}: only a terminal try/except whose branches all return or raise")
                h = st.handlers[0]
                need(h.name is None or not any(isinstance(n, ast.Name) and n.id == h.name for b in h.body for n in ast.walk(b)),
                     f"{self.what}: the handler uses the exception object")
                classes = [lean_exc(c).replace("Cel.Exc", "") for c in exc_names(h.type)]
                out.append(f"{ind}match (show PyM V from do")
                out += self.block(st.body, ind + "    ")
                out.append(f"{ind}  ) with")
                for c in classes:
                    out.append(f"{ind}| .error {c} => do")
                    out += self.block(h.body, ind + "    ")
                out.append(f"{ind}| r => r")
            else:
                self.fail(st)
        return out


def tr_map_get(ct: ast.Module) -> str:
    """MapType.get(self, key, default=None): what transpiled code calls for `m.f` (and the interpreter for
    message fields), translated statement by statement."""
    fn = find_func(find_class(ct, "MapType").body, "get")
    ps = [a.arg for a in fn.args.args]
    need(len(ps) == 3 and not fn.args.vararg and not fn.args.kwarg and not fn.args.kwonlyargs, "MapType.get: (self, key, default)")
    dflt = fn.args.defaults
    need(len(dflt) == 1 and isinstance(dflt[0], ast.Constant) and dflt[0].value is None, "MapType.get: default=None")
    tr = MiniTr("MapType.get", ps[0], ps[1:])
    body = tr.block(body_of(fn), "  ")
    need(tr.terminates([s for s in body_of(fn) if not isinstance(s, ast.Pass)]), "MapType.get: a path falls off the end (returns None)")
    return ("/-- `MapType.get(self, key, default)` (celtypes.py), translated statement by statement; Python's `None` is `V.null` -/\n"
            f"def mapGet (p_self : List (V × V)) ({tr.v(ps[1])} {tr.v(ps[2])} : V) : PyM V := do\n" + "\n".join(body) + "\n")


def tr_string_fns(ev: ast.Module, ct: ast.Module) -> str:
    out = []
    for name in ("function_startsWith", "function_endsWith", "function_contains"):
        fn = find_func(ev.body, name)
        ps = [a.arg for a in fn.args.args]
        b = body_of(fn)
        need(all(isinstance(st, (ast.Assign, ast.AnnAssign, ast.Return)) for st in b) and sum(isinstance(st, ast.Return) for st in b) == 1
             and isinstance(b[-1], ast.Return), f"{name}: assignments then a single return")
        stored = [(st.targets[0] if isinstance(st, ast.Assign) else st.target) for st in b[:-1]]
        need(all(isinstance(t, ast.Name) and t.id not in ps for t in stored) and len({t.id for t in stored}) == len(stored),
             f"{name}: only fresh single-assignment locals may precede the return")
        v = ast.parse(inline_return(fn), mode="eval").body
        need(isinstance(v, ast.Call) and ctor_name(v.func) == "BoolType" and len(v.args) == 1, f"{name}: BoolType(..)")
        call = v.args[0]
        need(isinstance(call, ast.Call) and isinstance(call.func, ast.Attribute) and len(call.args) == 1, f"{name}: method call")
        recv, arg = uncast(call.func.value), uncast(call.args[0])
        need(isinstance(recv, ast.Name) and isinstance(arg, ast.Name) and recv.id in ps and arg.id in ps, f"{name}: parameters")
        out.append(f"def {name} : String × Nat × Nat := ({lean_str(call.func.attr)}, {ps.index(recv.id)}, {ps.index(arg.id)})")
    # StringType.contains: BoolType(item in self)
    sc = find_func(find_class(ct, "StringType").body, "contains")
    b = body_of(sc)
    need(len(b) == 1 and isinstance(b[0], ast.Return), "StringType.contains: single return")
    inner = b[0].value.args[0]
    need(isinstance(inner, ast.Compare) and isinstance(inner.ops[0], ast.In) and is_name(uncast(inner.left), sc.args.args[1].arg)
         and is_name(inner.comparators[0], "self"), "StringType.contains: `item in self`")
    out.append("def stringContainsIsItemInSelf : Bool := true")
    # function_size: IntType(len(container))
    fs = find_func(ev.body, "function_size")
    out.append(f"def sizeIsLen : Bool := {lean_bool(inline_return(fs) == 'IntType(len(' + fs.args.args[0].arg + '))')}")
    # function_matches: re2.search(pattern, text) under `except re2.error` -> CELEvalError; BoolType(m is not None)
    fm = find_func(ev.body, "function_matches")
    ps = [a.arg for a in fm.args.args]
    b = hoist_try_else(body_of(fm))       # try/except/else with returning handlers = try/except then the else body
    need(len(b) == 2 and isinstance(b[0], ast.Try) and not b[0].orelse and not b[0].finalbody and isinstance(b[1], ast.Return),
         "function_matches: try then return")
    tb = b[0].body
    need(len(tb) == 1 and isinstance(tb[0], ast.Assign) and isinstance(tb[0].value, ast.Call), "function_matches: m = search(..)")
    call = tb[0].value
    m = tb[0].targets[0].id
    args = [a.id for a in call.args if isinstance(a, ast.Name)]
    need(len(args) == 2 and set(args) == set(ps), "function_matches: search(pattern, text)")
    out.append(f"def matchesSearch : String × Nat × Nat := ({lean_str(ast.unparse(call.func))}, {ps.index(args[0])}, {ps.index(args[1])})")
    h = b[0].handlers
    need(len(h) == 1 and isinstance(h[0].body[-1], ast.Return) and isinstance(h[0].body[-1].value, ast.Call)
         and ctor_name(h[0].body[-1].value.func) == "CELEvalError", "function_matches: bad pattern returns a CELEvalError")
    out.append("def matchesBadPatternCaught : List Exc := " + lean_list([lean_exc(c).replace("Cel.Exc", "") for c in exc_names(h[0].type)]))
    rv = b[1].value
    ok = (isinstance(rv, ast.Call) and ctor_name(rv.func) == "BoolType" and isinstance(rv.args[0], ast.Compare)
          and isinstance(rv.args[0].ops[0], ast.IsNot) and is_name(rv.args[0].left, m)
          and isinstance(rv.args[0].comparators[0], ast.Constant) and rv.args[0].comparators[0].value is None)
    out.append(f"def matchesIsNotNone : Bool := {lean_bool(ok)}")
    return "\n".join(out) + "\n"


def tr_handlers(ev: ast.Module) -> str:
    out = []
    evcls = find_class(ev, "Evaluator")
    for rule in ("member_index", "member_dot", "function_eval", "method_eval"):
        hs = handlers_in(find_func(evcls.body, rule))
        out.append(f"def handlers_{rule} : List Exc := " + lean_list([lean_exc(c).replace("Cel.Exc", "") for c in hs]))
    # primary: the map_lit branch
    prim = find_func(evcls.body, "primary")
    hs = None
    for node in ast.walk(prim):
        if isinstance(node, ast.If) and "map_lit" in ast.unparse(node.test) and "child.data" in ast.unparse(node.test):
            hs = handlers_in(ast.Module(body=node.body, type_ignores=[]))
            break
    need(hs is not None, "primary: map_lit branch")
    out.append("def handlers_map_lit : List Exc := " + lean_list([lean_exc(c).replace("Cel.Exc", "") for c in hs]))
    res = find_func(ev.body, "result")
    tries = [s for s in res.body if isinstance(s, ast.Try)]
    need(len(tries) == 1 and len(tries[0].handlers) == 1, "result(): one try/except")
    out.append("def resultCaught : List Exc := " + lean_list([lean_exc(c).replace("Cel.Exc", "") for c in exc_names(tries[0].handlers[0].type)]))
    # evaluate(): raises an error value
    evl = find_func(evcls.body, "evaluate")
    out.append(f"def evaluateRaisesErrorValue : Bool := {lean_bool('if isinstance(value, CELEvalError):' in ast.unparse(evl) and 'raise value' in ast.unparse(evl))}")
    return "\n".join(out) + "\n"


def tr_macros(ev: ast.Module) -> str:
    """the macro branches of Evaluator.member_dot_arg and the macro_* functions of the transpiled code"""
    out = []
    evcls = find_class(ev, "Evaluator")
    mda = find_func(evcls.body, "member_dot_arg")
    # the set literal of macro names
    names = None
    for node in ast.walk(mda):
        if isinstance(node, ast.Compare) and isinstance(node.ops[0], ast.In) and isinstance(node.comparators[0], ast.Set):
            names = [e.value for e in node.comparators[0].elts if isinstance(e, ast.Constant)]
            break
    need(names is not None, "member_dot_arg: macro name set")
    out.append("def macroNames : List String := " + lean_list([lean_str(n) for n in names]))
    rows = []
    top_of = {id(n): top for top in mda.body for n in ast.walk(top)}      # the top-level statement a node sits in
    for node in ast.walk(mda):
        if isinstance(node, ast.If) and isinstance(node.test, ast.Compare) and len(node.test.ops) == 1 and isinstance(node.test.ops[0], ast.Eq) \
                and ast.unparse(resolve_local(mda, node.test.left, top_of.get(id(node)))) == "method_name_token.value" \
                and isinstance(node.test.comparators[0], ast.Constant):
            nm = node.test.comparators[0].value
            if nm not in ("map", "filter", "all", "exists", "exists_one"):
                continue
            blk = ast.Module(body=node.body, type_ignores=[])
            src = ast.unparse(blk)
            builder = "build_ss_macro_eval" if "build_ss_macro_eval" in src else ("build_macro_eval" if "build_macro_eval" in src else "?")
            caught = handlers_in(blk)
            red, init, wrapped = "", "false", "false"
            if nm in ("all", "exists"):
                red = "logical_and" if "logical_and" in src else ("logical_or" if "logical_or" in src else "?")
                need(("BoolType(True)" in src) != ("BoolType(False)" in src), f"macro {nm}: initial value")
                init = lean_bool("BoolType(True)" in src)
                wrapped = lean_bool("eval_error('no such overload', TypeError)" in src)
            truth = lean_bool(nm in ("filter", "exists_one") and ("filter(sub_expr" in src or "bool(sub_expr(" in src))
            rows.append(f"({lean_str(nm)}, {lean_str(builder)}, {lean_list([lean_exc(c).replace('Cel.Exc', '') for c in caught])}, "
                        f"{lean_str(red)}, {init}, {wrapped}, {truth})")
    need(len(rows) == 5, f"member_dot_arg: expected the five macro branches, found {len(rows)}")
    rows.sort()            # the branches test disjoint names: their order in the elif chain is immaterial
    out.append("/-- (macro, body builder, classes caught in the branch, reducer, initial value, reducer wrapped by eval_error(TypeError), uses truthiness) -/")
    out.append("def macroBranches : List (String × String × List Exc × String × Bool × Bool × Bool) :=\n  " + lean_list(rows))
    # build_macro_eval raises / build_ss_macro_eval catches CELEvalError
    ss = ast.unparse(find_func(evcls.body, "build_ss_macro_eval"))
    out.append(f"def ssBodyCatchesCELEvalError : Bool := {lean_bool('except CELEvalError as ex:' in ss and 'return ex' in ss)}")
    rows = []
    for nm, fname in (("map", "macro_map"), ("filter", "macro_filter"), ("exists_one", "macro_exists_one"), ("exists", "macro_exists"), ("all", "macro_all")):
        src = ast.unparse(find_func(ev.body, fname))
        red = "logical_and" if "logical_and" in src else ("logical_or" if "logical_or" in src else "")
        init = lean_bool("BoolType(True)" in src)
        wrapped = lean_bool("eval_error('no such overload', TypeError)" in src)
        uses_result = lean_bool("result(act, cel_expr)" in src)
        booltype = lean_bool(src.count("BoolType(") >= 2 and "return celpy.celtypes.BoolType(reduce(" in src.replace("\n", "").replace(" ", "").replace("returncelpy", "return celpy"))
        truth = lean_bool("bool(" in src)
        rows.append(f"({lean_str(nm)}, {lean_str(red)}, {init}, {wrapped}, {uses_result}, {truth})")
    out.append("/-- transpiled macros: (macro, reducer, initial value, reducer wrapped by eval_error(TypeError), elements through result(), uses truthiness) -/")
    out.append("def compiledMacros : List (String × String × Bool × Bool × Bool × Bool) :=\n  " + lean_list(rows))
    return "\n".join(out) + "\n"


def tr_base_functions(ev: ast.Module) -> str:
    table = None
    for s in ev.body:
        if isinstance(s, (ast.Assign, ast.AnnAssign)):
            tgt = s.targets[0] if isinstance(s, ast.Assign) else s.target
            if is_name(tgt, "base_functions") and isinstance(s.value, ast.Dict):
                table = s.value
    need(table is not None, "base_functions table")
    want = ["_[_]", "_in_", "_+_", "_==_", "size", "contains", "startsWith", "endsWith", "matches"]
    rows = []
    for k, v in zip(table.keys, table.values):
        if isinstance(k, ast.Constant) and k.value in want:
            rows.append(f"({lean_str(k.value)}, {lean_str(ast.unparse(v))})")
    need(len(rows) == len(want), "base_functions: entries of the collection operators")
    rows.sort()            # a dict display: the order of its entries is immaterial
    # bool_eq = boolean(operator.eq)
    beq = ast.unparse(find_func(ev.body, "bool_eq"))
    rows.append(f"({lean_str('bool_eq')}, {lean_str('boolean(operator.eq)' if 'return boolean(operator.eq)(a, b)' in beq else beq)})")
    return "def baseFunctions : List (String × String) :=\n  " + lean_list(rows) + "\n"


def gen_coll() -> str:
    ev = parse("src/celpy/evaluation.py")
    ct = parse("src/celpy/celtypes.py")
    out = [HEADER.format(src="src/celpy/evaluation.py (operator_in, function_*, member_index/member_dot/member_dot_arg, mapinits, exprlist, result, macro_*), "
                             "src/celpy/celtypes.py (ListType.__getitem__, MapType.__init__/__getitem__/valid_key_type, StringType.contains)"),
           "import Cel.Model.Coll\nnamespace Cel.Gen.Coll\nopen Cel Cel.Coll\n"]
    out.append(tr_operator_in(ev))
    out.append(tr_list_getitem(ct))
    out.append(tr_maps(ev, ct))
    out.append(tr_map_get(ct))
    out.append(tr_string_fns(ev, ct))
    out.append(tr_handlers(ev))
    out.append(tr_macros(ev))
    out.append(tr_base_functions(ev))
    out.append("end Cel.Gen.Coll\n")
    return "\n".join(out)


GENERATORS = {"Coll": gen_coll}
