"""py2lean, int dialect, second edition (C01).  Translates the `int64`/`uint64` range-check
decorators and the IntType/UintType arithmetic dunders of celtypes.py into Lean `PyM Int`
definitions.  Compared with the first edition (`py2lean.IntTr`, still used by the logic dialect for
`terminates`/`exc`) the subset is wider, so that behaviour-preserving rewrites stay inside it, and
stricter where the first edition was lenient:

  wider   * boolean-valued locals (`in_range = lo <= r and r < hi`, `if not in_range:`), `True`/`False`
          * `if` branches that fall through (the statements after the `if` are translated under both branches)
          * augmented assignment, tuple-free re-assignment of locals, `pass`, bare `assert` is NOT accepted
          * module-level integer constants (`_INT64_MIN = -(2**63)`), folded literal arithmetic (`1 << 63`)
          * one level (in fact: any non-recursive depth) of module-level helper functions, inlined:
            single-`return` helpers by substitution, multi-statement helpers as their own Lean `def`
          * `int(e)`, `type(self)(e)`, `self.__class__(e)`, `cls(e)` constructor spellings, `operator.add`-free
          * `__new__`: the path a plain Python int takes is found by following the tests, not by the shape
            of the if/elif ladder

  stricter * `and`/`or`/chained comparisons/conditional expressions: an operand that Python evaluates only
            conditionally must be free of effects (`//`, `%`, range-checking constructors), otherwise hoisting
            its binding would invent an exception
          * arithmetic applied directly to `self` (which would re-enter the class's own dunder) is refused

Everything outside the subset raises TranslationError, which the check treats like a broken bridge.
"""
from __future__ import annotations
import ast
import copy
from typing import Dict, List, Optional, Tuple

from .py2lean import TranslationError, EXC_MAP, find_class, find_func, strip_doc, is_logger_call, lean_str, lean_list

CMP = {ast.Lt: "<", ast.LtE: "≤", ast.Gt: ">", ast.GtE: "≥", ast.Eq: "=", ast.NotEq: "≠"}
# classes a plain Python int is NOT an instance of (for following `__new__`)
NOT_INT_CLASSES = {"IntType", "UintType", "MessageType", "float", "DoubleType", "TimestampType", "DurationType",
                   "str", "StringType", "bytes", "BytesType", "BoolType", "bool", "list", "ListType", "dict",
                   "MapType", "NoneType", "datetime.datetime", "datetime.timedelta"}


def fold_const(e) -> Optional[int]:
    """value of an expression built from integer literals only (`2**63`, `1 << 63`, `-(2**63)`, `2**64 - 1`)"""
    if isinstance(e, ast.Constant) and isinstance(e.value, int) and not isinstance(e.value, bool):
        return e.value
    if isinstance(e, ast.UnaryOp) and isinstance(e.op, (ast.USub, ast.UAdd)):
        v = fold_const(e.operand)
        return None if v is None else (-v if isinstance(e.op, ast.USub) else v)
    if isinstance(e, ast.BinOp) and isinstance(e.op, (ast.Pow, ast.LShift)):
        l, r = fold_const(e.left), fold_const(e.right)
        if l is None or r is None or r < 0 or r > 4096:
            return None
        return l ** r if isinstance(e.op, ast.Pow) else l << r
    return None


class _Subst(ast.NodeTransformer):
    def __init__(self, mapping):
        self.mapping = mapping

    def visit_Name(self, node):
        if node.id in self.mapping:
            return copy.deepcopy(self.mapping[node.id])
        return node


class Ctx:
    """what is visible from a function body: the module (constants, helpers), the class being translated,
    the constructor → range-check table and the helper definitions emitted so far"""

    def __init__(self, mod: ast.Module, clsname: Optional[str], wrap_fn: Dict[str, str], prefix: str = ""):
        self.mod = mod
        self.clsname = clsname
        self.wrap_fn = wrap_fn
        self.prefix = prefix
        self.helper_defs: Dict[str, str] = {}      # python name -> Lean def text
        self.helper_type: Dict[str, str] = {}      # python name -> "int" | "bool"
        self.stack: List[str] = []

    def module_const(self, name: str):
        found = [st for st in self.mod.body
                 if isinstance(st, (ast.Assign, ast.AnnAssign))
                 and (st.targets[0] if isinstance(st, ast.Assign) else st.target) is not None
                 and isinstance((st.targets[0] if isinstance(st, ast.Assign) else st.target), ast.Name)
                 and (st.targets[0] if isinstance(st, ast.Assign) else st.target).id == name]
        if len(found) != 1 or found[0].value is None:
            return None
        # the name must not be rebound anywhere else (global statement, augmented assignment)
        for n in ast.walk(self.mod):
            if isinstance(n, ast.Global) and name in n.names:
                return None
            if isinstance(n, ast.AugAssign) and isinstance(n.target, ast.Name) and n.target.id == name:
                return None
        return found[0].value

    def module_func(self, name: str) -> Optional[ast.FunctionDef]:
        found = [st for st in self.mod.body if isinstance(st, ast.FunctionDef) and st.name == name]
        if len(found) != 1:
            return None
        fn = found[0]
        a = fn.args
        if fn.decorator_list or a.vararg or a.kwarg or a.kwonlyargs or a.posonlyargs:
            return None
        return fn


class IntTr2:
    def __init__(self, ctx: Ctx, params: List[str], self_name: Optional[str] = None):
        self.ctx = ctx
        self.env: Dict[str, str] = {p: "int" for p in params}    # local name -> "int" | "bool"
        self.self_name = self_name
        # names bound to instances of the class (or to the other operand, which is one in the direct dunders):
        # arithmetic applied to them directly would dispatch to the dunders being translated
        self.instances = set(params) if self_name is not None else set()
        self.tmp = [0]

    def fork(self) -> "IntTr2":
        o = IntTr2(self.ctx, [], self.self_name)
        o.env = dict(self.env)
        o.instances = set(self.instances)
        o.tmp = self.tmp
        return o

    def fresh(self) -> str:
        self.tmp[0] += 1
        return f"t{self.tmp[0]}"

    # ---- typing ---------------------------------------------------------------------------
    def is_bool(self, e) -> bool:
        if isinstance(e, (ast.Compare, ast.BoolOp)):
            return True
        if isinstance(e, ast.UnaryOp) and isinstance(e.op, ast.Not):
            return True
        if isinstance(e, ast.Constant) and isinstance(e.value, bool):
            return True
        if isinstance(e, ast.Name):
            if e.id in self.env:
                return self.env[e.id] == "bool"
            v = self.ctx.module_const(e.id)
            return v is not None and IntTr2(self.ctx, []).is_bool(v)
        if isinstance(e, ast.IfExp):
            return self.is_bool(e.body) and self.is_bool(e.orelse)
        if isinstance(e, ast.Call) and isinstance(e.func, ast.Name):
            if e.func.id == "bool" and len(e.args) == 1 and self.is_bool(e.args[0]):
                return True
            if e.func.id not in self.env:
                fn = self.ctx.module_func(e.func.id)
                if fn is not None:
                    return self.helper_kind(fn) == "bool"
        return False

    def helper_kind(self, fn: ast.FunctionDef) -> str:
        if fn.name in self.ctx.helper_type:
            return self.ctx.helper_type[fn.name]
        sub = IntTr2(self.ctx, [a.arg for a in fn.args.args])
        kind = "int"
        for n in ast.walk(fn):
            if isinstance(n, ast.Return) and n.value is not None:
                # a conservative look: locals of the helper are not typed yet, so only the syntactic shape counts
                if sub.is_bool(n.value):
                    kind = "bool"
                break
        return kind

    # ---- helpers (module-level functions) --------------------------------------------------
    def inline_call(self, fn: ast.FunctionDef, call: ast.Call):
        """returns ('subst', expr-AST) for a single-return helper, ('def', lean-name, kind) otherwise"""
        if call.keywords or len(call.args) != len(fn.args.args):
            raise TranslationError(f"call of helper {fn.name} with keywords/defaults")
        if fn.name in self.ctx.stack:
            raise TranslationError(f"recursive helper {fn.name}")
        body = [s for s in strip_doc(fn.body) if not is_logger_call(s) and not isinstance(s, ast.Pass)]
        params = [a.arg for a in fn.args.args]
        if len(body) == 1 and isinstance(body[0], ast.Return) and body[0].value is not None:
            # substitution is only sound for arguments without effects that are used as values:
            # atoms are substituted, anything else is bound to a temporary first by the caller
            return "subst", params, body[0].value
        if fn.name not in self.ctx.helper_defs:
            self.ctx.stack.append(fn.name)
            try:
                kind = self.helper_kind(fn)
                sub = IntTr2(self.ctx, params)
                lines = sub.block(fn.body, "  ", kind)
            finally:
                self.ctx.stack.pop()
            sig = " ".join(f"({p} : Int)" for p in params)
            ty = "Int" if kind == "int" else "Bool"
            lname = f"{self.ctx.prefix}helper_{fn.name}"
            self.ctx.helper_defs[fn.name] = f"@[simp] def {lname} {sig} : PyM {ty} := do\n" + "\n".join(lines) + "\n"
            self.ctx.helper_type[fn.name] = kind
        return "def", f"{self.ctx.prefix}helper_{fn.name}", self.ctx.helper_type[fn.name]

    def call_helper(self, e: ast.Call, want: str) -> Tuple[List[str], str]:
        fn = self.ctx.module_func(e.func.id)
        if fn is None:
            raise TranslationError(f"call {e.func.id}")
        res = self.inline_call(fn, e)
        # arguments: bind non-atomic ones to temporaries (evaluated once, in order, before the body)
        bs: List[str] = []
        atoms = []
        for a in e.args:
            if self.is_bool(a):
                raise TranslationError(f"boolean argument of helper {fn.name}")
            b, x = self.expr(a)
            bs += b
            if isinstance(a, (ast.Name, ast.Constant)) and not b:
                atoms.append((a, x))
            else:
                t = self.fresh()
                bs.append(f"let {t} := {x}")
                self.env[t] = "int"
                atoms.append((ast.Name(id=t, ctx=ast.Load()), t))
        if res[0] == "subst":
            _, params, body = res
            # locals of the caller must not capture names of the helper body: the body of a single-return
            # helper mentions only its parameters, module constants and other helpers
            for n in ast.walk(body):
                if isinstance(n, ast.Name) and n.id not in params and n.id in self.env:
                    raise TranslationError(f"helper {fn.name}: global {n.id} is shadowed by a local of the caller")
                if isinstance(n, (ast.Lambda, ast.ListComp, ast.GeneratorExp, ast.NamedExpr)):
                    raise TranslationError(f"helper {fn.name}: expression outside the subset")
            mapped = _Subst({p: a for p, (a, _) in zip(params, atoms)}).visit(copy.deepcopy(body))
            self.ctx.stack.append(fn.name)
            try:
                if want == "bool":
                    b2, c = self.cond(mapped)
                else:
                    b2, c = self.expr(mapped)
            finally:
                self.ctx.stack.pop()
            return bs + b2, c
        _, lname, kind = res
        if kind != want:
            raise TranslationError(f"helper {fn.name} returns {kind}, used as {want}")
        t = self.fresh()
        args = " ".join(x if x.startswith("(") or x.isidentifier() else f"({x})" for _, x in atoms)
        bs.append(f"let {t} ← {lname} {args}")
        self.env[t] = kind
        return bs, (t if kind == "int" else f"{t} = true")

    # ---- integer-valued expressions --------------------------------------------------------
    def is_self(self, e) -> bool:
        """syntactically an operand object (an instance of the class, whose operators are the dunders being translated)"""
        if isinstance(e, ast.Name) and e.id in self.instances:
            return True
        if isinstance(e, ast.Call) and isinstance(e.func, ast.Name) and e.func.id == "cast" and len(e.args) == 2:
            return self.is_self(e.args[1])
        return False

    def expr(self, e) -> Tuple[List[str], str]:
        v = fold_const(e)
        if v is not None:
            if (isinstance(e, ast.BinOp) and isinstance(e.op, ast.Pow) and isinstance(e.left, ast.Constant)
                    and isinstance(e.right, ast.Constant)):
                return [], f"(({e.left.value} : Int)^{e.right.value})"
            if isinstance(e, ast.Constant):
                return [], f"({v} : Int)"
            if isinstance(e, ast.UnaryOp):
                b, x = self.expr(e.operand)
                return b, (f"(-{x})" if isinstance(e.op, ast.USub) else x)
            return [], f"({v} : Int)"
        if isinstance(e, ast.Constant):
            raise TranslationError(f"constant {e.value!r}")
        if isinstance(e, ast.Name):
            if e.id in self.env:
                if self.env[e.id] != "int":
                    raise TranslationError(f"boolean {e.id} used as a number")
                return [], e.id
            c = self.ctx.module_const(e.id)
            if c is not None:
                if e.id in self.ctx.stack:
                    raise TranslationError(f"recursive constant {e.id}")
                self.ctx.stack.append(e.id)
                try:
                    return IntTr2(self.ctx, []).expr(c)
                finally:
                    self.ctx.stack.pop()
            raise TranslationError(f"name {e.id}")
        if isinstance(e, ast.UnaryOp) and isinstance(e.op, (ast.USub, ast.UAdd)):
            if self.is_self(e.operand):
                raise TranslationError("unary operator applied to an operand object re-enters the class's own dunder")
            b, x = self.expr(e.operand)
            return b, (f"(-{x})" if isinstance(e.op, ast.USub) else x)
        if isinstance(e, ast.BinOp):
            if self.is_self(e.left) or self.is_self(e.right):
                raise TranslationError("arithmetic applied to an operand object re-enters the class's own dunder")
            bl, l = self.expr(e.left)
            br, r = self.expr(e.right)
            if isinstance(e.op, ast.Add):
                return bl + br, f"({l} + {r})"
            if isinstance(e.op, ast.Sub):
                return bl + br, f"({l} - {r})"
            if isinstance(e.op, ast.Mult):
                return bl + br, f"({l} * {r})"
            if isinstance(e.op, ast.FloorDiv):
                t = self.fresh()
                return bl + br + [f"let {t} ← pyFloorDiv {l} {r}"], t
            if isinstance(e.op, ast.Mod):
                t = self.fresh()
                return bl + br + [f"let {t} ← pyMod {l} {r}"], t
            raise TranslationError(f"binop {type(e.op).__name__}")
        if isinstance(e, ast.IfExp):
            bc, c = self.cond(e.test)
            bt, t = self.fork().expr(e.body)
            bf, f = self.fork().expr(e.orelse)
            if bt or bf:
                # a branch with effects (`//`, a range-checking constructor, a helper that raises): only the
                # chosen branch runs, so the whole conditional becomes one monadic binding
                if any(not b.startswith("let ") for b in bt + bf):
                    raise TranslationError("effectful branch in conditional expression")
                r = self.fresh()
                thn = "; ".join(bt + [f"pure {t}"])
                els = "; ".join(bf + [f"pure {f}"])
                return bc + [f"let {r} ← (if {c} then (do {thn}) else (do {els}))"], r
            return bc, f"(if {c} then {t} else {f})"
        if isinstance(e, ast.Call):
            fn = e.func
            if e.keywords:
                raise TranslationError("keyword arguments")
            if isinstance(fn, ast.Name) and fn.id not in self.env:
                if fn.id == "cast" and len(e.args) == 2:
                    return self.expr(e.args[1])
                if fn.id == "int" and len(e.args) == 1:       # int(x) of an int: the same number
                    return self.expr(e.args[0])
                if fn.id == "abs" and len(e.args) == 1:
                    b, x = self.expr(e.args[0])
                    return b, f"(pyAbs {x})"
                if fn.id in self.ctx.wrap_fn and len(e.args) == 1:
                    return self.wrap(self.ctx.wrap_fn[fn.id], e.args[0])
                return self.call_helper(e, "int")
            # type(self)(x) / self.__class__(x): the class being translated
            if len(e.args) == 1 and self.ctx.clsname in self.ctx.wrap_fn and self.self_name is not None:
                src = ast.unparse(fn).replace(" ", "")
                if src in (f"type({self.self_name})", f"{self.self_name}.__class__"):
                    return self.wrap(self.ctx.wrap_fn[self.ctx.clsname], e.args[0])
            # super().__op__(x)
            if (isinstance(fn, ast.Attribute) and isinstance(fn.value, ast.Call)
                    and isinstance(fn.value.func, ast.Name) and fn.value.func.id == "super" and not fn.value.args
                    and self.self_name is not None):
                return self.super_call(fn.attr, e.args)
            # int.__op__(self, x): the same unbound
            if (isinstance(fn, ast.Attribute) and isinstance(fn.value, ast.Name) and fn.value.id == "int"
                    and "int" not in self.env and e.args and isinstance(e.args[0], ast.Name)
                    and e.args[0].id == self.self_name and self.self_name in self.instances):
                return self.super_call(fn.attr, e.args[1:])
            raise TranslationError(f"call {ast.unparse(fn)[:60]}")
        raise TranslationError(f"expr {type(e).__name__}")

    def wrap(self, check: str, arg) -> Tuple[List[str], str]:
        b, x = self.expr(arg)
        t = self.fresh()
        return b + [f"let {t} ← {check} {x}"], t

    def super_call(self, op: str, argnodes) -> Tuple[List[str], str]:
        s = self.self_name
        args = [self.expr(a) for a in argnodes]
        bs = [b for (bb, _) in args for b in bb]
        xs = [x for (_, x) in args]
        arity = {"__neg__": 0, "__pos__": 0, "__abs__": 0, "__int__": 0, "__index__": 0}.get(op, 1)
        if len(xs) != arity:
            raise TranslationError(f"super().{op} with {len(xs)} argument(s)")
        pure = {
            "__neg__": lambda: f"(-{s})", "__pos__": lambda: s, "__int__": lambda: s, "__index__": lambda: s,
            "__abs__": lambda: f"(pyAbs {s})",
            "__add__": lambda: f"({s} + {xs[0]})", "__sub__": lambda: f"({s} - {xs[0]})",
            "__mul__": lambda: f"({s} * {xs[0]})",
            "__radd__": lambda: f"({xs[0]} + {s})", "__rsub__": lambda: f"({xs[0]} - {s})",
            "__rmul__": lambda: f"({xs[0]} * {s})",
        }
        if op in pure:
            return bs, pure[op]()
        mon = {
            "__floordiv__": lambda: f"pyFloorDiv {s} {xs[0]}", "__mod__": lambda: f"pyMod {s} {xs[0]}",
            "__rfloordiv__": lambda: f"pyFloorDiv {xs[0]} {s}", "__rmod__": lambda: f"pyMod {xs[0]} {s}",
        }
        if op in mon:
            t = self.fresh()
            return bs + [f"let {t} ← {mon[op]()}"], t
        raise TranslationError(f"super().{op}")

    # ---- boolean-valued expressions --------------------------------------------------------
    def cond(self, e) -> Tuple[List[str], str]:
        if isinstance(e, ast.Constant) and isinstance(e.value, bool):
            return [], "True" if e.value else "False"
        if isinstance(e, ast.Name):
            if e.id in self.env:
                if self.env[e.id] != "bool":
                    # truthiness of an int
                    return [], f"{e.id} ≠ (0 : Int)"
                return [], f"{e.id} = true"
            c = self.ctx.module_const(e.id)
            if c is not None and IntTr2(self.ctx, []).is_bool(c):
                return IntTr2(self.ctx, []).cond(c)
            raise TranslationError(f"condition on name {e.id}")
        if isinstance(e, ast.Compare):
            bs, parts = [], []
            b, left = self.expr(e.left)
            bs += b
            for k, (op, rhs) in enumerate(zip(e.ops, e.comparators)):
                b, r = self.expr(rhs)
                if b and k > 0:
                    raise TranslationError("effectful later operand of a chained comparison")
                bs += b
                sym = CMP.get(type(op))
                if sym is None:
                    raise TranslationError("comparison operator")
                parts.append(f"{left} {sym} {r}")
                left = r
            return bs, parts[0] if len(parts) == 1 else "(" + " ∧ ".join(parts) + ")"
        if isinstance(e, ast.BoolOp):
            bs, cs = [], []
            for k, v in enumerate(e.values):
                b, c = self.cond(v)
                if b and k > 0:
                    raise TranslationError("effectful operand of and/or that Python evaluates conditionally")
                bs += b
                cs.append(c)
            j = " ∧ " if isinstance(e.op, ast.And) else " ∨ "
            return bs, "(" + j.join(f"({c})" for c in cs) + ")"
        if isinstance(e, ast.UnaryOp) and isinstance(e.op, ast.Not):
            b, c = self.cond(e.operand)
            return b, f"¬({c})"
        if isinstance(e, ast.IfExp):
            bc, c = self.cond(e.test)
            bt, t = self.cond(e.body)
            bf, f = self.cond(e.orelse)
            if bt or bf:
                raise TranslationError("effectful branch in conditional expression")
            return bc, f"(if {c} then ({t}) else ({f}))"
        if isinstance(e, ast.Call) and isinstance(e.func, ast.Name) and e.func.id not in self.env and not e.keywords:
            if e.func.id == "bool" and len(e.args) == 1:
                return self.cond(e.args[0])
            if e.func.id == "cast" and len(e.args) == 2:
                return self.cond(e.args[1])
            fn = self.ctx.module_func(e.func.id)
            if fn is not None and self.helper_kind(fn) == "bool":
                return self.call_helper(e, "bool")
        raise TranslationError(f"cond {type(e).__name__}: {ast.unparse(e)[:50]}")

    # ---- statements ---------------------------------------------------------------------------
    def block(self, stmts, indent: str, ret: str = "int") -> List[str]:
        out: List[str] = []
        stmts = [s for s in strip_doc(stmts) if not is_logger_call(s) and not isinstance(s, ast.Pass)]
        for i, st in enumerate(stmts):
            if isinstance(st, ast.AnnAssign) and st.value is None:
                continue
            if isinstance(st, (ast.Assign, ast.AnnAssign, ast.AugAssign)):
                if isinstance(st, ast.Assign):
                    if len(st.targets) != 1:
                        raise TranslationError("multiple assignment targets")
                    tgt, val = st.targets[0], st.value
                elif isinstance(st, ast.AnnAssign):
                    tgt, val = st.target, st.value
                else:
                    tgt = st.target
                    val = ast.BinOp(left=ast.Name(id=getattr(st.target, "id", "?"), ctx=ast.Load()), op=st.op, right=st.value)
                if not isinstance(tgt, ast.Name):
                    raise TranslationError("assignment target")
                if tgt.id == self.self_name:
                    raise TranslationError("assignment to self")
                if self.is_bool(val):
                    b, c = self.cond(val)
                    out += [indent + s for s in b]
                    out.append(f"{indent}let {tgt.id} : Bool := decide ({c})")
                    self.env[tgt.id] = "bool"
                else:
                    b, x = self.expr(val)
                    out += [indent + s for s in b]
                    out.append(f"{indent}let {tgt.id} : Int := {x}")
                    self.env[tgt.id] = "int"
                    if self.is_self(val):
                        self.instances.add(tgt.id)
                    else:
                        self.instances.discard(tgt.id)
            elif isinstance(st, ast.Return):
                if st.value is None:
                    raise TranslationError("bare return")
                if ret == "bool":
                    b, c = self.cond(st.value)
                    out += [indent + s for s in b]
                    out.append(f"{indent}pure (decide ({c}))")
                else:
                    if self.is_bool(st.value):
                        raise TranslationError("boolean returned where a number is expected")
                    b, x = self.expr(st.value)
                    out += [indent + s for s in b]
                    out.append(f"{indent}pure {x}")
                return out
            elif isinstance(st, ast.Raise):
                out.append(f"{indent}throw {self.exc(st)}")
                return out
            elif isinstance(st, ast.If):
                b, c = self.cond(st.test)
                out += [indent + s for s in b]
                rest = stmts[i + 1:]
                thn_src = list(st.body) if self.terminates(st.body) else list(st.body) + rest
                els_src = list(st.orelse) if (st.orelse and self.terminates(st.orelse)) else list(st.orelse) + rest
                thn = self.fork().block(thn_src, indent + "  ", ret)
                els = self.fork().block(els_src, indent + "  ", ret)
                out.append(f"{indent}if {c} then")
                out += thn
                out.append(f"{indent}else")
                out += els
                return out
            else:
                raise TranslationError(f"statement {type(st).__name__}")
        raise TranslationError("block without return")

    @staticmethod
    def terminates(body) -> bool:
        if not body:
            return False
        last = body[-1]
        if isinstance(last, (ast.Return, ast.Raise)):
            return True
        if isinstance(last, ast.If) and last.orelse:
            return IntTr2.terminates(last.body) and IntTr2.terminates(last.orelse)
        return False

    @staticmethod
    def exc(st: ast.Raise) -> str:
        e = st.exc
        name = None
        if isinstance(e, ast.Call) and isinstance(e.func, ast.Name):
            name = e.func.id
        elif isinstance(e, ast.Name):
            name = e.id
        if name not in EXC_MAP:
            raise TranslationError(f"raise {name}")
        return EXC_MAP[name]


# ---------------------------------------------------------------------------------------------------
# the range-check decorators
# ---------------------------------------------------------------------------------------------------

def _is_operator_call(e, opname: str) -> bool:
    return (isinstance(e, ast.Call) and isinstance(e.func, ast.Name) and e.func.id == opname
            and len(e.args) == 1 and isinstance(e.args[0], ast.Starred)
            and len(e.keywords) == 1 and e.keywords[0].arg is None)


def translate_range_decorator(mod: ast.Module, name: str) -> str:
    """`def int64(operator): @wraps(operator) def clamped(*a, **k): r = operator(*a, **k); <body>; return cast(_, clamped)`
    → `def <name> (r : Int) : PyM Int := do <body>` (+ the Lean defs of module-level helpers it calls).
    Also accepted: a body that is one `return <expr>` mentioning `operator(*a, **k)` exactly once, as the
    first thing evaluated (`return _check_int64(operator(*a, **k))`)."""
    outer = find_func(mod.body, name)
    if len(outer.args.args) != 1:
        raise TranslationError(f"{name}: decorator with other than one parameter")
    opname = outer.args.args[0].arg
    inners = [st for st in strip_doc(outer.body) if isinstance(st, ast.FunctionDef)]
    if len(inners) != 1:
        raise TranslationError(f"{name}: expected exactly one inner function")
    inner = inners[0]
    # the decorator must hand back the inner function (possibly through cast(...)), nothing else
    rets = [st for st in strip_doc(outer.body) if isinstance(st, ast.Return)]
    ok_ret = False
    if len(rets) == 1 and rets[0].value is not None:
        v = rets[0].value
        while isinstance(v, ast.Call) and isinstance(v.func, ast.Name) and v.func.id == "cast" and len(v.args) == 2:
            v = v.args[1]
        ok_ret = isinstance(v, ast.Name) and v.id == inner.name
    if not ok_ret:
        raise TranslationError(f"{name}: the decorator does not return its inner function")
    for d in inner.decorator_list:
        if ast.unparse(d).replace(" ", "") not in (f"wraps({opname})", f"functools.wraps({opname})"):
            raise TranslationError(f"{name}: inner function decorated with {ast.unparse(d)[:40]}")
    if not (inner.args.vararg and inner.args.kwarg) or inner.args.args:
        raise TranslationError(f"{name}: inner function is not (*args, **kwargs)")
    body = [s for s in strip_doc(inner.body) if not is_logger_call(s) and not isinstance(s, ast.Pass)]
    calls = [n for st in body for n in ast.walk(st) if isinstance(n, ast.Call) and isinstance(n.func, ast.Name) and n.func.id == opname]
    if len(calls) != 1 or not _is_operator_call(calls[0], opname) \
            or calls[0].args[0].value.id != inner.args.vararg.arg or calls[0].keywords[0].value.id != inner.args.kwarg.arg:
        raise TranslationError(f"{name}: the wrapped operator is not called exactly once as operator(*args, **kwargs)")
    ctx = Ctx(mod, None, {}, prefix=f"{name}_")
    first = body[0]
    if isinstance(first, (ast.Assign, ast.AnnAssign)) and first.value is calls[0]:
        tgt = first.targets[0] if isinstance(first, ast.Assign) else first.target
        if not isinstance(tgt, ast.Name):
            raise TranslationError(f"{name}: first statement is not `r = operator(...)`")
        pname = tgt.id
        tr = IntTr2(ctx, [pname])
        lines = tr.block(body[1:], "  ")
    elif len(body) == 1 and isinstance(body[0], ast.Return):
        pname = "result_value"
        e = body[0].value
        # the operator call must be evaluated before anything that can raise: require it to be the argument
        # of a (possibly nested) helper call / cast at the root
        node = e
        while node is not calls[0]:
            if isinstance(node, ast.Call) and isinstance(node.func, ast.Name) and len(node.args) >= 1 and not node.keywords:
                node = node.args[-1] if node.func.id == "cast" else node.args[0]
            else:
                raise TranslationError(f"{name}: operator(...) is not the first thing evaluated")
        newe = _ReplaceNode(calls[0], ast.Name(id=pname, ctx=ast.Load())).visit(copy.deepcopy(e))
        tr = IntTr2(ctx, [pname])
        lines = tr.block([ast.Return(value=newe)], "  ")
    else:
        raise TranslationError(f"{name}: first statement is not `r = operator(...)`")
    helpers = "".join(d + "\n" for d in ctx.helper_defs.values())
    return helpers + f"def {name} ({pname} : Int) : PyM Int := do\n" + "\n".join(lines) + "\n"


class _ReplaceNode(ast.NodeTransformer):
    def __init__(self, old, new):
        self.dump = ast.dump(old)
        self.new = new

    def generic_visit(self, node):
        if isinstance(node, ast.Call) and ast.dump(node) == self.dump:
            return self.new
        return super().generic_visit(node)


# ---------------------------------------------------------------------------------------------------
# `__new__`: which conversion does a plain Python int take?
# ---------------------------------------------------------------------------------------------------

def _test_on_plain_int(e, src: str) -> Optional[bool]:
    """truth value of a `__new__` test when `source` is a plain Python int (None = not decidable here)"""
    if isinstance(e, ast.Compare) and len(e.ops) == 1 and isinstance(e.left, ast.Name) and e.left.id == src \
            and isinstance(e.comparators[0], ast.Constant) and e.comparators[0].value is None:
        if isinstance(e.ops[0], ast.Is):
            return False
        if isinstance(e.ops[0], ast.IsNot):
            return True
        return None
    if isinstance(e, ast.Call) and isinstance(e.func, ast.Name) and e.func.id == "isinstance" and len(e.args) == 2 \
            and isinstance(e.args[0], ast.Name) and e.args[0].id == src:
        t = e.args[1]
        names = [ast.unparse(x) for x in t.elts] if isinstance(t, ast.Tuple) else [ast.unparse(t)]
        names = [n.replace("celtypes.", "") for n in names]
        if "int" in names:
            return True
        if all(n in NOT_INT_CLASSES for n in names):
            return False
        return None
    if isinstance(e, ast.UnaryOp) and isinstance(e.op, ast.Not):
        v = _test_on_plain_int(e.operand, src)
        return None if v is None else (not v)
    if isinstance(e, ast.BoolOp):
        vs = [_test_on_plain_int(v, src) for v in e.values]
        if isinstance(e.op, ast.And):
            # Python stops at the first false operand: operands after it are not evaluated
            for v in vs:
                if v is False:
                    return False
                if v is None:
                    return None
            return True
        for v in vs:
            if v is True:
                return True
            if v is None:
                return None
        return False
    return None


def check_int_ctor_path(cls: ast.ClassDef, dec: str) -> None:
    """`Wrapper(e)` for a plain Python int `e` must end in `super().__new__(cls, <dec>(int)(e))`: follow
    `__new__` with `source` a plain int (every test on the way must be decidable for a plain int)."""
    new = find_func(cls.body, "__new__")
    if len(new.args.args) < 2:
        raise TranslationError(f"{cls.name}.__new__: parameters")
    clsn, src = new.args.args[0].arg, new.args.args[1].arg
    convert: Dict[str, str] = {}

    def is_dec_int(e) -> bool:
        return ast.unparse(e).replace(" ", "") == f"{dec}(int)"

    def run(stmts) -> bool:
        """True when a return was reached (and accepted)"""
        for st in [s for s in strip_doc(stmts) if not is_logger_call(s) and not isinstance(s, ast.Pass)]:
            if isinstance(st, ast.AnnAssign) and st.value is None:
                continue
            if isinstance(st, ast.If):
                v = _test_on_plain_int(st.test, src)
                if v is None:
                    raise TranslationError(f"{cls.name}.__new__: test `{ast.unparse(st.test)[:60]}` is not decidable for a plain int")
                if run(st.body if v else st.orelse):
                    return True
                continue
            if isinstance(st, (ast.Assign, ast.AnnAssign)):
                tgt = st.targets[0] if isinstance(st, ast.Assign) else st.target
                if not isinstance(tgt, ast.Name) or tgt.id in (clsn, src):
                    raise TranslationError(f"{cls.name}.__new__: assignment on the int path")
                convert[tgt.id] = ast.unparse(st.value).replace(" ", "")
                continue
            if isinstance(st, ast.Return):
                text = ast.unparse(st.value).replace(" ", "") if st.value is not None else ""
                for var, val in convert.items():
                    text = text.replace(f"{var}({src})", f"{val}({src})")
                if text in (f"super().__new__({clsn},{dec}(int)({src}))", f"int.__new__({clsn},{dec}(int)({src}))"):
                    return True
                raise TranslationError(f"{cls.name}.__new__: a plain int is converted by `{text[:80]}`, not by `{dec}(int)`")
            raise TranslationError(f"{cls.name}.__new__: statement {type(st).__name__} on the int path")
        return False

    if not run(new.body):
        raise TranslationError(f"{cls.name}.__new__: no return on the int path")


DUNDERS = ["__neg__", "__add__", "__sub__", "__mul__", "__truediv__", "__mod__",
           "__radd__", "__rsub__", "__rmul__", "__rtruediv__", "__rmod__"]


def translate_int_class(mod: ast.Module, clsname: str, dec: str, ns: str) -> str:
    cls = find_class(mod, clsname)
    check_int_ctor_path(cls, dec)
    out = [f"namespace {ns}"]
    aliases = {}
    methods: Dict[str, ast.FunctionDef] = {}
    for st in cls.body:
        if isinstance(st, ast.FunctionDef):
            if st.name in methods:
                raise TranslationError(f"{clsname}.{st.name} defined twice")
            methods[st.name] = st
    for st in cls.body:
        if isinstance(st, ast.Assign) and isinstance(st.targets[0], ast.Name) and isinstance(st.value, ast.Name):
            aliases[st.targets[0].id] = st.value.id
        elif isinstance(st, ast.Assign) and isinstance(st.targets[0], ast.Name) and st.targets[0].id in DUNDERS:
            raise TranslationError(f"{clsname}.{st.targets[0].id} bound by assignment")
    for d in DUNDERS:
        if d in aliases:
            raise TranslationError(f"{clsname}.{d} is an alias of {aliases[d]}")
    ctx = Ctx(mod, clsname, {"IntType": "int64", "UintType": "uint64"})
    defs = []
    for d in DUNDERS:
        fn = methods.get(d)
        if fn is None:
            raise TranslationError(f"def {d} not found")
        if any(not isinstance(x, ast.Name) for x in fn.decorator_list):
            raise TranslationError(f"{clsname}.{d}: decorator")
        decs = [x.id for x in fn.decorator_list]
        a = fn.args
        if a.vararg or a.kwarg or a.kwonlyargs or a.posonlyargs or a.defaults:
            raise TranslationError(f"{clsname}.{d}: parameters")
        params = [x.arg for x in a.args]
        tr = IntTr2(ctx, params, self_name=params[0])
        body = tr.block(fn.body, "    ")
        lname = d.strip("_")
        sig = " ".join(f"({p} : Int)" for p in params)
        inner = "(do\n" + "\n".join(body) + ")"
        for dn in reversed(decs):
            if dn not in ("int64", "uint64"):
                raise TranslationError(f"{clsname}.{d}: decorator {dn}")
            inner = f"({inner} >>= {dn})"
        defs.append(f"def {lname} {sig} : PyM Int :=\n  {inner}\n")
    out += list(ctx.helper_defs.values())
    out += defs
    out.append("/-- class-level aliases found in the source -/\ndef aliases : List (String × String) := "
               + lean_list([f'({lean_str(k)}, {lean_str(v)})' for k, v in sorted(aliases.items())]))
    out.append(f"end {ns}")
    return "\n".join(out) + "\n"


# ---------------------------------------------------------------------------------------------------
# `except` clauses: the classes caught, with named tuples of classes resolved
# ---------------------------------------------------------------------------------------------------

def exc_names_resolved(mod: ast.Module, cls: Optional[ast.ClassDef], node, depth: int = 0) -> List[str]:
    """class names caught by `except <node>`; a name bound once at module or class level to a class or a tuple
    of classes (`_ARITH_ERRORS = (ValueError, OverflowError)`) is expanded"""
    import builtins
    if node is None:
        return ["BaseException"]
    if depth > 4:
        raise TranslationError("except clause: alias chain too deep")
    if isinstance(node, ast.Tuple):
        return [n for e in node.elts for n in exc_names_resolved(mod, cls, e, depth + 1)]
    if isinstance(node, ast.BinOp) and isinstance(node.op, ast.Add):        # tuple concatenation
        return exc_names_resolved(mod, cls, node.left, depth + 1) + exc_names_resolved(mod, cls, node.right, depth + 1)
    name = None
    scopes = []
    if isinstance(node, ast.Name):
        name = node.id
        if isinstance(getattr(builtins, name, None), type) and issubclass(getattr(builtins, name), BaseException):
            return [name]
        scopes = [mod.body]
    elif isinstance(node, ast.Attribute) and isinstance(node.value, ast.Name) and cls is not None \
            and node.value.id in ("self", "cls", cls.name):
        name = node.attr
        scopes = [cls.body]
    if name is not None:
        for body in scopes:
            found = [st for st in body if isinstance(st, (ast.Assign, ast.AnnAssign))
                     and isinstance((st.targets[0] if isinstance(st, ast.Assign) else st.target), ast.Name)
                     and (st.targets[0] if isinstance(st, ast.Assign) else st.target).id == name and st.value is not None]
            if len(found) == 1:
                return exc_names_resolved(mod, cls, found[0].value, depth + 1)
            if len(found) > 1:
                raise TranslationError(f"except clause: {name} is bound more than once")
    return [ast.unparse(node)]
