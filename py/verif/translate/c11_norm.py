"""Normal form of a Python function body for the C11 bridge (used by gen_c10_c11.gen_time).

The bridge `Cel.Bridge.Time` compares the statements of `DurationType.__new__` that the hand model was
written from (regexes, the sum over the components, range checks, constructor calls) as *text*.  To keep
that comparison from alarming on behaviour-preserving rewrites, the text is taken from a normal form:

  1. an accumulation loop
         acc = INIT
         for v in ITER:
             a = E1(v); b = E2(v, a)          # loop-local single assignments, each used below
             acc = acc + T(v, a, b)           # or  acc += T
     becomes  `acc = sum((T' for v in ITER), INIT)`  with the loop-locals substituted into T.  `sum` adds
     left to right starting from INIT, exactly as the loop does; `T + acc` is NOT accepted (other order);
     the loop-locals must be first used in T in the order in which they are assigned (so that the order in
     which sub-expressions are evaluated — which exception wins — is unchanged) and must not be used after
     the loop; `acc` must have no other assignment;
  2. a local that is assigned exactly once (outside any loop), by a plain `x = E`, is replaced by E
     wherever it is used — hoisted sub-expressions, extra names for patterns and factors, renamed locals all
     disappear.  A free name of E that is assigned more than once (`seconds`, `sign`) must not be re-bound
     between the definition and the use, otherwise the name is left alone;
  3. the surviving locals (assigned several times) and comprehension variables are renamed in order of
     first occurrence within the pinned expression (`_v0, _v1, …`, `_c0, …`); parameters and globals keep
     their names.

Everything here only *rewrites text to compare*; it never hides a statement: an expression that changes
meaning changes its normal form (the substituted definitions are part of the text), and a loop or a
definition that does not fit the patterns is left as it is (the pinned text then differs, the bridge
breaks and the check searches for a failing input).
"""
from __future__ import annotations
import ast
import copy
from typing import Dict, List, Optional, Set

from .py2lean import TranslationError


def _loads(node) -> List[str]:
    """names loaded inside `node`, in source (evaluation) order"""
    out = []

    class V(ast.NodeVisitor):
        def visit_Name(self, n):
            if isinstance(n.ctx, ast.Load):
                out.append(n.id)

    V().visit(node)
    return out


def _subst(node, env: Dict[str, ast.AST]):
    class T(ast.NodeTransformer):
        def visit_Name(self, n):
            if isinstance(n.ctx, ast.Load) and n.id in env:
                return copy.deepcopy(env[n.id])
            return n

    return T().visit(copy.deepcopy(node))


def _bindings(fn: ast.FunctionDef) -> Dict[str, List[ast.AST]]:
    """name -> the nodes that bind it (parameters count as one binding)"""
    b: Dict[str, List[ast.AST]] = {}

    def add(name, node):
        b.setdefault(name, []).append(node)

    a = fn.args
    for p in a.posonlyargs + a.args + a.kwonlyargs + ([a.vararg] if a.vararg else []) + ([a.kwarg] if a.kwarg else []):
        add(p.arg, fn)

    def targets(t, node):
        if isinstance(t, ast.Name):
            add(t.id, node)
        elif isinstance(t, (ast.Tuple, ast.List)):
            for e in t.elts:
                targets(e, node)
        elif isinstance(t, ast.Starred):
            targets(t.value, node)

    for node in ast.walk(fn):
        if isinstance(node, ast.Assign):
            for t in node.targets:
                targets(t, node)
        elif isinstance(node, ast.AugAssign):
            targets(node.target, node)
        elif isinstance(node, ast.AnnAssign) and node.value is not None:
            targets(node.target, node)
        elif isinstance(node, (ast.For, ast.AsyncFor)):
            targets(node.target, node)
        elif isinstance(node, ast.NamedExpr):
            targets(node.target, node)
        elif isinstance(node, (ast.With, ast.AsyncWith)):
            for it in node.items:
                if it.optional_vars is not None:
                    targets(it.optional_vars, node)
        elif isinstance(node, ast.ExceptHandler) and node.name:
            add(node.name, node)
        elif isinstance(node, (ast.Import, ast.ImportFrom)):
            for al in node.names:
                add((al.asname or al.name).split(".")[0], node)
    return b


def _stmt_lists(fn):
    """every statement list inside fn (bodies of if/try/with/for/while …), outermost first"""
    out = []

    def rec(stmts):
        out.append(stmts)
        for st in stmts:
            for fld in ("body", "orelse", "finalbody"):
                sub = getattr(st, fld, None)
                if isinstance(sub, list) and sub and isinstance(sub[0], ast.stmt):
                    rec(sub)
            for h in getattr(st, "handlers", []) or []:
                rec(h.body)

    rec(fn.body)
    return out


def _simple_assign(st) -> Optional[tuple]:
    """(name, value) of `x = E` / `x: T = E`"""
    if isinstance(st, ast.Assign) and len(st.targets) == 1 and isinstance(st.targets[0], ast.Name):
        return st.targets[0].id, st.value
    if isinstance(st, ast.AnnAssign) and isinstance(st.target, ast.Name) and st.value is not None:
        return st.target.id, st.value
    return None


def loops_to_sums(fn: ast.FunctionDef) -> ast.FunctionDef:
    """rule 1 of the module docstring, applied wherever it fits (on a copy)"""
    fn = copy.deepcopy(fn)
    changed = True
    while changed:
        changed = False
        binds = _bindings(fn)
        for stmts in _stmt_lists(fn):
            for i, st in enumerate(stmts):
                if not isinstance(st, ast.For) or st.orelse or not isinstance(st.target, ast.Name) or not st.body:
                    continue
                var = st.target.id
                last = st.body[-1]
                if isinstance(last, ast.AugAssign) and isinstance(last.op, ast.Add) and isinstance(last.target, ast.Name):
                    acc, term = last.target.id, last.value
                elif (_simple_assign(last) and isinstance(last, ast.Assign) and isinstance(last.value, ast.BinOp)
                      and isinstance(last.value.op, ast.Add) and isinstance(last.value.left, ast.Name)
                      and last.value.left.id == last.targets[0].id):
                    acc, term = last.targets[0].id, last.value.right
                else:
                    continue
                if acc == var or acc in _loads(term):
                    continue
                # loop-locals
                locs: List[tuple] = []
                ok = True
                for b in st.body[:-1]:
                    sa = _simple_assign(b)
                    if not sa or sa[0] in (acc, var) or len(binds.get(sa[0], [])) != 1 or acc in _loads(sa[1]):
                        ok = False
                        break
                    locs.append(sa)
                if not ok or any(isinstance(n, (ast.Break, ast.Continue, ast.Return, ast.Yield, ast.YieldFrom, ast.NamedExpr))
                                 for b in st.body for n in ast.walk(b)):
                    continue
                if len(binds.get(var, [])) != 1:
                    continue
                # the init: nearest preceding `acc = INIT` in the same list, only unrelated simple assignments between
                j = i - 1
                init = None
                while j >= 0:
                    sa = _simple_assign(stmts[j])
                    if not sa:
                        break
                    if sa[0] == acc:
                        init = sa[1]
                        break
                    if acc in _loads(sa[1]):
                        break
                    j -= 1
                if init is None or var in _loads(init) or acc in _loads(init):
                    continue
                if len(binds.get(acc, [])) != 2:          # init + the accumulation, nothing else
                    continue
                # loop-locals / loop variable are not used outside the loop
                inside = {id(n) for n in ast.walk(st)}
                names_l = {n for n, _ in locs} | {var}
                if any(isinstance(n, ast.Name) and n.id in names_l and id(n) not in inside for n in ast.walk(fn)):
                    continue
                # substitute, checking that every local is used and first uses follow the assignment order
                env: Dict[str, ast.AST] = {}
                for n, v in locs:
                    env[n] = _subst(v, env)
                # a local may also be used only through a later local: expand uses transitively
                def first_uses(expr) -> List[str]:
                    seq = []
                    for nm in _loads(expr):
                        if nm in dict(locs):
                            for inner in first_uses(dict(locs)[nm]):
                                if inner not in seq:
                                    seq.append(inner)
                            if nm not in seq:
                                seq.append(nm)
                    return seq
                if first_uses(term) != [n for n, _ in locs]:
                    continue
                new_term = _subst(term, env)
                gen = ast.GeneratorExp(elt=new_term, generators=[ast.comprehension(target=ast.Name(id=var, ctx=ast.Store()),
                                                                                   iter=st.iter, ifs=[], is_async=0)])
                call = ast.Call(func=ast.Name(id="sum", ctx=ast.Load()), args=[gen, copy.deepcopy(init)], keywords=[])
                new = ast.Assign(targets=[ast.Name(id=acc, ctx=ast.Store())], value=call)
                ast.copy_location(new, st)
                new.lineno = st.lineno
                ast.fix_missing_locations(new)
                stmts[i] = new
                del stmts[j]
                changed = True
                break
            if changed:
                break
    return fn


_IMPURE = (ast.Await, ast.Yield, ast.YieldFrom, ast.NamedExpr, ast.Lambda)


class Norm:
    """normal form of expressions inside one function (rules 2 and 3)"""

    def __init__(self, fn: ast.FunctionDef):
        self.fn = loops_to_sums(fn)
        self.binds = _bindings(self.fn)
        self.params = {n for n, bs in self.binds.items() if any(b is self.fn for b in bs)}
        in_loop = set()
        for node in ast.walk(self.fn):
            if isinstance(node, (ast.For, ast.While, ast.AsyncFor)):
                for n in ast.walk(node):
                    in_loop.add(id(n))
        self.single: Dict[str, ast.stmt] = {}
        for n, bs in self.binds.items():
            if len(bs) == 1 and bs[0] is not self.fn and id(bs[0]) not in in_loop:
                sa = _simple_assign(bs[0])
                if sa and sa[0] == n and not any(isinstance(x, _IMPURE) for x in ast.walk(sa[1])):
                    self.single[n] = bs[0]
        self.multi = {n for n, bs in self.binds.items() if len(bs) > 1}

    def _rebound_between(self, name: str, lo: int, hi: int) -> bool:
        for b in self.binds.get(name, []):
            if b is self.fn:
                continue
            if lo < b.lineno < hi:
                return True
        return False

    def expand(self, expr: ast.AST, at: int, depth: int = 0) -> ast.AST:
        """`expr` as evaluated by the statement at line `at`, single-assigned locals replaced by their definitions"""
        if depth > 20:
            raise TranslationError("definition chain too deep")
        me = self

        class T(ast.NodeTransformer):
            def visit_Name(self, n):
                if not isinstance(n.ctx, ast.Load) or n.id not in me.single:
                    return n
                d = me.single[n.id]
                if not d.lineno < at:
                    return n
                val = me.expand(_simple_assign(d)[1], d.lineno, depth + 1)
                for free in set(_loads(val)):
                    if free in me.multi and me._rebound_between(free, d.lineno, at):
                        return n
                return val

        return T().visit(copy.deepcopy(expr))

    def canon(self, expr: ast.AST) -> ast.AST:
        """rename comprehension variables and the surviving locals by first occurrence"""
        expr = copy.deepcopy(expr)
        k = [0]
        for node in ast.walk(expr):
            if isinstance(node, (ast.GeneratorExp, ast.ListComp, ast.SetComp, ast.DictComp)):
                for g in node.generators:
                    if isinstance(g.target, ast.Name) and not g.target.id.startswith("_c"):
                        old, new = g.target.id, f"_c{k[0]}"
                        k[0] += 1
                        for n in ast.walk(node):
                            if isinstance(n, ast.Name) and n.id == old:
                                n.id = new
        ren: Dict[str, str] = {}
        for nm in _loads(expr):
            if nm in self.binds and nm not in self.params and nm not in ren and not nm.startswith("_c"):
                ren[nm] = f"_v{len(ren)}"
        for n in ast.walk(expr):
            if isinstance(n, ast.Name) and n.id in ren:
                n.id = ren[n.id]
        return expr

    def text(self, expr: ast.AST, at: int) -> str:
        return ast.unparse(self.canon(self.expand(expr, at)))

    def stmt_line(self, node: ast.AST) -> int:
        """line of the statement containing `node`"""
        best = None
        for st in ast.walk(self.fn):
            if isinstance(st, ast.stmt) and any(n is node for n in ast.walk(st)):
                if best is None or st.lineno >= best.lineno:
                    # innermost statement = the one with the greatest start line that still contains the node,
                    # except compound statements whose header does not hold the node
                    if isinstance(st, (ast.If, ast.While)) and not any(n is node for n in ast.walk(st.test)):
                        continue
                    if isinstance(st, (ast.For, ast.AsyncFor)) and not any(n is node for n in ast.walk(st.iter)):
                        continue
                    if isinstance(st, (ast.Try, ast.With, ast.FunctionDef)):
                        continue
                    best = st
        return best.lineno if best is not None else getattr(node, "lineno", 0)
