"""C04 — value pool, operand kinds and the primitive sites of the interpreter.

Shared by the generator of `Gen/Measured.lean` (gen_c04.py: exhaustive enumeration of every primitive
over the pool, recording the exception classes raised per operand-kind tuple) and by the correspondence
harness (props/c04.py: the same pool values injected into CEL text / activations).

A pool entry is `PoolVal(name, kind, make, cel, is_cel)`:
  name   unique identifier of the value (stable: used in cases and corpus files)
  kind   coarse operand kind (CEL class + boundary class); the measured table is keyed by kinds
  make   thunk building a fresh Python value (celpy is imported lazily: the module under test is
         whatever `import celpy` resolves to, i.e. $VERIF_REPO/src first on sys.path)
  cel    CEL source text evaluating to that value (None when only reachable through a binding)
  is_cel True when the value may legitimately appear in an activation (a CEL value); the other entries
         (natives, error values, NameContainer, functions) only arise inside an evaluation and are used
         for measuring primitives.
"""
from __future__ import annotations

import datetime
import math
from dataclasses import dataclass
from typing import Any, Callable, Dict, List, Optional, Tuple


@dataclass
class PoolVal:
    name: str
    kind: str
    make: Callable[[], Any]
    cel: Optional[str]
    is_cel: bool = True


def build_pool() -> List[PoolVal]:
    import celpy
    from celpy import celtypes as ct
    from celpy.evaluation import CELEvalError, NameContainer, Referent, base_functions

    I, U, D, S, B = ct.IntType, ct.UintType, ct.DoubleType, ct.StringType, ct.BytesType
    L, M = ct.ListType, ct.MapType
    utc = datetime.timezone.utc
    P: List[PoolVal] = []

    def add(name, kind, make, cel=None, is_cel=True):
        P.append(PoolVal(name, kind, make, cel, is_cel))

    # int
    add("i0", "int0", lambda: I(0), "0")
    add("i1", "int", lambda: I(1), "1")
    add("i2", "int", lambda: I(2), "2")
    add("im1", "intneg", lambda: I(-1), "(-1)")
    add("i40", "int", lambda: I(40), "40")
    add("imax", "intmax", lambda: I(2**63 - 1), "9223372036854775807")
    add("imin", "intmin", lambda: I(-2**63), "(-9223372036854775807 - 1)")
    # uint
    add("u0", "uint0", lambda: U(0), "0u")
    add("u1", "uint", lambda: U(1), "1u")
    add("u7", "uint", lambda: U(7), "7u")
    add("umax", "uintmax", lambda: U(2**64 - 1), "18446744073709551615u")
    # double
    add("d0", "dbl0", lambda: D(0.0), "0.0")
    add("dm0", "dbl0", lambda: D(-0.0), "(-0.0)")
    add("d15", "dbl", lambda: D(1.5), "1.5")
    add("d2", "dbl", lambda: D(2.0), "2.0")
    add("dm25", "dbl", lambda: D(-2.5), "(-2.5)")
    add("dbig", "dblbig", lambda: D(1e308), "1e308")
    add("d1e19", "dblbig", lambda: D(1e19), "1e19")
    add("dnan", "dblnan", lambda: D(math.nan), "(0.0/0.0)")
    add("dinf", "dblinf", lambda: D(math.inf), "(1.0/0.0)")
    add("dminf", "dblinf", lambda: D(-math.inf), "(-1.0/0.0)")
    # bool
    add("bt", "bool", lambda: ct.BoolType(True), "true")
    add("bf", "bool", lambda: ct.BoolType(False), "false")
    # string
    add("s_empty", "str0", lambda: S(""), "''")
    add("s_a", "str", lambda: S("a"), "'a'")
    add("s_abc", "str", lambda: S("abc"), "'abc'")
    add("s_1", "strnum", lambda: S("1"), "'1'")
    add("s_m5", "strnum", lambda: S("-5"), "'-5'")
    add("s_15", "strnum", lambda: S("1.5"), "'1.5'")
    add("s_big", "strnum", lambda: S("99999999999999999999"), "'99999999999999999999'")
    add("s_true", "str", lambda: S("true"), "'true'")
    add("s_dur", "strdur", lambda: S("90s"), "'90s'")
    add("s_durbig", "strdur", lambda: S("999999999999h"), "'999999999999h'")
    add("s_ts", "strts", lambda: S("2009-02-13T23:31:30Z"), "'2009-02-13T23:31:30Z'")
    add("s_tsbad", "strts", lambda: S("2009-13-45T99:31:30Z"), "'2009-13-45T99:31:30Z'")
    add("s_paren", "str", lambda: S("("), "'('")
    add("s_uni", "str", lambda: S("é\U0001F431"), "'é\U0001F431'")
    add("s_tz", "strtz", lambda: S("America/New_York"), "'America/New_York'")
    add("s_tzoff", "strtz", lambda: S("-08:00"), "'-08:00'")
    add("s_tzbad", "str", lambda: S("Mars/Olympus"), "'Mars/Olympus'")
    # strings whose VALUE (not kind) selects the behaviour of a primitive: Python %-format strings (`str % x` is
    # formatting: KeyError / ValueError / OverflowError / TypeError by format), numeric texts at the edges of
    # int()/float(), regular expressions re2 rejects (round 2: D46 — "behaviour depends on the kind only" was false)
    add("s_fmtkey", "strfmt", lambda: S("%(a)s"), "'%(a)s'")
    add("s_fmts", "strfmt", lambda: S("%s"), "'%s'")
    add("s_fmtd", "strfmt", lambda: S("%d"), "'%d'")
    add("s_fmtc", "strfmt", lambda: S("%c"), "'%c'")
    add("s_fmtstar", "strfmt", lambda: S("%*d"), "'%*d'")
    add("s_fmtpct", "strfmt", lambda: S("%"), "'%'")
    add("s_1e400", "strnumx", lambda: S("1e400"), "'1e400'")
    add("s_nan", "strnumx", lambda: S("nan"), "'nan'")
    add("s_arabic", "strnumx", lambda: S("\u0661\u0662"), "'\u0661\u0662'")
    add("s_rebig", "strre", lambda: S("a{1000000}"), "'a{1000000}'")
    add("s_regrp", "strre", lambda: S("(?P<n"), "'(?P<n'")
    # bytes
    add("b_empty", "bytes0", lambda: B(b""), "b''")
    add("b_a", "bytes", lambda: B(b"abc"), "b'abc'")
    add("b_ff", "bytesbad", lambda: B(b"\xff\xfe"), "b'\\xff\\xfe'")
    add("b_fmts", "bytesfmt", lambda: B(b"%s"), "b'%s'")
    add("b_fmtkey", "bytesfmt", lambda: B(b"%(a)s"), "b'%(a)s'")
    add("b_fmtc", "bytesfmt", lambda: B(b"%c"), "b'%c'")
    # list
    add("l_empty", "list0", lambda: L([]), "[]")
    add("l_1", "list", lambda: L([I(1)]), "[1]")
    add("l_123", "list", lambda: L([I(1), I(2), I(3)]), "[1, 2, 3]")
    add("l_mixed", "listmixed", lambda: L([I(1), S("a")]), "[1, 'a']")
    add("l_null", "listmixed", lambda: L([None]), "[null]")
    add("l_nested", "listnested", lambda: L([L([I(1)]), L([I(2)])]), "[[1], [2]]")
    add("l_str", "list", lambda: L([S("a"), S("b")]), "['a', 'b']")
    add("l_map", "listnested", lambda: L([M({S("a"): I(1)})]), "[{'a': 1}]")
    # map
    add("m_empty", "map0", lambda: M(), "{}")
    add("m_a1", "map", lambda: M({S("a"): I(1)}), "{'a': 1}")
    add("m_int", "map", lambda: M({I(1): S("x"), I(2): S("y")}), "{1: 'x', 2: 'y'}")
    add("m_nested", "map", lambda: M({S("a"): M({S("b"): I(1)})}), "{'a': {'b': 1}}")
    add("m_bool", "map", lambda: M({ct.BoolType(True): I(1)}), "{true: 1}")
    add("m_mixed", "map", lambda: M({S("a"): I(1), S("b"): S("x")}), "{'a': 1, 'b': 'x'}")
    # keys of different CEL types in one map (legal; the keys are not mutually comparable: sorting / min over them raises)
    add("m_mixk", "mapmixed", lambda: M({I(1): I(2), S("a"): I(3)}), "{1: 2, 'a': 3}")
    add("m_mixu", "mapmixed", lambda: M({U(2): I(2), S("b"): I(3)}), "{2u: 2, 'b': 3}")
    add("m_mixb", "mapmixed", lambda: M({ct.BoolType(True): I(1), S("c"): I(2), I(0): I(3)}), "{true: 1, 'c': 2, 0: 3}")
    # null
    add("null", "null", lambda: None, "null")
    # timestamp / duration
    add("t_epoch", "ts", lambda: ct.TimestampType(1970, 1, 1, tzinfo=utc), "timestamp('1970-01-01T00:00:00Z')")
    add("t_2009", "ts", lambda: ct.TimestampType(2009, 2, 13, 23, 31, 30, tzinfo=utc), "timestamp('2009-02-13T23:31:30Z')")
    add("t_min", "tsmin", lambda: ct.TimestampType(1, 1, 1, tzinfo=utc), "timestamp('0001-01-01T00:00:00Z')")
    add("t_max", "tsmax", lambda: ct.TimestampType(9999, 12, 31, 23, 59, 59, tzinfo=utc), "timestamp('9999-12-31T23:59:59Z')")
    add("dur0", "dur", lambda: ct.DurationType(seconds=0), "duration('0s')")
    add("dur1", "dur", lambda: ct.DurationType(seconds=90), "duration('90s')")
    add("durm1", "dur", lambda: ct.DurationType(seconds=-1), "duration('-1s')")
    add("durmax", "durbig", lambda: ct.DurationType(seconds=315576000000), "duration('315576000000s')")
    add("durmin", "durbig", lambda: ct.DurationType(seconds=-315576000000), "duration('-315576000000s')")
    # types / message
    add("ty_int", "type", lambda: I, "int", False)          # the identifier `int` resolves to the class
    add("ty_tint", "type", lambda: ct.TypeType(I(1)), "type(1)")
    add("ty_tnull", "type", lambda: ct.TypeType(None), "type(null)")
    add("ty_str", "type", lambda: S, "string", False)
    add("ty_ts", "type", lambda: ct.TimestampType, "timestamp", False)
    add("msg", "msg", lambda: ct.MessageType(a=I(1)), None)
    add("msg0", "msg", lambda: ct.MessageType(), None)
    # values that only arise inside an evaluation
    add("err", "err", lambda: CELEvalError("boom", ZeroDivisionError, ("division by zero",)), "(1/0)", False)
    add("nc", "namecontainer", lambda: NameContainer("a", Referent(I)), None, False)
    add("fn_size", "function", lambda: base_functions["size"], "size", False)
    add("fn_not", "function", lambda: base_functions["!_"], None, False)
    add("n_float", "pyfloat", lambda: 1.5, "(1.0 + 0.5)", False)
    add("n_str", "pystr", lambda: "ab", "('a' + 'b')", False)
    add("n_list", "pylist", lambda: [I(1), I(2)], "([1] + [2])", False)
    add("n_bytes", "pybytes", lambda: b"ab", "(b'a' + b'b')", False)
    add("n_dict", "pydict", lambda: {S("a"): I(1)}, None, False)
    add("n_int", "pyint", lambda: 7, None, False)
    add("n_bool", "pybool", lambda: True, None, False)
    add("n_td", "pytimedelta", lambda: datetime.timedelta(seconds=5), "(duration('9s') - duration('4s'))", False)
    add("n_dt", "pydatetime", lambda: datetime.datetime(2020, 1, 1, tzinfo=utc), None, False)
    add("n_notimpl", "notimplemented", lambda: NotImplemented, None, False)
    return P


_POOL: Optional[List[PoolVal]] = None


def pool() -> List[PoolVal]:
    global _POOL
    if _POOL is None:
        _POOL = build_pool()
    return _POOL


def pool_by_name() -> Dict[str, PoolVal]:
    return {p.name: p for p in pool()}


def kinds() -> List[str]:
    out: List[str] = []
    for p in pool():
        if p.kind not in out:
            out.append(p.kind)
    return out


# ------------------------------------------------------------------------------------------------------
# literal tokens (the `literal` rule has token text, not values, as its operand)
# ------------------------------------------------------------------------------------------------------

LITERALS: List[Tuple[str, str]] = [
    # (kind, CEL literal text)
    ("int", "0"), ("int", "42"), ("int", "-7"), ("inthex", "0x1F"), ("inthex", "-0xff"), ("intlead0", "007"),
    ("intlead0", "-010"), ("intbig", "9223372036854775807"), ("intbig", "9223372036854775808"),
    ("intbig", "-9223372036854775808"), ("intbig", "-9223372036854775809"), ("intbig", "0xFFFFFFFFFFFFFFFFFF"),
    ("uint", "0u"), ("uint", "5U"), ("uinthex", "0x10u"), ("uintbig", "18446744073709551615u"),
    ("uintbig", "18446744073709551616u"), ("uintneg", "-1u"), ("uintlead0", "007u"),
    ("float", "1.5"), ("float", "1."), ("float", ".5"), ("float", "-0.0"), ("float", "1e5"), ("float", "1E-5"),
    ("floatbig", "1e999"), ("floatbig", "-1e999"), ("floatbig", "1.7976931348623157e308"), ("float", "007.5"),
    ("bool", "true"), ("bool", "false"), ("null", "null"),
    ("str", "''"), ("str", '"abc"'), ("str", "'it''s'".replace("''", "\\'")), ("strraw", "r'a\\nb'"), ("strraw", 'R"x\\"'),
    ("strml", "'''a\nb'''"), ("strml", '"""q"uote"""'), ("strml", "r'''raw\\n'''"),
    ("stresc", "'\\a\\b\\f\\n\\r\\t\\v\\\\\\'\\\"'"), ("stroct", "'\\101'"), ("stroct", "'\\377'"), ("stroctbig", "'\\400'"),
    ("stroctbig", "'\\999'"), ("strhex", "'\\x41'"), ("strhex", "'\\xff'"), ("stru4", "'\\u00e9'"),
    ("strsurr", "'\\ud800'"), ("strU8", "'\\U0001F431'"), ("strU8big", "'\\U00110000'"), ("strU8big", "'\\UFFFFFFFF'"),
    ("struni", "'é\U0001F431'"), ("strbs", "'\\q'"), ("stru48", '"\\u12345"'),
    ("bytes", "b''"), ("bytes", "b'abc'"), ("bytes", 'B"x"'), ("bytesraw", "br'a\\n'"), ("bytesraw", "BR'''x'''"),
    ("bytesml", "b'''a\nb'''"), ("bytesesc", "b'\\a\\n\\\\'"), ("bytesoct", "b'\\101'"), ("bytesoct", "b'\\377'"),
    ("bytesoctbig", "b'\\400'"), ("byteshex", "b'\\xff'"), ("bytesu4", "b'\\u0041'"), ("bytesu4big", "b'\\u1234'"),
    ("bytesU8", "b'\\U0001F431'"), ("bytesU8", "b'\\U00000041'"), ("bytesuni", "b'é'"), ("bytesrawuni", "br'é'"),
    ("bytesrawuni", "br'€'"), ("bytesbs", "b'\\q'"),
    # longer than Python's integer-string conversion limit (4300 digits)
    ("intlong", "1" * 4400), ("intlong", "-" + "1" * 4400), ("intlong", "0" * 4400 + "7"), ("uintlong", "1" * 4400 + "u"),
    ("floatlong", "1" * 4400 + ".5"), ("inthexlong", "0x" + "f" * 4400), ("strlong", "'" + "a" * 5000 + "'"),
]

N_CORE_LITERALS = len(LITERALS)


def _escape_sweep() -> List[Tuple[str, str]]:
    """Round 4 — literal DECODING depends on the character that follows a backslash, not on the kind of the literal:
    `celstr`/`celbytes` split the text with one regular expression (CEL_ESCAPES_PAT) and translate the pieces with a
    table (CEL_ESCAPES) and a chain of prefix tests; the three must agree for every piece the pattern can produce.
    So: a backslash followed by EVERY printable ASCII character (plus tab and three non-ASCII characters), in every
    cooked literal form (string / bytes, both quote characters, triple-quoted), and the incomplete numeric escapes
    (too few octal / hex / unicode digits). Appended after the core literals: corpus cases address literals by index."""
    chars = [chr(i) for i in range(0x20, 0x7f)] + ["\t", "\u00e9", "\u20ac", "\U0001F431"]
    forms = [("strbsx", "'", "'"), ("strbsx", '"', '"'), ("strbsx", '"""', '"""'),
             ("bytesbsx", "b'", "'"), ("bytesbsx", 'b"', '"'), ("bytesbsx", "b'''", "'''"), ("bytesbsx", 'B"""', '"""')]
    out: List[Tuple[str, str]] = []
    for kind, op, cl in forms:
        for ch in chars:
            out.append((kind, f"{op}a\\{ch}z{cl}"))
        for part in ("\\1", "\\12z", "\\8", "\\x4", "\\xg1", "\\u123", "\\u12g4", "\\U0001F43", "\\U0001F43g"):
            out.append((kind.replace("bsx", "part"), f"{op}{part}{cl}"))
        out.append((kind, f"{op}\\`{cl}"))
    return out


LITERALS += _escape_sweep()


# ------------------------------------------------------------------------------------------------------
# primitive sites
# ------------------------------------------------------------------------------------------------------

@dataclass
class Site:
    """A place in `Evaluator` where a Python primitive is applied to operand values.

    name      Lean constructor name of `Cel.Total.Rule`
    method    the `Evaluator` method containing the call
    expr      exact source text (ast.unparse) of the call expression inside that method; the handler set
              of the site is the union of the `except` clauses of every `try` statement of the method whose
              BODY contains that expression (recomputed from the source on every run)
    under     optional: the expression must be inside an `if` whose test has this source text
    which     which occurrence (source order) among the matches
    also      further expression texts that must occur in the same try bodies (asserted, not measured apart)
    cases     thunk -> iterable of (key, call): key = tuple of strings (label, operand kinds...), call = thunk
              applying the primitive to concrete pool values (mirrors what the method does at that point)
    """
    name: str
    method: str
    expr: str
    cases: Callable[[], Any]
    under: Optional[str] = None
    which: int = 0
    also: Tuple[str, ...] = ()


def _reps() -> List[PoolVal]:
    """one representative per kind"""
    seen, out = set(), []
    for p in pool():
        if p.kind not in seen:
            seen.add(p.kind)
            out.append(p)
    return out


def build_sites() -> List[Site]:
    import celpy
    from celpy import celtypes as ct
    from celpy import evaluation as ev
    from celpy.evaluation import base_functions as bf, NameContainer, CELEvalError, Activation
    import typing

    P = pool()
    R = _reps()

    def unary_cases(fns):
        def gen():
            for lbl, f in fns.items():
                for a in P:
                    yield (lbl, a.kind), (lambda f=f, a=a: f(a.make()))
        return gen

    def binary_cases(fns):
        def gen():
            for lbl, f in fns.items():
                for a in P:
                    for b in P:
                        yield (lbl, a.kind, b.kind), (lambda f=f, a=a, b=b: f(a.make(), b.make()))
        return gen

    def cond_cases():
        def prim(c, l, r):
            # `if cond_value:` is evaluated inside the same try block
            bool(c)
            return bf["_?_:_"](c, l, r)
        few = [p for p in R if p.kind in ("int", "str", "err", "null", "list", "bool", "dbl")]
        for c in P:
            for l in few:
                for r in few:
                    yield ("_?_:_", c.kind, l.kind, r.kind), (lambda c=c, l=l, r=r: prim(c.make(), l.make(), r.make()))

    def dot_cases(branch):
        names = ["a", "b", "value"]

        def gen():
            for m in P:
                v = m.make()
                if isinstance(v, CELEvalError):
                    continue
                if branch == "nc":
                    if not isinstance(v, NameContainer):
                        continue
                    for n in names:
                        if n in v:
                            yield ("nc", m.kind, "present"), (lambda m=m, n=n: m.make()[n].value)
                elif branch == "msg":
                    if isinstance(v, NameContainer) or not isinstance(v, ct.MessageType):
                        continue
                    for n in names:
                        yield ("msg", m.kind, "present" if n in v else "absent"), (lambda m=m, n=n: m.make().get(n))
                else:
                    if isinstance(v, (NameContainer, ct.MessageType)) or not isinstance(v, ct.MapType):
                        continue
                    for n in names:
                        yield ("map", m.kind, "present" if n in v else "absent"), (lambda m=m, n=n: m.make()[n])
        return gen

    def iterables():
        for m in P:
            v = m.make()
            if isinstance(v, CELEvalError) or not isinstance(v, typing.Iterable):
                continue
            yield m

    def iter_cases():
        for m in iterables():
            yield ("iter", m.kind), (lambda m=m: [x for x in m.make()])

    def min_cases():
        for m in iterables():
            yield ("min", m.kind), (lambda m=m: min(m.make()))

    def fold_cases():
        accs = [p for p in P if p.kind in ("bool", "err")]
        for lbl in ("_&&_", "_||_"):
            for a in accs:
                for b in P:
                    yield (lbl, a.kind, b.kind), (lambda lbl=lbl, a=a, b=b: bf[lbl](a.make(), b.make()))

    def truth_cases():
        for a in P:
            yield ("bool", a.kind), (lambda a=a: bool(a.make()))

    fnames = sorted(k for k in bf if k[0].isalpha())

    def call_cases(method: bool):
        def gen():
            for f in fnames:
                fn = bf[f]
                if not method:
                    yield (f, "0"), (lambda fn=fn: fn())
                for a in P:
                    yield (f, "1", a.kind), (lambda fn=fn, a=a: fn(a.make()))
                for a in P:
                    for b in R:
                        yield (f, "2", a.kind, b.kind), (lambda fn=fn, a=a, b=b: fn(a.make(), b.make()))
                few = [p for p in R if p.kind in ("int", "str", "null", "list")]
                for a in R:
                    for b in few:
                        for c in few:
                            yield (f, "3", a.kind), (lambda fn=fn, a=a, b=b, c=c: fn(a.make(), b.make(), c.make()))
        return gen

    def resolve_fn_cases():
        act = Activation()
        for n in fnames + ["nosuch", "_+_", ""]:
            yield ("fn", "known" if n in bf else "unknown"), (lambda n=n: act.resolve_function(n))

    def resolve_var_cases(dotted: bool):
        # activation shapes: package x binding name x bound value kind x looked-up name
        for pkg in (None, "jq", "a.b"):
            for bname in ("jq", "a", "a.b", "x"):
                for v in R:
                    if not v.is_cel and v.kind not in ("err",):
                        continue
                    for look in ("jq", "a", "b", "c", "x", "size", "nosuch", "google"):
                        def call(pkg=pkg, bname=bname, v=v, look=look):
                            act = Activation(package=pkg, annotations=dict(celpy.googleapis))
                            act2 = act.clone()
                            act2.identifiers.load_values({bname: v.make()})
                            return act2.resolve_variable(look)
                        yield ("var", str(pkg), bname, v.kind, look), call

    import lark

    class Stub(ev.Evaluator):
        """runs the REAL `mapinits` / `fieldinits` methods on already evaluated children"""
        def __init__(self):
            pass

        def visit_children(self, tree):
            return list(tree._values)

    def stub_tree(data, children, values):
        t = lark.Tree(data, children)
        t._values = values
        return t

    def maplit_cases():
        def prim(items):
            return Stub().mapinits(stub_tree("mapinits", [], items))
        for a in P:
            yield ("map1", a.kind), (lambda a=a: prim([a.make(), ct.IntType(1)]))
        for a in P:
            for b in P:
                yield ("map2", a.kind, b.kind), (lambda a=a, b=b: prim([a.make(), ct.IntType(1), b.make(), ct.IntType(2)]))

    def exprlist_cases():
        for a in P:
            for b in R:
                yield ("list", a.kind, b.kind), (lambda a=a, b=b: ct.ListType([a.make(), b.make()]))

    msgs = {"none": lambda: None, "empty": lambda: ct.MessageType(), "value": lambda: ct.MessageType(value=ct.IntType(1)),
            "other": lambda: ct.MessageType(a=ct.IntType(1)), "valuestr": lambda: ct.MessageType(value=ct.StringType("x"))}

    def classes():
        out = [(p.kind, p.make) for p in P]
        for name, c in sorted(celpy.googleapis.items()):
            out.append(("type", (lambda c=c: c)))
        # an identifier that is not a variable denotes the function of that name: `getDate{}` applies it (D47);
        # what a function raises depends on the function, not on the kind "function" — take all of them
        for name, f in sorted(bf.items(), key=lambda kv: str(kv[0])):
            out.append(("function", (lambda f=f: f)))
        return out

    def object0_cases():
        for k, mk in classes():
            yield ("new", k, "none"), (lambda mk=mk: mk()(None))

    def object_cases():
        for k, mk in classes():
            for mname, mm in msgs.items():
                if mname == "none":
                    continue
                yield ("new", k, mname), (lambda mk=mk, mm=mm: mk()(mm()))
            # the wrapper types convert the `value` field: every value kind in that field
            for v in P:
                yield ("new", k, "value:" + v.kind), (lambda mk=mk, v=v: mk()(ct.MessageType({ct.StringType("value"): v.make()})))

    def fields_cases():
        def prim(names, values):
            children = []
            for n, v in zip(names, values):
                children += [lark.Token("IDENT", n), stub_tree("expr", [], [v])]
            return Stub().fieldinits(lark.Tree("fieldinits", children))
        for a in R:
            yield ("fields", "distinct", a.kind), (lambda a=a: prim(["a", "b"], [a.make(), a.make()]))
            yield ("fields", "duplicate", a.kind), (lambda a=a: prim(["a", "a"], [a.make(), a.make()]))
            yield ("fields", "pynames", a.kind), (lambda a=a: prim(["self", "items", "args", "fields", "cls"], [a.make()] * 5))

    def literal_cases():
        parser = celpy.CELParser()
        for kind, text in LITERALS:
            def call(text=text):
                toks = list(parser.parser.lex(text))
                if len(toks) != 1:
                    raise AssertionError(f"literal pool entry {text!r} lexes to {len(toks)} tokens")
                tok = toks[0]
                t = tok.type
                if t == "FLOAT_LIT":
                    return ct.DoubleType(tok.value)
                if t == "INT_LIT":
                    return ct.IntType(tok.value)
                if t == "UINT_LIT":
                    return ct.UintType(tok.value[:-1])
                if t in ("MLSTRING_LIT", "STRING_LIT"):
                    return ev.celstr(tok)
                if t == "BYTES_LIT":
                    return ev.celbytes(tok)
                if t == "BOOL_LIT":
                    return ct.BoolType(tok.value.lower() == "true")
                if t == "NULL_LIT":
                    return None
                raise AssertionError(f"literal pool entry {text!r} is a {t}")
            yield ("lit", kind), call

    rel = {k: bf[k] for k in ("_<_", "_<=_", "_>_", "_>=_", "_==_", "_!=_", "_in_")}
    S: List[Site] = [
        Site("exprCond", "expr", "func(cond_value, left, right)", cond_cases),
        Site("condOr", "conditionalor", "func(left, right)", binary_cases({"_||_": bf["_||_"]})),
        Site("condAnd", "conditionaland", "func(left, right)", binary_cases({"_&&_": bf["_&&_"]})),
        Site("relation", "relation", "func(left, right)", binary_cases(rel)),
        Site("addition", "addition", "func(left, right)", binary_cases({k: bf[k] for k in ("_+_", "_-_")})),
        Site("multiplication", "multiplication", "func(left, right)", binary_cases({k: bf[k] for k in ("_*_", "_/_", "_%_")})),
        Site("unary", "unary", "func(right)", unary_cases({k: bf[k] for k in ("!_", "-_")})),
        Site("memberIndex", "member_index", "func(member, index)", binary_cases({"_[_]": bf["_[_]"]})),
        Site("dotNameContainer", "member_dot", "member[property_name].value", dot_cases("nc")),
        Site("dotMessage", "member_dot", "member.get(property_name)", dot_cases("msg")),
        Site("dotMap", "member_dot", "member[property_name]", dot_cases("map"), which=1),
        # map / filter / exists_one: iteration and truthiness of the body values under one `try … except CELEvalError`
        Site("macroIter", "member_dot_arg", "celpy.celtypes.ListType(mapping)", lambda: list(iter_cases()) + list(truth_cases()),
             also=("celpy.celtypes.ListType(filter(sub_expr, member_list))", "bool(sub_expr(value))")),
        # all / exists / reduce: the receiver is iterated outside any try
        Site("macroIterBare", "member_dot_arg", "reduce(and_oper, map(sub_expr, member_list), celpy.celtypes.BoolType(True))",
             iter_cases, also=("reduce(or_oper, map(sub_expr, member_list), celpy.celtypes.BoolType(False))",
                               "reduce(reduce_expr, member_list, initial_value)")),
        Site("macroMin", "member_dot_arg", "min(member_list)", min_cases),
        Site("macroFold", "member_dot_arg", "eval_error('no such overload', TypeError)", fold_cases),
        Site("funcResolve", "function_eval", "self.activation.resolve_function(name_token.value)", resolve_fn_cases),
        Site("funcCall", "function_eval", "function(*list_exprlist)", call_cases(False)),
        Site("methodResolve", "method_eval", "self.activation.resolve_function(method_ident.value)", resolve_fn_cases),
        Site("methodCall", "method_eval", "function(object, *list_exprlist)", call_cases(True)),
        Site("objectFields", "member_object", "self.visit_children(tree)", fields_cases),
        Site("objectNew0", "member_object", "protobuf_class(None)", object0_cases),
        Site("objectNew", "member_object", "protobuf_class(cast(celpy.celtypes.Value, fieldinits))", object_cases),
        Site("mapLit", "primary", "self.visit_children(child)", maplit_cases, under="child.data == 'map_lit'"),
        Site("dotIdent", "primary", "self.ident_value(name_token.value, root_scope=True)", lambda: resolve_var_cases(True)),
        Site("ident", "primary", "self.ident_value(name_token.value)", lambda: resolve_var_cases(False)),
        Site("literal", "literal", "celstr(value_token)", literal_cases,
             also=("celbytes(value_token)", "celpy.celtypes.DoubleType(value_token.value)",
                   "celpy.celtypes.IntType(value_token.value)", "celpy.celtypes.UintType(value_token.value[:-1])")),
        Site("exprlist", "exprlist", "celpy.celtypes.ListType(cast(List[celpy.celtypes.Value], values))", exprlist_cases),
    ]
    return S


def measure(sites: Optional[List[Site]] = None) -> Dict[str, Dict[Tuple[str, ...], Dict[str, Any]]]:
    """Apply every primitive to every operand tuple. Result: site -> key -> {"exc": {class,...}, "n": calls,
    "emptyargs": {class,...}} where `exc` holds the exception CLASSES raised (class objects) and `emptyargs`
    those raised at least once with `args == ()` (handlers index `ex.args[0]`)."""
    import logging
    logging.disable(logging.CRITICAL)
    out: Dict[str, Dict[Tuple[str, ...], Dict[str, Any]]] = {}
    for s in sites or build_sites():
        if s.name == "methodCall" and "funcCall" in out:
            # `function(object, *args)` applies the same functions as `function(*args)` with at least one argument
            out[s.name] = {k: dict(v, exc=set(v["exc"]), emptyargs=set(v["emptyargs"]))
                           for k, v in out["funcCall"].items() if k[1] != "0"}
            continue
        tab: Dict[Tuple[str, ...], Dict[str, Any]] = {}
        for key, call in s.cases():
            e = tab.setdefault(tuple(key), {"exc": set(), "n": 0, "emptyargs": set(), "ok": 0})
            e["n"] += 1
            try:
                call()
                e["ok"] += 1
            except RecursionError as ex:   # keep the harness alive, still an observed class
                e["exc"].add(type(ex))
            except BaseException as ex:  # noqa: measuring is the point
                if isinstance(ex, (KeyboardInterrupt, SystemExit)):
                    raise
                e["exc"].add(type(ex))
                if not ex.args:
                    e["emptyargs"].add(type(ex))
        out[s.name] = tab
    return out
