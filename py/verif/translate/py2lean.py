"""py2lean — translate a small subset of Python (the pure, table-like parts of
cel-python) into Lean 4 definitions.  Re-run on every check, from /repo's
current working tree.  Anything outside the subset raises TranslationError;
the caller treats that like a broken bridge theorem (search for a failing
input, then violation / no-failing-input-found).

Two dialects:
  * "int":   Python ints are Lean `Int`; the result monad is `PyM Int`;
             `//`, `%` may raise ZeroDivisionError; wrapper constructors
             IntType(e)/UintType(e) on an int expression are the range checks
             `int64`/`uint64` (checked against the `__new__` ladders).
  * "logic": values are the outcome classes `O` (t | f | e | v).
"""
from __future__ import annotations
import ast
from dataclasses import dataclass, field
from typing import List, Tuple, Dict, Optional


class TranslationError(Exception):
    pass


EXC_MAP = {
    "TypeError": ".typeError", "ValueError": ".valueError", "KeyError": ".keyError",
    "IndexError": ".indexError", "ZeroDivisionError": ".zeroDiv", "OverflowError": ".overflow",
}


def find_class(mod: ast.Module, name: str) -> ast.ClassDef:
    for n in mod.body:
        if isinstance(n, ast.ClassDef) and n.name == name:
            return n
    raise TranslationError(f"class {name} not found")


def find_func(body, name: str) -> ast.FunctionDef:
    for n in body:
        if isinstance(n, ast.FunctionDef) and n.name == name:
            return n
    raise TranslationError(f"def {name} not found")


def strip_doc(body):
    body = list(body)
    if body and isinstance(body[0], ast.Expr) and isinstance(body[0].value, ast.Constant) and isinstance(body[0].value.value, str):
        body = body[1:]
    return body


def is_logger_call(st) -> bool:
    return (isinstance(st, ast.Expr) and isinstance(st.value, ast.Call)
            and isinstance(st.value.func, ast.Attribute)
            and isinstance(st.value.func.value, ast.Name) and st.value.func.value.id == "logger")


# ---------------------------------------------------------------------------
# int dialect
# ---------------------------------------------------------------------------

class IntTr:
    """Translate a method body over Python ints into a `PyM Int` do-block."""

    def __init__(self, wrapper: str, wrap_fn: Dict[str, str]):
        self.wrapper = wrapper        # "IntType" / "UintType"
        self.wrap_fn = wrap_fn        # constructor name -> Lean range-check function
        self.tmp = 0

    def fresh(self) -> str:
        self.tmp += 1
        return f"t{self.tmp}"

    # expression -> (list of monadic bindings, pure Lean expr)
    def expr(self, e) -> Tuple[List[str], str]:
        if isinstance(e, ast.Constant) and isinstance(e.value, int) and not isinstance(e.value, bool):
            return [], f"({e.value} : Int)"
        if isinstance(e, ast.Name):
            return [], e.id
        if isinstance(e, ast.UnaryOp) and isinstance(e.op, ast.USub):
            b, x = self.expr(e.operand)
            return b, f"(-{x})"
        if isinstance(e, ast.UnaryOp) and isinstance(e.op, ast.UAdd):
            return self.expr(e.operand)
        if isinstance(e, ast.BinOp):
            if isinstance(e.op, ast.Pow):
                if (isinstance(e.left, ast.Constant) and isinstance(e.right, ast.Constant)
                        and isinstance(e.left.value, int) and isinstance(e.right.value, int) and e.right.value >= 0):
                    return [], f"(({e.left.value} : Int)^{e.right.value})"
                raise TranslationError("pow on non-literals")
            bl, l = self.expr(e.left)
            br, r = self.expr(e.right)
            if isinstance(e.op, ast.Add):
                return bl + br, f"({l} + {r})"
            if isinstance(e.op, ast.Sub):
                return bl + br, f"({l} - {r})"
            if isinstance(e.op, ast.Mult):
                return bl + br, f"({l} * {r})"
            if isinstance(e.op, ast.FloorDiv):
                t = self.fresh()
                return bl + br + [f"let {t} ← pyFloorDiv {l} {r}"], t
            if isinstance(e.op, ast.Mod):
                t = self.fresh()
                return bl + br + [f"let {t} ← pyMod {l} {r}"], t
            raise TranslationError(f"binop {type(e.op).__name__}")
        if isinstance(e, ast.IfExp):
            bc, c = self.cond(e.test)
            bt, t = self.expr(e.body)
            bf, f = self.expr(e.orelse)
            if bt or bf:
                raise TranslationError("effectful branch in conditional expression")
            return bc, f"(if {c} then {t} else {f})"
        if isinstance(e, ast.Call):
            fn = e.func
            if isinstance(fn, ast.Name) and fn.id == "cast" and len(e.args) == 2:
                return self.expr(e.args[1])
            if isinstance(fn, ast.Name) and fn.id == "abs" and len(e.args) == 1:
                b, x = self.expr(e.args[0])
                return b, f"(pyAbs {x})"
            if isinstance(fn, ast.Name) and fn.id in self.wrap_fn and len(e.args) == 1:
                b, x = self.expr(e.args[0])
                t = self.fresh()
                return b + [f"let {t} ← {self.wrap_fn[fn.id]} {x}"], t
            # super().__op__(x)
            if (isinstance(fn, ast.Attribute) and isinstance(fn.value, ast.Call)
                    and isinstance(fn.value.func, ast.Name) and fn.value.func.id == "super"):
                op = fn.attr
                args = [self.expr(a) for a in e.args]
                bs = [b for (bb, _) in args for b in bb]
                xs = [x for (_, x) in args]
                table = {
                    "__neg__": lambda: f"(-self)",
                    "__add__": lambda: f"(self + {xs[0]})",
                    "__sub__": lambda: f"(self - {xs[0]})",
                    "__mul__": lambda: f"(self * {xs[0]})",
                    "__radd__": lambda: f"({xs[0]} + self)",
                    "__rsub__": lambda: f"({xs[0]} - self)",
                    "__rmul__": lambda: f"({xs[0]} * self)",
                }
                if op in table:
                    return bs, table[op]()
                mon = {
                    "__floordiv__": lambda: f"pyFloorDiv self {xs[0]}",
                    "__mod__": lambda: f"pyMod self {xs[0]}",
                    "__rfloordiv__": lambda: f"pyFloorDiv {xs[0]} self",
                    "__rmod__": lambda: f"pyMod {xs[0]} self",
                }
                if op in mon:
                    t = self.fresh()
                    return bs + [f"let {t} ← {mon[op]()}"], t
                raise TranslationError(f"super().{op}")
            raise TranslationError(f"call {ast.dump(fn)[:60]}")
        raise TranslationError(f"expr {type(e).__name__}")

    def cond(self, e) -> Tuple[List[str], str]:
        if isinstance(e, ast.Compare):
            bs, parts = [], []
            b, left = self.expr(e.left)
            bs += b
            for op, rhs in zip(e.ops, e.comparators):
                b, r = self.expr(rhs)
                bs += b
                sym = {ast.Lt: "<", ast.LtE: "≤", ast.Gt: ">", ast.GtE: "≥", ast.Eq: "=", ast.NotEq: "≠"}.get(type(op))
                if sym is None:
                    raise TranslationError("comparison operator")
                parts.append(f"{left} {sym} {r}")
                left = r
            return bs, " ∧ ".join(parts)
        if isinstance(e, ast.BoolOp):
            sub = [self.cond(v) for v in e.values]
            bs = [b for (bb, _) in sub for b in bb]
            j = " ∧ " if isinstance(e.op, ast.And) else " ∨ "
            return bs, "(" + j.join(f"({c})" for _, c in sub) + ")"
        if isinstance(e, ast.UnaryOp) and isinstance(e.op, ast.Not):
            b, c = self.cond(e.operand)
            return b, f"¬({c})"
        raise TranslationError(f"cond {type(e).__name__}")

    def block(self, stmts, indent: str) -> List[str]:
        out: List[str] = []
        stmts = [s for s in strip_doc(stmts) if not is_logger_call(s)]
        for i, st in enumerate(stmts):
            if isinstance(st, ast.AnnAssign) and st.value is None:
                continue
            if isinstance(st, (ast.Assign, ast.AnnAssign)):
                tgt = st.targets[0] if isinstance(st, ast.Assign) else st.target
                if not isinstance(tgt, ast.Name):
                    raise TranslationError("assignment target")
                b, x = self.expr(st.value)
                out += [indent + s for s in b]
                out.append(f"{indent}let {tgt.id} := {x}")
            elif isinstance(st, ast.Return):
                b, x = self.expr(st.value)
                out += [indent + s for s in b]
                out.append(f"{indent}pure {x}")
                return out
            elif isinstance(st, ast.Raise):
                out.append(f"{indent}throw {self.exc(st)}")
                return out
            elif isinstance(st, ast.If):
                b, c = self.cond(st.test)
                out += [indent + s for s in b]
                rest = stmts[i + 1:]
                thn = self.block(st.body, indent + "  ")
                els_src = list(st.orelse) if st.orelse else []
                # statements after the `if` run when the taken branch falls through;
                # supported shape: the `then` branch ends in return/raise.
                if not self.terminates(st.body):
                    raise TranslationError("if-branch that falls through")
                els = self.block(els_src + rest, indent + "  ")
                out.append(f"{indent}if {c} then")
                out += thn
                out.append(f"{indent}else")
                out += els
                return out
            else:
                raise TranslationError(f"statement {type(st).__name__}")
        raise TranslationError("block without return")

    @staticmethod
    def terminates(body) -> bool:
        last = body[-1]
        if isinstance(last, (ast.Return, ast.Raise)):
            return True
        if isinstance(last, ast.If) and last.orelse:
            return IntTr.terminates(last.body) and IntTr.terminates(last.orelse)
        return False

    @staticmethod
    def exc(st: ast.Raise) -> str:
        e = st.exc
        name = None
        if isinstance(e, ast.Call) and isinstance(e.func, ast.Name):
            name = e.func.id
        elif isinstance(e, ast.Name):
            name = e.id
        if name not in EXC_MAP:
            raise TranslationError(f"raise {name}")
        return EXC_MAP[name]


def translate_range_decorator(mod: ast.Module, name: str) -> str:
    """`def int64(operator): @wraps def clamped_operator(*a, **k): result_value = operator(*a, **k); <body>`
    → `def Gen.<name> (result_value : Int) : PyM Int := do <body>`"""
    outer = find_func(mod.body, name)
    inner = None
    for st in strip_doc(outer.body):
        if isinstance(st, ast.FunctionDef):
            inner = st
    if inner is None:
        raise TranslationError(f"{name}: inner function not found")
    body = strip_doc(inner.body)
    first = body[0]
    tgt = first.targets[0] if isinstance(first, ast.Assign) else getattr(first, "target", None)
    val = first.value if isinstance(first, (ast.Assign, ast.AnnAssign)) else None
    if not (isinstance(tgt, ast.Name) and isinstance(val, ast.Call) and isinstance(val.func, ast.Name)
            and val.func.id == outer.args.args[0].arg):
        raise TranslationError(f"{name}: first statement is not `r = operator(...)`")
    tr = IntTr(name, {})
    lines = tr.block(body[1:], "  ")
    return f"def {name} ({tgt.id} : Int) : PyM Int := do\n" + "\n".join(lines) + "\n"


def check_int_ctor_ladder(cls: ast.ClassDef, dec: str) -> None:
    """`Wrapper(e)` for a Python int `e` must reach `convert = <dec>(int)` in the final
    else-branch of `__new__` and return `super().__new__(cls, convert(source))`."""
    new = find_func(cls.body, "__new__")
    ok_else = False
    ok_ret = False
    for st in ast.walk(new):
        if isinstance(st, ast.If):
            cur = st
            while cur.orelse and len(cur.orelse) == 1 and isinstance(cur.orelse[0], ast.If):
                cur = cur.orelse[0]
            for s in cur.orelse:
                if (isinstance(s, ast.Assign) and isinstance(s.value, ast.Call)
                        and isinstance(s.value.func, ast.Name) and s.value.func.id == dec
                        and len(s.value.args) == 1 and isinstance(s.value.args[0], ast.Name)
                        and s.value.args[0].id == "int"):
                    ok_else = True
        if isinstance(st, ast.Return) and isinstance(st.value, ast.Call):
            src = ast.unparse(st.value).replace(" ", "")
            if src == "super().__new__(cls,convert(source))":
                ok_ret = True
    if not (ok_else and ok_ret):
        raise TranslationError(f"{cls.name}.__new__: int branch is not `{dec}(int)`")


DUNDERS = ["__neg__", "__add__", "__sub__", "__mul__", "__truediv__", "__mod__",
           "__radd__", "__rsub__", "__rmul__", "__rtruediv__", "__rmod__"]


def translate_int_class(mod: ast.Module, clsname: str, dec: str, ns: str) -> str:
    cls = find_class(mod, clsname)
    check_int_ctor_ladder(cls, dec)
    out = [f"namespace {ns}"]
    # aliases like `__floordiv__ = __truediv__` are reported as comments
    aliases = {}
    for st in cls.body:
        if isinstance(st, ast.Assign) and isinstance(st.targets[0], ast.Name) and isinstance(st.value, ast.Name):
            aliases[st.targets[0].id] = st.value.id
    for d in DUNDERS:
        fn = find_func(cls.body, d)
        decs = [x.id for x in fn.decorator_list if isinstance(x, ast.Name)]
        if any(not isinstance(x, ast.Name) for x in fn.decorator_list):
            raise TranslationError(f"{clsname}.{d}: decorator")
        params = [a.arg for a in fn.args.args]
        tr = IntTr(clsname, {"IntType": "int64", "UintType": "uint64"} if False else {clsname: dec})
        # IntType(0) inside an IntType method and UintType(..) inside UintType methods
        tr.wrap_fn = {"IntType": "int64", "UintType": "uint64"}
        body = tr.block(fn.body, "    ")
        lname = d.strip("_")
        sig = " ".join(f"({p} : Int)" for p in params)
        inner = f"(do\n" + "\n".join(body) + ")"
        for dn in reversed(decs):
            if dn not in ("int64", "uint64"):
                raise TranslationError(f"{clsname}.{d}: decorator {dn}")
            inner = f"({inner} >>= {dn})"
        out.append(f"def {lname} {sig} : PyM Int :=\n  {inner}\n")
    out.append(f"/-- class-level aliases found in the source -/\ndef aliases : List (String × String) := {lean_list([f'({lean_str(k)}, {lean_str(v)})' for k, v in sorted(aliases.items())])}")
    out.append(f"end {ns}")
    return "\n".join(out) + "\n"


def lean_str(s: str) -> str:
    out = ['"']
    for ch in s:
        o = ord(ch)
        if ch == '"':
            out.append('\\"')
        elif ch == "\\":
            out.append("\\\\")
        elif ch == "\n":
            out.append("\\n")
        elif ch == "\t":
            out.append("\\t")
        elif ch == "\r":
            out.append("\\r")
        elif o < 32 or o == 127:
            out.append("\\x%02x" % o)
        elif o > 126:
            out.append("\\u{%x}" % o)
        else:
            out.append(ch)
    out.append('"')
    return "".join(out)


def lean_list(items: List[str]) -> str:
    return "[" + ", ".join(items) + "]"


# ---------------------------------------------------------------------------
# logic dialect: logical_and / logical_or / logical_not / logical_condition
# ---------------------------------------------------------------------------

class LogicTr:
    """Values are outcome classes O (t | f | e | v).  isinstance(x, BoolType) ↦ x.isBool,
    truthiness of a value known to be BoolType ↦ x = .t, isinstance(x, Exception) ↦ x = .e.
    "Known to be BoolType" is decided by enumerating the isinstance-atoms over the
    path condition (so the final `else` of a 4-way ladder knows both operands are bool)."""

    def __init__(self, params, mod: Optional[ast.Module] = None):
        self.params = params
        self.mod = mod

    # --- normalisation (behaviour-preserving rewrites the translator follows) --------------
    # * a local bound once to a pure test (`x_is_bool = isinstance(x, BoolType)`, and/or/not of such) or to a
    #   message string is substituted into the statements after it;
    # * a call of a module-level helper whose body is a single `return <expr>` is inlined (one level).
    @staticmethod
    def _is_pure_test(e) -> bool:
        if isinstance(e, ast.Call) and isinstance(e.func, ast.Name) and e.func.id == "isinstance":
            return isinstance(e.args[0], ast.Name)
        if isinstance(e, ast.UnaryOp) and isinstance(e.op, ast.Not):
            return LogicTr._is_pure_test(e.operand)
        if isinstance(e, ast.BoolOp):
            return all(LogicTr._is_pure_test(v) for v in e.values)
        return False

    @staticmethod
    def _is_message(e) -> bool:
        if isinstance(e, ast.JoinedStr) or (isinstance(e, ast.Constant) and isinstance(e.value, str)):
            return True
        if (isinstance(e, ast.Call) and isinstance(e.func, ast.Attribute) and e.func.attr == "format"
                and isinstance(e.func.value, ast.Constant) and isinstance(e.func.value.value, str)):
            return True
        if isinstance(e, ast.BinOp) and isinstance(e.op, ast.Mod) and isinstance(e.left, ast.Constant) and isinstance(e.left.value, str):
            return True
        return False

    @staticmethod
    def _assigned_names(stmts) -> set:
        out = set()
        for st in stmts:
            for n in ast.walk(st):
                if isinstance(n, ast.Name) and isinstance(n.ctx, (ast.Store, ast.Del)):
                    out.add(n.id)
                elif isinstance(n, (ast.FunctionDef, ast.Lambda, ast.ListComp, ast.SetComp, ast.DictComp, ast.GeneratorExp)):
                    raise TranslationError("nested scope in a logic function")
        return out

    @staticmethod
    def _subst(stmts, name: str, repl):
        import copy

        class R(ast.NodeTransformer):
            def visit_Name(self, n):
                if n.id == name and isinstance(n.ctx, ast.Load):
                    return copy.deepcopy(repl)
                return n
        return [R().visit(copy.deepcopy(st)) for st in stmts]

    def inline(self, e, depth: int = 0):
        """expand calls of single-`return` module-level helpers inside a test (one level)"""
        if self.mod is None:
            return e
        import copy
        tr = self

        class I(ast.NodeTransformer):
            def visit_Call(self, n):
                n = self.generic_visit(n)
                if isinstance(n.func, ast.Name) and n.func.id not in ("isinstance", "cast", "BoolType", "type", "bool") and not n.keywords:
                    try:
                        fn = find_func(tr.mod.body, n.func.id)
                    except TranslationError:
                        return n
                    body = strip_doc(fn.body)
                    ps = [a.arg for a in fn.args.args]
                    if (len(body) == 1 and isinstance(body[0], ast.Return) and body[0].value is not None
                            and len(ps) == len(n.args) and not fn.decorator_list
                            and not fn.args.vararg and not fn.args.kwarg and not fn.args.kwonlyargs
                            and all(isinstance(a, ast.Name) for a in n.args)):
                        m = dict(zip(ps, n.args))

                        class S(ast.NodeTransformer):
                            def visit_Name(self, x):
                                return copy.deepcopy(m[x.id]) if x.id in m else x
                        return S().visit(copy.deepcopy(body[0].value))
                return n
        return I().visit(copy.deepcopy(e))

    # --- path-condition reasoning -------------------------------------------------
    @staticmethod
    def _atom(e):
        if (isinstance(e, ast.Call) and isinstance(e.func, ast.Name) and e.func.id == "isinstance"
                and isinstance(e.args[0], ast.Name) and ast.unparse(e.args[1]) == "BoolType"):
            return e.args[0].id
        return None

    def _ev(self, e, asg):
        a = self._atom(e)
        if a is not None:
            return asg.get(a)
        if isinstance(e, ast.UnaryOp) and isinstance(e.op, ast.Not):
            v = self._ev(e.operand, asg)
            return None if v is None else (not v)
        if isinstance(e, ast.BoolOp):
            vs = [self._ev(v, asg) for v in e.values]
            if isinstance(e.op, ast.And):
                if any(v is False for v in vs):
                    return False
                return None if any(v is None for v in vs) else True
            if any(v is True for v in vs):
                return True
            return None if any(v is None for v in vs) else False
        return None

    def known(self, path) -> set:
        import itertools
        names = list(self.params)
        poss = []
        for bits in itertools.product([True, False], repeat=len(names)):
            asg = dict(zip(names, bits))
            ok = True
            for (t, pol) in path:
                v = self._ev(t, asg)
                if v is not None and v != pol:
                    ok = False
                    break
            if ok:
                poss.append(asg)
        return {n for n in names if poss and all(a[n] for a in poss)}

    def cond(self, e, path) -> str:
        if isinstance(e, ast.BoolOp):
            j = " ∧ " if isinstance(e.op, ast.And) else " ∨ "
            # short-circuit: a later operand is only evaluated when the earlier ones were true (and) / false (or)
            parts, p2 = [], list(path)
            for v in e.values:
                parts.append(self.cond(v, p2))
                p2 = p2 + [(v, isinstance(e.op, ast.And))]
            return "(" + j.join(parts) + ")"
        if isinstance(e, ast.UnaryOp) and isinstance(e.op, ast.Not):
            return f"¬{self.cond(e.operand, path)}"
        if isinstance(e, ast.Call) and isinstance(e.func, ast.Name) and e.func.id == "isinstance":
            x = e.args[0]
            if not isinstance(x, ast.Name):
                raise TranslationError("isinstance on expression")
            tn = ast.unparse(e.args[1])
            if tn == "BoolType":
                return f"({x.id}.isBool = true)"
            if tn == "Exception":
                return f"({x.id} = O.e)"
            raise TranslationError(f"isinstance(_, {tn})")
        if isinstance(e, ast.Name):
            if e.id not in self.known(path):
                raise TranslationError(f"truthiness of {e.id} not known to be BoolType")
            return f"({e.id} = O.t)"
        raise TranslationError(f"logic cond {type(e).__name__}")

    def value(self, e, path) -> str:
        if isinstance(e, ast.Name):
            return e.id
        if isinstance(e, ast.Call) and isinstance(e.func, ast.Name) and e.func.id == "cast":
            return self.value(e.args[1], path)
        if isinstance(e, ast.Call) and isinstance(e.func, ast.Name) and e.func.id == "BoolType" and len(e.args) == 1:
            return f"(O.ofBool {self.boolexpr(e.args[0], path)})"
        if isinstance(e, ast.IfExp):
            test = self.inline(e.test)
            return (f"(if {self.cond(test, path)} then {self.value(e.body, path + [(test, True)])} "
                    f"else {self.value(e.orelse, path + [(test, False)])})")
        if isinstance(e, ast.BoolOp) and len(e.values) == 2 and isinstance(e.values[0], ast.Name):
            # Python's `x and y` / `x or y` hand back an OPERAND: x decides by its truthiness (x must be a known BoolType)
            x = e.values[0]
            c = self.cond(x, path)
            if isinstance(e.op, ast.And):
                return f"(if {c} then {self.value(e.values[1], path)} else {x.id})"
            return f"(if {c} then {x.id} else {self.value(e.values[1], path)})"
        raise TranslationError(f"logic value {ast.unparse(e)[:40]}")

    def boolexpr(self, e, path) -> str:
        if isinstance(e, ast.Call) and isinstance(e.func, ast.Name) and e.func.id == "cast":
            return self.boolexpr(e.args[1], path)
        if isinstance(e, ast.Name):
            if e.id not in self.known(path):
                raise TranslationError(f"bool value of {e.id} not known to be BoolType")
            return f"({e.id}.toBool)"
        if isinstance(e, ast.BoolOp):
            j = " && " if isinstance(e.op, ast.And) else " || "
            return "(" + j.join(self.boolexpr(v, path) for v in e.values) + ")"
        if isinstance(e, ast.UnaryOp) and isinstance(e.op, ast.Not):
            return f"(!{self.boolexpr(e.operand, path)})"
        if isinstance(e, ast.Constant) and isinstance(e.value, bool):
            return "true" if e.value else "false"
        raise TranslationError(f"logic boolexpr {ast.unparse(e)[:40]}")

    def block(self, stmts, indent: str, path) -> List[str]:
        stmts = [s for s in strip_doc(stmts) if not is_logger_call(s)]
        out: List[str] = []
        for i, st in enumerate(stmts):
            if isinstance(st, ast.Return):
                out.append(f"{indent}.ok {self.value(st.value, path)}")
                return out
            if isinstance(st, ast.Raise):
                out.append(f"{indent}.error {IntTr.exc(st)}")
                return out
            if (isinstance(st, ast.Assign) and len(st.targets) == 1 and isinstance(st.targets[0], ast.Tuple)
                    and isinstance(st.value, ast.Tuple) and len(st.targets[0].elts) == len(st.value.elts)
                    and all(isinstance(t, ast.Name) for t in st.targets[0].elts)):
                # `a, b = e1, e2` with no target occurring in a right-hand side = two assignments in sequence
                tg = {t.id for t in st.targets[0].elts}
                if len(tg) == len(st.value.elts) and not any(isinstance(n, ast.Name) and n.id in tg for v in st.value.elts for n in ast.walk(v)):
                    seq = [ast.copy_location(ast.Assign(targets=[t], value=v), st) for t, v in zip(st.targets[0].elts, st.value.elts)]
                    return out + self.block(seq + list(stmts[i + 1:]), indent, path)
            if isinstance(st, ast.AnnAssign) and st.value is None and isinstance(st.target, ast.Name) and st.simple:
                # a bare declaration `name: T` of a local inside a function: the annotation is not evaluated and nothing
                # is bound (a read before an assignment yields an unknown identifier in the generated Lean, i.e. a broken
                # build, not a silent pass) -- a parameter must not be re-declared
                if st.target.id in self.params:
                    raise TranslationError(f"parameter {st.target.id} is re-declared")
                continue
            if isinstance(st, ast.AnnAssign) and st.value is not None and isinstance(st.target, ast.Name):
                st = ast.copy_location(ast.Assign(targets=[st.target], value=st.value), st)
            if (isinstance(st, ast.Assign) and len(st.targets) == 1 and isinstance(st.targets[0], ast.Name)
                    and (self._is_pure_test(self.inline(st.value)) or self._is_message(st.value))):
                name = st.targets[0].id
                val = self.inline(st.value) if not self._is_message(st.value) else st.value
                later = self._assigned_names(stmts[i + 1:])
                free = {n.id for n in ast.walk(val) if isinstance(n, ast.Name)}
                if name in self.params or name in later or (free & later) or name in free:
                    raise TranslationError(f"local {name} is rebound (or its operands are) after its definition")
                return out + self.block(self._subst(stmts[i + 1:], name, val), indent, path)
            if isinstance(st, ast.Assign) and len(st.targets) == 1 and isinstance(st.targets[0], ast.Name):
                if st.targets[0].id in self.params:
                    raise TranslationError(f"parameter {st.targets[0].id} is rebound")
                v = self.value(st.value, path)
                rest = self.block(stmts[i + 1:], indent, path)
                out.append(f"{indent}let {st.targets[0].id} := {v}")
                return out + rest
            if isinstance(st, ast.If):
                test = self.inline(st.test)
                c = self.cond(test, path)
                pt = path + [(test, True)]
                pf = path + [(test, False)]
                rest = stmts[i + 1:]
                thn_src = list(st.body) if IntTr.terminates(st.body) else list(st.body) + rest
                if st.orelse and IntTr.terminates(st.orelse):
                    els_src = list(st.orelse)
                else:
                    els_src = list(st.orelse) + rest
                thn = self.block(thn_src, indent + "  ", pt)
                els = self.block(els_src, indent + "  ", pf)
                out.append(f"{indent}if {c} then")
                out += thn
                out.append(f"{indent}else")
                out += els
                return out
            raise TranslationError(f"logic statement {type(st).__name__}")
        raise TranslationError("logic block without return")


def translate_logic_fn(mod: ast.Module, name: str, lname: str) -> str:
    fn = find_func(mod.body, name)
    params = [a.arg for a in fn.args.args]
    if fn.args.vararg or fn.args.kwarg or fn.args.kwonlyargs or fn.args.defaults or fn.decorator_list:
        raise TranslationError(f"{name}: signature/decorators outside the subset")
    tr = LogicTr(params, mod)
    body = tr.block(fn.body, "  ", [])
    sig = " ".join(f"({p} : O)" for p in params)
    return f"def {lname} {sig} : PyM O :=\n" + "\n".join(body) + "\n"
