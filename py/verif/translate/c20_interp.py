"""A small concrete interpreter for the CLI driver functions of `celpy.__main__` (C20).

`gen_c20.py` does not look for statements of a particular shape any more.  It *runs* `process_json_doc` and `main`
(their current source text) in this interpreter on every scenario of a finite abstract input space — the options that matter,
the class of the evaluation result (a true / false `BoolType`, another truthy / falsy value, `CELEvalError`), malformed JSON,
`CELParseError` — and records the trace of observable effects (bind, evaluate, display of the value / of `None`, calls of
`process_json_doc`) and the returned status.  The tables are emitted as Lean data and `Cel.Bridge.Cli` proves them equal to the
tables computed from the model (`Cel.Cli.processJsonDoc`, `nullInput`, `main`) by `decide`.  Control-flow rewrites that keep the
behaviour (early return vs. else chain, conditional expression vs. if/else, split / merged isinstance tests, renamed or hoisted
locals, reordered `except` clauses, inverted conditions, helper functions extracted at module level, a call through
`functools.partial`) give the same tables; a
rewrite that changes a status, drops or adds a display, or reorders effects gives different ones.

The NDJSON loop is not unrolled: the loop body is run once for every (carried status, document status) pair with every other
name assigned in the body unset (so the carried state is exactly the one status variable — a body reading anything else that
it carries over is rejected), which determines the fold for streams of every length.

Anything the interpreter cannot evaluate becomes `Opaque`; an `Opaque` (or a symbol of unknown truth value) reaching a decision,
a status, a display or a statement-level call that is not known to be silent is a TranslationError: the rewrite is flagged, not
ignored.
"""
from __future__ import annotations
import ast
from typing import Any, Callable, Dict, List, Optional, Tuple
from .py2lean import TranslationError


class Opaque:
    def __init__(self, why: str = ""):
        self.why = why

    def __repr__(self):
        return f"Opaque({self.why})"


class Sym:
    """a named external object (`sys.stdin`, `celtypes.BoolType`, the `prgm` object, a document line …)"""
    def __init__(self, name: str):
        self.name = name

    def __repr__(self):
        return f"Sym({self.name})"

    def __eq__(self, o):
        return isinstance(o, Sym) and o.name == self.name

    def __hash__(self):
        return hash(("Sym", self.name))


class Res:
    """the value `prgm.evaluate` returned: cls in celTrue, celFalse, otherT, otherF"""
    def __init__(self, cls: str):
        self.cls = cls

    def __repr__(self):
        return f"Res({self.cls})"


class JsonText:
    """`json.dumps(x, cls=CELJSONEncoder)`; variant != '' when other keyword arguments were given"""
    def __init__(self, of: Any, variant: str):
        self.of, self.variant = of, variant


class Func:
    def __init__(self, node: ast.FunctionDef, env: Optional[Dict[str, Any]]):
        self.node, self.env = node, env


class Partial:
    """`functools.partial(f, *args, **kw)`: calling it calls `f(*args, *more, **{**kw, **more_kw})` (arguments were evaluated when it was built)"""
    def __init__(self, f: Any, args: List[Any], kw: Dict[str, Any]):
        self.f, self.args, self.kw = f, list(args), dict(kw)

    def __repr__(self):
        return f"Partial({self.f!r}, {len(self.args)} args, {sorted(self.kw)})"


def partial_names(module: ast.Module) -> set:
    """the dotted names under which this module can reach `functools.partial` (module-level imports only)"""
    out = set()
    for st in module.body:
        if isinstance(st, ast.Import):
            for a in st.names:
                if a.name == "functools":
                    out.add((a.asname or "functools") + ".partial")
        if isinstance(st, ast.ImportFrom) and st.module == "functools" and not st.level:
            for a in st.names:
                if a.name == "partial":
                    out.add(a.asname or "partial")
    return out


class PyRaise(Exception):
    def __init__(self, cls: str):
        self.cls = cls


class PyReturn(Exception):
    def __init__(self, value: Any):
        self.value = value


MRO = {
    "CELEvalError": ["CELEvalError", "Exception", "BaseException"],
    "CELParseError": ["CELParseError", "Exception", "BaseException"],
    "JSONDecodeError": ["JSONDecodeError", "ValueError", "Exception", "BaseException"],
}
KNOWN_HANDLER_CLASSES = {"CELEvalError", "CELParseError", "JSONDecodeError", "ValueError", "Exception", "BaseException", "KeyError", "TypeError",
                         "AttributeError", "OSError", "IOError", "KeyboardInterrupt", "CELSyntaxError", "CELUnsupportedError", "IndexError",
                         "RuntimeError", "OverflowError", "ZeroDivisionError", "EOFError", "SystemExit", "UnicodeDecodeError", "RecursionError"}
NOT_INLINED = {"get_options", "stat", "arg_type_value"}


def local_names(fn: ast.FunctionDef) -> set:
    """names assigned in the function's own scope (not inside comprehensions / lambdas / nested defs)"""
    out = {a.arg for a in fn.args.args}

    def walk(n):
        for c in ast.iter_child_nodes(n):
            if isinstance(c, (ast.ListComp, ast.SetComp, ast.DictComp, ast.GeneratorExp, ast.Lambda)):
                continue
            if isinstance(c, (ast.FunctionDef, ast.AsyncFunctionDef, ast.ClassDef)):
                out.add(c.name)
                continue
            if isinstance(c, ast.Name) and isinstance(c.ctx, ast.Store):
                out.add(c.id)
            if isinstance(c, ast.ExceptHandler) and c.name:
                out.add(c.name)
            walk(c)
    walk(fn)
    return out


CONCRETE = (int, bool, str, type(None), tuple)


def last(name: str) -> str:
    return name.split(".")[-1]


class Interp:
    def __init__(self, module: ast.Module, scenario: Dict[str, Any]):
        self.module = module
        self.sc = scenario
        self.trace: List[str] = []
        self.depth = 0
        self.loop: Optional[Dict[str, Any]] = None          # filled by the stdin loop
        self.funcs = {n.name: n for n in module.body if isinstance(n, ast.FunctionDef)}
        self.partial_names = partial_names(module)

    # ---- values ------------------------------------------------------------------------------------
    def truth(self, v: Any, what: str) -> bool:
        if isinstance(v, Res):
            return v.cls in ("celTrue", "otherT")
        if isinstance(v, CONCRETE):
            return bool(v)
        if isinstance(v, (Func, Partial)):
            return True
        raise TranslationError(f"decision on a value the interpreter cannot determine ({what}: {v!r})")

    def describe(self, v: Any) -> str:
        if isinstance(v, Res):
            return "value"
        if v is None:
            return "null"
        if isinstance(v, Sym):
            return v.name
        if isinstance(v, bool):
            return "True" if v else "False"
        if isinstance(v, (int, str)):
            return str(v)
        return "?"

    # ---- expressions -------------------------------------------------------------------------------
    def lookup(self, name: str, env: Dict[str, Any]) -> Any:
        if name in env:
            return env[name]
        if name in env.get("__locals__", ()):
            raise TranslationError(f"local name {name!r} read before it is assigned (in the interpreted fragment)")
        if name in self.funcs and name not in NOT_INLINED:
            return Func(self.funcs[name], None)
        return Sym(name)                                  # a module-level / builtin object

    def ev(self, e: ast.AST, env: Dict[str, Any]) -> Any:
        if isinstance(e, ast.Constant):
            return e.value if isinstance(e.value, CONCRETE) else Opaque("constant")
        if isinstance(e, ast.Name):
            return self.lookup(e.id, env)
        if isinstance(e, ast.Attribute):
            base = self.ev(e.value, env)
            if isinstance(base, Sym):
                if base.name == "options":
                    if e.attr not in self.sc["options"]:
                        raise TranslationError(f"options.{e.attr}: option outside the scenario space")
                    return self.sc["options"][e.attr]
                return Sym(base.name + "." + e.attr)
            return Opaque("attribute of " + repr(base))
        if isinstance(e, (ast.Tuple, ast.List)):
            return tuple(self.ev(x, env) for x in e.elts)
        if isinstance(e, ast.BoolOp):
            v: Any = None
            for x in e.values:
                v = self.ev(x, env)
                t = self.truth(v, ast.unparse(e))
                if isinstance(e.op, ast.And) and not t:
                    return v
                if isinstance(e.op, ast.Or) and t:
                    return v
            return v
        if isinstance(e, ast.UnaryOp):
            v = self.ev(e.operand, env)
            if isinstance(e.op, ast.Not):
                return not self.truth(v, ast.unparse(e))
            if isinstance(e.op, ast.USub) and type(v) is int:
                return -v
            return Opaque("unary")
        if isinstance(e, ast.IfExp):
            return self.ev(e.body if self.truth(self.ev(e.test, env), ast.unparse(e.test)) else e.orelse, env)
        if isinstance(e, ast.Compare):
            left = self.ev(e.left, env)
            for op, r in zip(e.ops, e.comparators):
                right = self.ev(r, env)
                ok = self.compare(op, left, right, ast.unparse(e))
                if isinstance(ok, Opaque):
                    return ok
                if not ok:
                    return False
                left = right
            return True
        if isinstance(e, ast.BinOp):
            a, b = self.ev(e.left, env), self.ev(e.right, env)
            if type(a) is int and type(b) is int:
                if isinstance(e.op, ast.Add):
                    return a + b
                if isinstance(e.op, ast.Sub):
                    return a - b
                if isinstance(e.op, ast.Mult):
                    return a * b
            if isinstance(a, (int, bool)) and isinstance(b, (int, bool)) and isinstance(e.op, (ast.BitOr, ast.BitAnd)):
                return (a | b) if isinstance(e.op, ast.BitOr) else (a & b)
            return Opaque("binop")
        if isinstance(e, ast.NamedExpr):
            v = self.ev(e.value, env)
            env[e.target.id] = v
            return v
        if isinstance(e, ast.Call):
            return self.call(e, env, as_stmt=False)
        # comprehensions, dict displays, f-strings, subscripts, lambdas …: not evaluated
        return Opaque(type(e).__name__)

    def compare(self, op, a, b, what):
        conc = lambda x: isinstance(x, CONCRETE)
        if isinstance(op, (ast.Is, ast.IsNot)):
            if conc(a) and conc(b) and (a is None or b is None or isinstance(a, bool) or isinstance(b, bool)):
                r = a is b
            elif (a is None and isinstance(b, (Res, Sym, Func))) or (b is None and isinstance(a, (Res, Sym, Func))):
                r = False
            else:
                return Opaque("is")
            return r if isinstance(op, ast.Is) else not r
        if isinstance(a, Res) or isinstance(b, Res):
            # `result_value == True` and the like: BoolType compares like the bool; other values: not determined
            other, res = (b, a) if isinstance(a, Res) else (a, b)
            if res.cls in ("celTrue", "celFalse") and isinstance(other, (bool, int)) and isinstance(op, (ast.Eq, ast.NotEq)):
                r = (res.cls == "celTrue") == bool(other) if other in (0, 1) else False
                return r if isinstance(op, ast.Eq) else not r
            raise TranslationError(f"comparison with the result value not determined: {what}")
        if not (conc(a) and conc(b)):
            return Opaque("compare")
        try:
            if isinstance(op, ast.Eq):
                return a == b
            if isinstance(op, ast.NotEq):
                return a != b
            if isinstance(op, ast.Lt):
                return a < b
            if isinstance(op, ast.LtE):
                return a <= b
            if isinstance(op, ast.Gt):
                return a > b
            if isinstance(op, ast.GtE):
                return a >= b
            if isinstance(op, ast.In):
                return a in b
            if isinstance(op, ast.NotIn):
                return a not in b
        except TypeError:
            pass
        return Opaque("compare")

    # ---- calls ---------------------------------------------------------------------------------------
    def isinstance_(self, x: Any, t: Any, what: str) -> Any:
        if not isinstance(x, Res):
            if x is None:
                return False
            return Opaque("isinstance")
        ts = t if isinstance(t, tuple) else (t,)
        hit = False
        for c in ts:
            if not isinstance(c, Sym):
                raise TranslationError(f"isinstance against {c!r}: {what}")
            n = last(c.name)
            if n == "BoolType":
                hit = hit or x.cls in ("celTrue", "celFalse")
            elif n == "bool":
                pass                                      # a BoolType is not a `bool`; no native bool comes out of the interpreter runner
            else:
                raise TranslationError(f"isinstance of the result against {c.name}: not determined by the result classes ({what})")
        return hit

    def max_over_lines(self, node: ast.Call, env: Dict[str, Any]) -> Any:
        """`max(<elt> for document in sys.stdin, default=k)` / the same with a list comprehension: the document loop as a fold"""
        comp = node.args[0]
        kws = {k.arg: k.value for k in node.keywords}
        if len(comp.generators) != 1 or comp.generators[0].ifs or comp.generators[0].is_async or set(kws) != {"default"}:
            raise TranslationError(f"max over a comprehension outside the subset: {ast.unparse(node)[:80]}")
        g = comp.generators[0]
        it = self.ev(g.iter, env)
        init = self.ev(kws["default"], env)
        if not isinstance(g.target, ast.Name) or type(init) is not int or not self.sc.get("in_main") or self.loop is not None:
            raise TranslationError(f"max over a comprehension outside the subset: {ast.unparse(node)[:80]}")
        source = "sys.stdin" if it == Sym("sys.stdin") else "other: " + ast.unparse(g.iter)
        steps = []
        for s in range(4):
            for d in range(4):
                sub = Interp(self.module, dict(self.sc, doc_status=d))
                e2 = {k: (set(v) if k == "__locals__" else v) for k, v in env.items()}
                e2[g.target.id] = Sym("line")
                v = sub.ev(comp.elt, e2)
                if type(v) is not int:
                    raise TranslationError("max over a comprehension: element is not a status")
                steps.append((s, d, sub.trace, max(s, v)))
        self.loop = {"source": source, "init": init, "steps": steps, "var": "max"}
        return Sym("LOOP")

    def call(self, node: ast.Call, env: Dict[str, Any], as_stmt: bool) -> Any:
        text = ast.unparse(node)
        f = self.ev(node.func, env)
        if f == Sym("max") and len(node.args) == 1 and isinstance(node.args[0], (ast.GeneratorExp, ast.ListComp)):
            return self.max_over_lines(node, env)
        if any(isinstance(a, ast.Starred) for a in node.args) or any(k.arg is None for k in node.keywords):
            args, kw = [Opaque("*")], {}
        else:
            args = [self.ev(a, env) for a in node.args]
            kw = {k.arg: self.ev(k.value, env) for k in node.keywords}
        return self.invoke(f, args, kw, text, as_stmt)

    def invoke(self, f: Any, args: List[Any], kw: Dict[str, Any], text: str, as_stmt: bool) -> Any:
        """call of the evaluated callable `f` on evaluated arguments"""
        if isinstance(f, Partial):
            # functools.partial: stored positionals first, call-time keywords override the stored ones
            if any(isinstance(a, Opaque) and a.why == "*" for a in f.args + list(args)):
                args2, kw2 = [Opaque("*")], {}
            else:
                args2, kw2 = f.args + list(args), dict(f.kw, **kw)
            return self.invoke(f.f, args2, kw2, text, as_stmt)
        # method calls on known objects
        if isinstance(f, Sym):
            n = f.name
            if n.startswith("logger.") or n.startswith("logging."):
                return Opaque("logging")
            if n in self.partial_names:
                if not args or not isinstance(args[0], (Func, Partial, Sym)):
                    return Opaque("partial of " + (repr(args[0]) if args else "nothing"))
                return Partial(args[0], args[1:], kw)
            if n == "isinstance" and len(args) == 2 and not kw:
                return self.isinstance_(args[0], args[1], text)
            if n in ("max", "min") and not kw and len(args) >= 2 and all(type(a) is int for a in args):
                return max(args) if n == "max" else min(args)
            if n == "bool" and len(args) == 1 and not kw:
                return self.truth(args[0], text)
            if n == "int" and len(args) == 1 and not kw and isinstance(args[0], (bool, int)):
                return int(args[0])
            if n == "cast" and len(args) == 2:
                return args[1]
            if n == "iter" and len(args) == 1 and args[0] == Sym("sys.stdin"):
                return Sym("sys.stdin")
            if n == "sys.stdin.readlines" and not args and not kw:
                return Sym("sys.stdin")
            if n == "sys.stdin.read" and not args and not kw:
                self.trace.append("read")
                return Sym("stdin.read()")
            if n == "get_options":
                return Sym("options")
            if n == "Environment":
                self.trace.append("env:package=" + self.describe(kw.get("package", args[0] if args else None)))
                return Sym("env")
            if n in ("env.compile", "env.program"):
                if self.sc.get("parse_error"):
                    raise PyRaise("CELParseError")
                return Sym("ast") if n == "env.compile" else Sym("prgm")
            if n == "prgm.evaluate":
                self.trace.append("eval")
                if len(args) != 1 or kw:
                    raise TranslationError("evaluate(): arguments")
                oc = self.sc["outcome"]
                if oc == "evalError":
                    raise PyRaise("CELEvalError")
                return Res(oc)
            if n == "json.loads":
                if len(args) == 1 and args[0] == Sym("document") and set(kw) == {"cls"} and kw["cls"] == Sym("CELJSONDecoder"):
                    if self.sc.get("malformed"):
                        raise PyRaise("JSONDecodeError")
                    return Sym("docvalue")
                raise TranslationError(f"json.loads call is not `json.loads(document, cls=CELJSONDecoder)`: {text}")
            if n == "json.dumps":
                if len(args) == 1:
                    extra = sorted(k for k in kw if k != "cls")
                    variant = ("" if kw.get("cls") == Sym("CELJSONEncoder") else "no-encoder") + ",".join(extra)
                    return JsonText(args[0], variant)
                return Opaque("json.dumps")
            if n == "print":
                if kw.get("file") == Sym("sys.stderr"):
                    return None
                if "file" in kw:
                    raise TranslationError(f"print to {kw['file']!r}")
                if len(args) == 1 and isinstance(args[0], JsonText) and not kw:
                    self.trace.append("display:" + self.describe(args[0].of) + (("[" + args[0].variant + "]") if args[0].variant else ""))
                else:
                    self.trace.append("print:stdout")
                return None
            if n == "display":                         # the parameter of process_json_doc
                if len(args) != 1 or kw:
                    raise TranslationError("display(): arguments")
                self.trace.append("display:" + self.describe(args[0]))
                return None
            if as_stmt:
                raise TranslationError(f"statement-level call the interpreter does not know to be silent: {text}")
            return Opaque("call " + n)
        if isinstance(f, Func):
            if f.node.name == "process_json_doc" and self.sc.get("in_main"):
                return self.doc_call(f.node, args, kw, text)
            return self.apply(f, args, kw, text)
        if as_stmt:
            raise TranslationError(f"statement-level call of an unknown object: {text}")
        return Opaque("call")

    def bind(self, fn: ast.FunctionDef, args: List[Any], kw: Dict[str, Any], env: Optional[Dict[str, Any]], what: str) -> Dict[str, Any]:
        a = fn.args
        if a.vararg or a.kwarg or a.posonlyargs or a.kwonlyargs:
            raise TranslationError(f"{fn.name}: signature outside the subset")
        names = [x.arg for x in a.args]
        if len(args) > len(names):
            raise TranslationError(f"{what}: too many arguments")
        out: Dict[str, Any] = {}
        for n, v in zip(names, args):
            out[n] = v
        for k, v in kw.items():
            if k not in names or k in out:
                raise TranslationError(f"{what}: keyword {k}")
            out[k] = v
        defaults = dict(zip(names[len(names) - len(a.defaults):], a.defaults))
        for n in names:
            if n not in out:
                if n not in defaults:
                    raise TranslationError(f"{what}: missing argument {n}")
                out[n] = self.ev(defaults[n], {})
        return out

    def apply(self, f: Func, args: List[Any], kw: Dict[str, Any], what: str) -> Any:
        if self.depth > 6:
            raise TranslationError("call depth")
        local = dict(f.env) if f.env is not None else {}
        local.update(self.bind(f.node, args, kw, f.env, what))
        local["__locals__"] = set(local.get("__locals__", ())) | local_names(f.node)
        self.depth += 1
        try:
            self.block(f.node.body, local)
        except PyReturn as r:
            return r.value
        finally:
            self.depth -= 1
        return None

    def doc_call(self, fn: ast.FunctionDef, args, kw, what) -> Any:
        """`process_json_doc(...)` called from main: recorded, not entered (it is interpreted on its own)"""
        b = self.bind(fn, args, kw, None, what)
        want = ["display", "prgm", "activation", "variable", "document", "boolean_to_status"]
        if sorted(b) != sorted(want):
            raise TranslationError("process_json_doc: parameter names changed")
        disp = b["display"]
        shows = "?"
        if isinstance(disp, Func):                      # what does the display function do with a value / with None?
            sub = Interp(self.module, dict(self.sc))
            sub.depth = self.depth
            sub.apply(disp, [Res("otherT")], {}, "display(value)")
            sub.apply(disp, [None], {}, "display(None)")
            shows = "+".join(sub.trace)
        prgm = self.describe(b["prgm"])
        bts = b["boolean_to_status"]
        self.trace.append(f"doc(display={shows},prgm={prgm},var={self.describe(b['variable'])},document={self.describe(b['document'])},"
                          f"b={self.describe(bts) if isinstance(bts, bool) else '?'})")
        return self.sc["doc_status"]

    # ---- statements -----------------------------------------------------------------------------------
    def block(self, stmts: List[ast.stmt], env: Dict[str, Any]) -> None:
        for st in stmts:
            self.stmt(st, env)

    def stmt(self, st: ast.stmt, env: Dict[str, Any]) -> None:
        if isinstance(st, ast.Expr):
            if isinstance(st.value, ast.Constant):
                return
            if isinstance(st.value, ast.Call):
                self.call(st.value, env, as_stmt=True)
                return
            raise TranslationError(f"expression statement: {ast.unparse(st)[:60]}")
        if isinstance(st, (ast.Assign, ast.AnnAssign)):
            if isinstance(st, ast.AnnAssign):
                if st.value is None:
                    return
                targets = [st.target]
            else:
                targets = st.targets
            v = self.ev(st.value, env)
            for t in targets:
                if isinstance(t, ast.Name):
                    env[t.id] = v
                elif isinstance(t, ast.Subscript):
                    obj, idx = self.ev(t.value, env), self.ev(t.slice, env)
                    if obj == Sym("activation"):
                        if idx == Sym("variable") and v == Sym("docvalue"):
                            self.trace.append("bind")
                        else:
                            raise TranslationError(f"assignment into the activation other than activation[variable] = <document>: {ast.unparse(st)[:80]}")
                    elif isinstance(obj, (Sym, Res)):
                        raise TranslationError(f"item assignment on {obj!r}")
                    # item assignment on a local dict (annotations["stat"] = …): no observable effect
                else:
                    raise TranslationError(f"assignment target: {ast.unparse(t)}")
            return
        if isinstance(st, ast.AugAssign):
            if isinstance(st.target, ast.Name):
                cur, v = self.lookup(st.target.id, env), self.ev(st.value, env)
                if type(cur) is int and type(v) is int and isinstance(st.op, (ast.Add, ast.Sub, ast.BitOr)):
                    env[st.target.id] = cur + v if isinstance(st.op, ast.Add) else (cur - v if isinstance(st.op, ast.Sub) else cur | v)
                    return
            raise TranslationError(f"augmented assignment: {ast.unparse(st)[:60]}")
        if isinstance(st, ast.If):
            self.block(st.body if self.truth(self.ev(st.test, env), ast.unparse(st.test)) else st.orelse, env)
            return
        if isinstance(st, ast.Return):
            raise PyReturn(self.ev(st.value, env) if st.value is not None else None)
        if isinstance(st, ast.Pass):
            return
        if isinstance(st, ast.FunctionDef):
            env[st.name] = Func(st, env)
            return
        if isinstance(st, ast.Raise):
            if st.exc is None:
                raise TranslationError("bare raise")
            n = last(ast.unparse(st.exc.func if isinstance(st.exc, ast.Call) else st.exc))
            raise PyRaise(n)
        if isinstance(st, ast.Try):
            self.try_(st, env)
            return
        if isinstance(st, ast.For):
            self.for_(st, env)
            return
        raise TranslationError(f"statement outside the subset: {type(st).__name__}")

    def try_(self, st: ast.Try, env: Dict[str, Any]) -> None:
        try:
            try:
                self.block(st.body, env)
            except PyRaise as ex:
                mro = MRO.get(ex.cls, [ex.cls, "Exception", "BaseException"])
                for h in st.handlers:
                    if h.type is None:
                        names = ["BaseException"]
                    elif isinstance(h.type, ast.Tuple):
                        names = [last(ast.unparse(x)) for x in h.type.elts]
                    else:
                        names = [last(ast.unparse(h.type))]
                    for n in names:
                        if n not in KNOWN_HANDLER_CLASSES:
                            raise TranslationError(f"except {n}: class unknown to the interpreter")
                    if any(n in mro for n in names):
                        if h.name:
                            env[h.name] = Sym("exception")
                        self.block(h.body, env)
                        break
                else:
                    raise
            else:
                self.block(st.orelse, env)
        finally:
            if st.finalbody:
                self.block(st.finalbody, env)

    def for_(self, st: ast.For, env: Dict[str, Any]) -> None:
        it = self.ev(st.iter, env)
        if st.orelse:
            raise TranslationError("for … else")
        if isinstance(it, tuple):
            for v in it:
                if isinstance(st.target, ast.Name):
                    env[st.target.id] = v
                else:
                    raise TranslationError("for target")
                self.block(st.body, env)
            return
        if not self.sc.get("in_main") or self.loop is not None:
            raise TranslationError(f"loop over {ast.unparse(st.iter)[:60]}")
        source = "sys.stdin" if it == Sym("sys.stdin") else "other: " + ast.unparse(st.iter)
        if not isinstance(st.target, ast.Name):
            raise TranslationError("for target")
        for n in ast.walk(st):
            if isinstance(n, (ast.Break, ast.Continue, ast.Return, ast.While, ast.Try, ast.With)) or (isinstance(n, ast.For) and n is not st):
                raise TranslationError(f"{type(n).__name__} inside the document loop")
        assigned = {n.id for b in st.body for n in ast.walk(b) if isinstance(n, ast.Name) and isinstance(n.ctx, ast.Store)} - {st.target.id}
        carried = sorted(n for n in assigned if n in env)
        if len(carried) != 1 or type(env[carried[0]]) is not int:
            raise TranslationError(f"document loop: the carried state is not one status variable (assigned: {sorted(assigned)}, live before the loop: {carried})")
        S = carried[0]
        steps: List[Tuple[int, int, List[str], int]] = []
        for s in range(4):
            for d in range(4):
                sub = Interp(self.module, dict(self.sc, doc_status=d))
                e2 = {k: (set(v) if k == "__locals__" else v) for k, v in env.items() if k not in assigned}
                e2[S] = s
                e2[st.target.id] = Sym("line")
                sub.block(st.body, e2)
                if type(e2[S]) is not int:
                    raise TranslationError("document loop: status is not an integer")
                steps.append((s, d, sub.trace, e2[S]))
        self.loop = {"source": source, "init": env[S], "steps": steps, "var": S}
        for n in assigned:
            env.pop(n, None)
        env.pop(st.target.id, None)
        env[S] = Sym("LOOP")


def run_function(module: ast.Module, name: str, params: Dict[str, Any], scenario: Dict[str, Any]) -> Dict[str, Any]:
    """run `name` on the scenario; returns {'trace', 'result', 'loop'}; result is an int, 'LOOP', or 'raise <Class>'"""
    it = Interp(module, scenario)
    fn = it.funcs.get(name)
    if fn is None:
        raise TranslationError(f"def {name} not found")
    names = [a.arg for a in fn.args.args]
    env: Dict[str, Any] = {"__locals__": local_names(fn)}
    for n in names:
        if n not in params:
            raise TranslationError(f"{name}: parameter {n} is new")
        env[n] = params[n]
    if sorted(names) != sorted(params):
        raise TranslationError(f"{name}: parameters changed: {names}")
    result: Any
    try:
        it.block(fn.body, env)
        result = None
    except PyReturn as r:
        result = r.value
    except PyRaise as ex:
        result = "raise " + ex.cls
    if isinstance(result, bool):
        result = int(result)
    if result == Sym("LOOP"):
        result = "LOOP"
    if not (type(result) is int or isinstance(result, str)):
        raise TranslationError(f"{name}: returns {result!r} on scenario {scenario.get('label')}")
    return {"trace": it.trace, "result": result, "loop": it.loop}
