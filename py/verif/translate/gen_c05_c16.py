"""Generator for Gen/Runtime.lean (C05, C16): what the *current* source does at the places where
object sharing decides history-independence and thread non-interference.

Read structurally (ast) from:
  Referent.clone              -> ClonePolicy   (does the copy clone `self.container` or copy the reference?)
  NameContainer.clone         -> every Referent of the copy must be a clone
  Activation.clone            -> identifiers cloned
  Transpiler.evaluate         -> per-call clone of the base activation iff bindings; NamespacePolicy of the `exec` namespace
  Evaluator.set_activation    -> clone + load_values
  InterpretedRunner.evaluate  -> a new Evaluator on a new Activation per call
  CELParser.__init__/parse    -> ParserPolicy  (one lark parser per tree class, used through the instance)

Anything that does not have one of the recognised shapes is a TranslationError (handled by the
check like a broken bridge: failing-input search on the real code).
"""
from __future__ import annotations
import ast
from .py2lean import TranslationError, find_func, find_class
from .common import parse, HEADER


def _u(n) -> str:
    return ast.unparse(n)


def _calls_clone_of(node, what: str) -> bool:
    """does the expression contain `<what>.clone()` or `deepcopy(<what>)`?"""
    for n in ast.walk(node):
        if isinstance(n, ast.Call):
            f = n.func
            if isinstance(f, ast.Attribute) and f.attr == "clone" and _u(f.value) == what and not n.args:
                return True
            if _u(f) in ("copy.deepcopy", "deepcopy") and n.args and _u(n.args[0]) == what:
                return True
    return False


def _assigns(fn, pred):
    """(target, value) of every simple assignment in the function whose target satisfies pred"""
    out = []
    for n in ast.walk(fn):
        if isinstance(n, ast.Assign):
            for t in n.targets:
                if pred(t):
                    out.append((t, n.value))
        elif isinstance(n, ast.AnnAssign) and n.value is not None and pred(n.target):
            out.append((n.target, n.value))
    return out


def _returned_name(fn) -> str:
    rets = [n for n in ast.walk(fn) if isinstance(n, ast.Return)]
    if len(rets) != 1 or not isinstance(rets[0].value, ast.Name):
        raise TranslationError(f"{fn.name}: expected a single `return <name>`")
    return rets[0].value.id


def clone_policy(ev) -> str:
    ref = find_class(ev, "Referent")
    fn = find_func(ref.body, "clone")
    new = _returned_name(fn)
    mk = _assigns(fn, lambda t: isinstance(t, ast.Name) and t.id == new)
    if len(mk) != 1 or not (isinstance(mk[0][1], ast.Call) and _u(mk[0][1].func) == "Referent"):
        raise TranslationError("Referent.clone: the copy is not built by Referent(...)")
    for attr in ("_value", "_value_set"):
        a = _assigns(fn, lambda t, attr=attr: isinstance(t, ast.Attribute) and t.attr == attr and _u(t.value) == new)
        if len(a) != 1 or _u(a[0][1]) != f"self.{attr}":
            raise TranslationError(f"Referent.clone: {new}.{attr} is not copied from self.{attr}")
    cont = _assigns(fn, lambda t: isinstance(t, ast.Attribute) and t.attr == "container" and _u(t.value) == new)
    if not cont:
        raise TranslationError("Referent.clone: container not copied")
    kinds = set()
    for _, v in cont:
        if _u(v) == "self.container":
            kinds.add("shallow")
        elif isinstance(v, ast.Constant) and v.value is None:
            continue
        elif _calls_clone_of(v, "self.container"):
            # `x.clone() if x is not None else None` and the like
            rest = [n for n in ast.walk(v) if isinstance(n, ast.Attribute) and _u(n) == "self.container"]
            kinds.add("deep")
        else:
            raise TranslationError(f"Referent.clone: unrecognised container copy `{_u(v)}`")
    if len(kinds) != 1:
        raise TranslationError(f"Referent.clone: mixed container copies {sorted(kinds)}")
    # NameContainer.clone: every entry cloned
    nc = find_class(ev, "NameContainer")
    fn = find_func(nc.body, "clone")
    new = _returned_name(fn)
    loops = [n for n in ast.walk(fn) if isinstance(n, ast.For)]
    ok = False
    if len(loops) == 1 and _u(loops[0].iter) == "self.items()" and isinstance(loops[0].target, ast.Tuple) \
            and len(loops[0].target.elts) == 2:
        k, v = (_u(e) for e in loops[0].target.elts)
        subs = _assigns(loops[0], lambda t: isinstance(t, ast.Subscript) and _u(t.value) == new and _u(t.slice) == k)
        ok = len(subs) == 1 and _calls_clone_of(subs[0][1], v) and _u(subs[0][1]) == f"{v}.clone()"
    else:
        # a comprehension-based rewrite: {k: v.clone() for k, v in self.items()}
        comps = [n for n in ast.walk(fn) if isinstance(n, ast.DictComp)]
        if len(comps) == 1 and len(comps[0].generators) == 1 and _u(comps[0].generators[0].iter) == "self.items()":
            tgt = comps[0].generators[0].target
            if isinstance(tgt, ast.Tuple) and len(tgt.elts) == 2:
                k, v = (_u(e) for e in tgt.elts)
                ok = _u(comps[0].key) == k and _u(comps[0].value) == f"{v}.clone()"
    if not ok:
        raise TranslationError("NameContainer.clone: entries are not copied by `new[k] = v.clone()` for every item")
    # Activation.clone
    act = find_class(ev, "Activation")
    fn = find_func(act.body, "clone")
    new = _returned_name(fn)
    ids = _assigns(fn, lambda t: isinstance(t, ast.Attribute) and t.attr == "identifiers" and _u(t.value) == new)
    if len(ids) != 1 or _u(ids[0][1]) != "self.identifiers.clone()":
        raise TranslationError("Activation.clone: identifiers are not cloned")
    return kinds.pop()


def _check_clone_then_load(fn, ctxname: str, where: str):
    """`self.activation = self.base_activation.clone(); self.activation.identifiers.load_values(ctx)`"""
    a = _assigns(fn, lambda t: _u(t) == "self.activation")
    vals = sorted(_u(v) for _, v in a)
    calls = [_u(n) for n in ast.walk(fn) if isinstance(n, ast.Call)]
    if f"self.activation.identifiers.load_values({ctxname})" not in calls:
        raise TranslationError(f"{where}: bindings are not loaded into self.activation.identifiers")
    return vals


def namespace_policy(ev) -> str:
    tp = find_class(ev, "Transpiler")
    fn = find_func(tp.body, "evaluate")
    ctx = fn.args.args[1].arg
    vals = _check_clone_then_load(fn, ctx, "Transpiler.evaluate")
    if vals != ["self.base_activation", "self.base_activation.clone()"]:
        raise TranslationError(f"Transpiler.evaluate: unexpected activation set-up {vals}")
    # the load must be in the same branch as the clone, guarded by `if <ctx>:`
    ifs = [n for n in fn.body if isinstance(n, ast.If) and _u(n.test) == ctx]
    if len(ifs) != 1:
        raise TranslationError("Transpiler.evaluate: expected `if context:` around clone/load")
    body = [_u(s) for s in ifs[0].body]
    if "self.activation = self.base_activation.clone()" not in body or \
            f"self.activation.identifiers.load_values({ctx})" not in body or \
            body.index("self.activation = self.base_activation.clone()") > body.index(f"self.activation.identifiers.load_values({ctx})"):
        raise TranslationError("Transpiler.evaluate: clone must precede load_values inside `if context:`")
    if [_u(s) for s in ifs[0].orelse if not isinstance(s, ast.Expr)] != ["self.activation = self.base_activation"]:
        raise TranslationError("Transpiler.evaluate: else-branch is not `self.activation = self.base_activation`")
    execs = [n for n in ast.walk(fn) if isinstance(n, ast.Call) and _u(n.func) == "exec"]
    if len(execs) != 1 or len(execs[0].args) != 2 or not isinstance(execs[0].args[1], ast.Name):
        raise TranslationError("Transpiler.evaluate: expected exactly one exec(code, <namespace name>)")
    ns = execs[0].args[1].id
    src = _assigns(fn, lambda t: isinstance(t, ast.Name) and t.id == ns)
    if len(src) != 1:
        raise TranslationError("Transpiler.evaluate: the exec namespace is assigned more than once")
    v = src[0][1]
    module_globals = ("celpy.evaluation.result.__globals__", "globals()", "result.__globals__")
    # a local alias of the module namespace (`m = result.__globals__; ns = m.copy()`): a name bound exactly once, to one of the
    # module-globals expressions, and used exactly once (as the source of the exec namespace -- any other use could write the module
    # namespace itself) is followed; `ns = m` without a copy then still reads as `shared`.
    for an in {n.id for n in ast.walk(v) if isinstance(n, ast.Name) and isinstance(n.ctx, ast.Load)}:
        bound = _assigns(fn, lambda t, an=an: isinstance(t, ast.Name) and t.id == an)
        if len(bound) == 1 and _u(bound[0][1]) in module_globals:
            uses = [n for n in ast.walk(fn) if isinstance(n, ast.Name) and n.id == an]
            other_binders = [n for n in ast.walk(fn) if isinstance(n, (ast.AugAssign, ast.For, ast.NamedExpr, ast.With, ast.Delete,
                                                                     ast.ExceptHandler, ast.Global, ast.Nonlocal, ast.comprehension))
                             and (an in [x.id for x in ast.walk(n) if isinstance(x, ast.Name) and not isinstance(x.ctx, ast.Load)]
                                  or getattr(n, "name", None) == an or an in getattr(n, "names", ()))]
            if len(uses) != 2 or other_binders or an in [a.arg for a in ast.walk(fn.args) if isinstance(a, ast.arg)]:
                raise TranslationError(f"Transpiler.evaluate: the alias `{an}` of the module namespace is used more than once")
            alias_text = _u(bound[0][1])

            class _Subst(ast.NodeTransformer):
                def visit_Name(self, node, an=an, alias_text=alias_text):
                    return ast.parse(alias_text, mode="eval").body if node.id == an else node
            v = ast.fix_missing_locations(_Subst().visit(ast.parse(_u(v), mode="eval").body))
    if _u(v) in module_globals:
        pol = "shared"
    elif isinstance(v, ast.Call) and _u(v.func) == "dict" and len(v.args) == 1 and _u(v.args[0]) in module_globals and not v.keywords:
        pol = "perCall"
    elif isinstance(v, ast.Call) and isinstance(v.func, ast.Attribute) and v.func.attr == "copy" and _u(v.func.value) in module_globals:
        pol = "perCall"
    elif isinstance(v, ast.Dict) and v.keys and v.keys[0] is None and _u(v.values[0]) in module_globals:
        pol = "perCall"
    else:
        raise TranslationError(f"Transpiler.evaluate: unrecognised exec namespace `{_u(v)}`")
    # the activation handed to the transpiled code, and the result picked up, go through that namespace
    sub = _assigns(fn, lambda t: isinstance(t, ast.Subscript) and _u(t.value) == ns)
    writes = [(_u(t.slice), _u(val)) for t, val in sub]
    # the method forms of the same single-key write: `ns.update(base_activation=x)`, `ns.update({'base_activation': x})`,
    # `ns.__setitem__('base_activation', x)`; every other method call on the namespace (pop, clear, setdefault, update with
    # anything else, ...) is not understood.
    for n in ast.walk(fn):
        if isinstance(n, ast.Call) and isinstance(n.func, ast.Attribute) and _u(n.func.value) == ns:
            m = n.func.attr
            if m == "update" and not n.args and n.keywords and all(k.arg is not None for k in n.keywords):
                writes += [(repr(k.arg), _u(k.value)) for k in n.keywords]
            elif m == "update" and len(n.args) == 1 and not n.keywords and isinstance(n.args[0], ast.Dict) \
                    and all(isinstance(k, ast.Constant) and isinstance(k.value, str) for k in n.args[0].keys):
                writes += [(repr(k.value), _u(val)) for k, val in zip(n.args[0].keys, n.args[0].values)]
            elif m == "__setitem__" and len(n.args) == 2 and not n.keywords:
                writes += [(_u(n.args[0]), _u(n.args[1]))]
            else:
                raise TranslationError(f"Transpiler.evaluate: unrecognised operation on the exec namespace `{_u(n)}`")
    if writes != [("'base_activation'", "self.activation")]:
        raise TranslationError("Transpiler.evaluate: base_activation is not passed through the exec namespace")
    # ... and that write happens before the exec (both statements of the function: the write in its own body)
    wr_stmt = [i for i, st in enumerate(fn.body) if isinstance(st, (ast.Assign, ast.AnnAssign, ast.Expr))
               and "base_activation" in _u(st) and any(_u(x) == ns for x in ast.walk(st))]
    ex_stmt = [i for i, st in enumerate(fn.body) if any(x is execs[0] for x in ast.walk(st))]
    if len(wr_stmt) != 1 or len(ex_stmt) != 1 or wr_stmt[0] >= ex_stmt[0]:
        raise TranslationError("Transpiler.evaluate: base_activation is not written to the exec namespace before exec")
    reads = [n for n in ast.walk(fn) if isinstance(n, ast.Subscript) and isinstance(n.ctx, ast.Load) and _u(n.value) == ns]
    if [_const_text(tp, ev, n.slice) for n in reads] != ["'CEL'"]:
        raise TranslationError("Transpiler.evaluate: the result is not read from the exec namespace")
    return pol


def _const_text(cls, module, node) -> str:
    """the text of a subscript key, following one level of named constant by meaning: `self.NAME` / `<Class>.NAME` /
    `type(self).NAME` / `self.__class__.NAME` where NAME is bound exactly once in the whole module -- in the body of `cls`, to a
    string literal -- and never assigned as an attribute anywhere (so no instance, subclass or later rebinding can change it);
    a module-level NAME bound once to a string literal and never declared `global` likewise."""
    name = None
    if isinstance(node, ast.Attribute) and _u(node.value) in ("self", cls.name, "type(self)", "self.__class__"):
        name, where = node.attr, cls.body
    elif isinstance(node, ast.Name):
        name, where = node.id, module.body
    if name is None:
        return _u(node)
    here = [(t, v) for st in where if isinstance(st, (ast.Assign, ast.AnnAssign)) and getattr(st, "value", None) is not None
            for t in (st.targets if isinstance(st, ast.Assign) else [st.target]) for v in [st.value]
            if isinstance(t, ast.Name) and t.id == name]
    stores = [n for n in ast.walk(module) if (isinstance(n, ast.Name) and n.id == name and not isinstance(n.ctx, ast.Load))
              or (isinstance(n, ast.Attribute) and n.attr == name and not isinstance(n.ctx, ast.Load))
              or (isinstance(n, (ast.Global, ast.Nonlocal)) and name in n.names)
              or (isinstance(n, (ast.FunctionDef, ast.AsyncFunctionDef, ast.ClassDef)) and n.name == name)
              or (isinstance(n, ast.arg) and n.arg == name and isinstance(node, ast.Name))
              or (isinstance(n, ast.alias) and (n.asname or n.name) == name)]
    dyn = [n for n in ast.walk(module) if isinstance(n, ast.Call) and _u(n.func) in ("setattr", "delattr")
           and any(isinstance(a, ast.Constant) and a.value == name for a in n.args)]
    if len(here) == 1 and len(stores) == 1 and stores[0] is here[0][0] and not dyn \
            and isinstance(here[0][1], ast.Constant) and isinstance(here[0][1].value, str):
        return repr(here[0][1].value)
    return _u(node)


def interpreted_fresh(ev, init) -> None:
    evcls = find_class(ev, "Evaluator")
    fn = find_func(evcls.body, "set_activation")
    ctx = fn.args.args[1].arg
    vals = _check_clone_then_load(fn, ctx, "Evaluator.set_activation")
    # top-level bindings: clone + load_values.  The evaluator of a macro's sub-expression (`local_scope`, set only by
    # `sub_evaluator`) may instead bind its variable in a nested activation, which writes no existing object either.
    nested = f"self.base_activation.nested_activation(vars={ctx})"
    if vals == ["self.base_activation.clone()", nested]:
        ifs = [n for n in fn.body if isinstance(n, ast.If) and _u(n.test) == "self.local_scope"]
        ok = len(ifs) == 1 and [_u(x) for x in ifs[0].body] == [f"self.activation = {nested}"] and \
            [_u(x) for x in ifs[0].orelse] == ["self.activation = self.base_activation.clone()",
                                               f"self.activation.identifiers.load_values({ctx})"]
        cls_default = [n for n in evcls.body if isinstance(n, ast.Assign) and _u(n.targets[0]) == "local_scope"]
        if not ok or len(cls_default) != 1 or _u(cls_default[0].value) != "False":
            raise TranslationError("Evaluator.set_activation: unrecognised local_scope branch")
    elif vals != ["self.base_activation.clone()"]:
        raise TranslationError(f"Evaluator.set_activation: unexpected activation set-up {vals}")
    ir = find_class(init, "InterpretedRunner")
    fn = find_func(ir.body, "evaluate")
    calls = [n for n in ast.walk(fn) if isinstance(n, ast.Call) and _u(n.func) == "Evaluator"]
    if len(calls) != 1:
        raise TranslationError("InterpretedRunner.evaluate: expected one Evaluator(...) per call")
    kw = {k.arg: _u(k.value) for k in calls[0].keywords}
    pos = [_u(a) for a in calls[0].args]
    if kw.get("activation", pos[1] if len(pos) > 1 else None) != "self.new_activation()":
        raise TranslationError("InterpretedRunner.evaluate: the Evaluator does not get a new activation per call")
    rn = find_class(init, "Runner")
    na = find_func(rn.body, "new_activation")
    acts = [n for n in ast.walk(na) if isinstance(n, ast.Call) and _u(n.func) == "Activation"]
    if len(acts) != 1:
        raise TranslationError("Runner.new_activation: expected one Activation(...)")


def _per_class_via_local(init, tc: str, local: str, lark_call) -> bool:
    """The per-class cache written with a single look-up (round 4, harmless2-G3-h2):

        local = <cache>.get(tc)                     # top level of __init__; no default (or None)
        if local is None:                           # top level, later, no else
            ...
            local = <cache>[tc] = Lark(..., tree_class=tc)      # or `<cache>[tc] = local` as a later statement of the body
        self.parser = local                         # top level, later

    `local` is stored nowhere else, nothing between the look-up and the test touches the cache or the local, and the function
    has no `return`: then self.parser is the entry of <cache> under `tc`, built with tree_class=tc when there was none —
    the meaning of the `tc not in <cache>` shape."""
    if not local.isidentifier() or any(isinstance(n, ast.Return) for n in ast.walk(init)):
        return False
    stores = [n for n in ast.walk(init) if isinstance(n, ast.Name) and n.id == local and isinstance(n.ctx, ast.Store)]
    if len(stores) != 2:
        return False
    body = init.body
    i_get = i_if = i_self = None
    cache = None
    for i, st in enumerate(body):
        if (i_get is None and isinstance(st, ast.Assign) and len(st.targets) == 1 and _u(st.targets[0]) == local
                and isinstance(st.value, ast.Call) and isinstance(st.value.func, ast.Attribute) and st.value.func.attr == "get"
                and not st.value.keywords and st.value.args and _u(st.value.args[0]) == tc
                and (len(st.value.args) == 1 or (len(st.value.args) == 2 and _u(st.value.args[1]) == "None"))):
            i_get, cache = i, _u(st.value.func.value)
        elif i_get is not None and i_if is None and isinstance(st, ast.If) and _u(st.test) == f"{local} is None" and not st.orelse:
            i_if = i
        elif i_if is not None and i_self is None and isinstance(st, ast.Assign) and [_u(t) for t in st.targets] == ["self.parser"] \
                and _u(st.value) == local:
            i_self = i
    if i_get is None or i_if is None or i_self is None:
        return False
    for st in body[i_get + 1:i_if]:
        names = {n.id for n in ast.walk(st) if isinstance(n, ast.Name)}
        if cache in _u(st) or local in names:
            return False
    key = f"{cache}[{tc}]"
    built = stored = False
    for st in body[i_if].body:
        if isinstance(st, ast.Assign) and st.value is lark_call:
            ts = [_u(t) for t in st.targets]
            if local not in ts or any(t not in (local, key) for t in ts):
                return False
            built = True
            stored = stored or key in ts
        elif built and isinstance(st, ast.Assign) and [_u(t) for t in st.targets] == [key] and _u(st.value) == local:
            stored = True
        elif built and (cache in _u(st) or local in {n.id for n in ast.walk(st) if isinstance(n, ast.Name)}):
            return False
    return built and stored


def parser_policy(cp) -> str:
    cls = find_class(cp, "CELParser")
    init = find_func(cls.body, "__init__")
    parse_fn = find_func(cls.body, "parse")
    tc = init.args.args[1].arg
    recv = [_u(n.func.value) for n in ast.walk(parse_fn)
            if isinstance(n, ast.Call) and isinstance(n.func, ast.Attribute) and n.func.attr == "parse"]
    if len(recv) != 1:
        raise TranslationError("CELParser.parse: expected one .parse(...) call")
    lark_targets = [_u(t) for t, v in _assigns(init, lambda t: True) if isinstance(v, ast.Call) and _u(v.func) == "Lark"]
    lark_calls = [v for _, v in _assigns(init, lambda t: True) if isinstance(v, ast.Call) and _u(v.func) == "Lark"]
    lark_calls = [v for i, v in enumerate(lark_calls) if all(v is not w for w in lark_calls[:i])]   # `a = b[k] = Lark(...)` is one call
    if len(lark_calls) != 1 or {k.arg: _u(k.value) for k in lark_calls[0].keywords}.get("tree_class") != tc:
        raise TranslationError("CELParser.__init__: expected one Lark(..., tree_class=<param>)")
    selfp = [_u(v) for _, v in _assigns(init, lambda t: _u(t) == "self.parser")]
    if recv == ["self.parser"] and len(selfp) == 1 and selfp[0].endswith(f"[{tc}]") and lark_targets == [selfp[0]]:
        # the cache test must be on the same key
        tests = [_u(n.test) for n in ast.walk(init) if isinstance(n, ast.If)]
        cache = selfp[0][: -len(f"[{tc}]")]
        if f"{tc} not in {cache}" not in tests:
            raise TranslationError("CELParser.__init__: the per-class cache is not tested by `tree_class not in <cache>`")
        return "perClass"
    if recv == ["self.parser"] and len(selfp) == 1 and _per_class_via_local(init, tc, selfp[0], lark_calls[0]):
        return "perClass"
    if recv == ["CELParser.CEL_PARSER"] and lark_targets == ["CELParser.CEL_PARSER"]:
        return "singleton"
    raise TranslationError(f"CELParser: unrecognised parser caching (parse via {recv}, Lark stored in {lark_targets})")


def resolve_skips_type_error(ev) -> bool:
    """NameContainer.resolve_name: which exceptions of `find_name` mean "not on this path, keep searching"?"""
    nc = find_class(ev, "NameContainer")
    fn = find_func(nc.body, "resolve_name")
    tries = [n for n in ast.walk(fn) if isinstance(n, ast.Try)]
    if len(tries) != 1:
        raise TranslationError("resolve_name: expected one try around find_name")
    t = tries[0]
    if not any(isinstance(n, ast.Call) and isinstance(n.func, ast.Attribute) and n.func.attr == "find_name" for n in ast.walk(t)):
        raise TranslationError("resolve_name: the try does not guard find_name")
    caught = []
    for h in t.handlers:
        names = [_u(e) for e in h.type.elts] if isinstance(h.type, ast.Tuple) else [_u(h.type)] if h.type is not None else ["BaseException"]
        if not all(isinstance(x, ast.Pass) or (isinstance(x, ast.Expr) and isinstance(x.value, ast.Constant)) for x in h.body):
            raise TranslationError("resolve_name: a handler around find_name does more than `pass`")
        caught += names
    if set(caught) == {"NameContainer.NotFound"}:
        return False
    if set(caught) == {"NameContainer.NotFound", "TypeError"}:
        return True
    raise TranslationError(f"resolve_name: unrecognised set of skipped exceptions {sorted(set(caught))}")


RUNNER_KIND = {"CompiledRunner": "C", "InterpretedRunner": "I", "celpy.CompiledRunner": "C", "celpy.InterpretedRunner": "I"}
LIMIT_SOURCES = ("src/celpy/__init__.py", "src/celpy/evaluation.py", "src/celpy/celparser.py", "src/celpy/celtypes.py",
                 "src/celpy/adapter.py", "src/celpy/c7nlib.py")


def _is_setrecursionlimit(n) -> bool:
    return isinstance(n, ast.Call) and _u(n.func) in ("sys.setrecursionlimit", "setrecursionlimit")


def _limit_value(call) -> int:
    if len(call.args) != 1 or call.keywords or not isinstance(call.args[0], ast.Constant) or not isinstance(call.args[0].value, int):
        raise TranslationError(f"setrecursionlimit: the limit is not an integer literal: `{_u(call)}`")
    return call.args[0].value


def _may_leave(stmt) -> bool:
    return any(isinstance(n, (ast.Return, ast.Raise)) for n in ast.walk(stmt))


def limit_policy(init=None) -> tuple:
    """When does the library set the process-wide recursion limit?  ("always", n): `Environment.__init__` calls
    `sys.setrecursionlimit(n)` as a statement of its own body that every successful construction reaches (any position;
    no return/raise before it); ("onlyKind", k, n): the call is guarded by a test of the runner class; ("never",): no call
    anywhere in the package.  A call anywhere else (another function, another module, module level) is not understood."""
    import os
    from .common import REPO as _REPO  # type: ignore
    init = init if init is not None else parse("src/celpy/__init__.py")
    env = find_class(init, "Environment")
    fn = find_func(env.body, "__init__")
    inside = [n for n in ast.walk(fn) if _is_setrecursionlimit(n)]
    total = 0
    for src in LIMIT_SOURCES:
        if os.path.exists(os.path.join(str(_REPO), src)):
            total += len([n for n in ast.walk(parse(src)) if _is_setrecursionlimit(n)])
    if total != len(inside):
        raise TranslationError("sys.setrecursionlimit is called outside Environment.__init__")
    if not inside:
        return ("never",)
    if len(inside) != 1:
        raise TranslationError("Environment.__init__: more than one sys.setrecursionlimit call")
    n = _limit_value(inside[0])
    for i, st in enumerate(fn.body):
        if isinstance(st, ast.Expr) and st.value is inside[0]:
            if any(_may_leave(x) for x in fn.body[:i]):
                raise TranslationError("Environment.__init__: a return/raise may precede sys.setrecursionlimit")
            return ("always", n)
        if isinstance(st, ast.If) and any(x is inside[0] for x in ast.walk(st)):
            if any(_may_leave(x) for x in fn.body[:i]):
                raise TranslationError("Environment.__init__: a return/raise may precede sys.setrecursionlimit")
            t = st.test
            in_body = len(st.body) == 1 and isinstance(st.body[0], ast.Expr) and st.body[0].value is inside[0]
            in_else = len(st.orelse) == 1 and isinstance(st.orelse[0], ast.Expr) and st.orelse[0].value is inside[0]
            if isinstance(t, ast.Compare) and len(t.ops) == 1 and _u(t.left) in ("self.runner_class", "runner_class") \
                    and _u(t.comparators[0]) in RUNNER_KIND and (in_body or in_else):
                k = RUNNER_KIND[_u(t.comparators[0])]
                positive = isinstance(t.ops[0], (ast.Is, ast.Eq))
                if not positive and not isinstance(t.ops[0], (ast.IsNot, ast.NotEq)):
                    raise TranslationError(f"Environment.__init__: unrecognised guard of sys.setrecursionlimit `{_u(t)}`")
                if positive != in_body:
                    k = "I" if k == "C" else "C"        # two runner classes: "not C" is "I" (the default runner is I)
                return ("onlyKind", k, n)
            raise TranslationError(f"Environment.__init__: unrecognised guard of sys.setrecursionlimit `{_u(t)}`")
    raise TranslationError("Environment.__init__: sys.setrecursionlimit is not a statement of the constructor's own body")


def limit_policy_lean(pol) -> str:
    if pol[0] == "never":
        return ".never"
    if pol[0] == "always":
        return f".always {pol[1]}"
    return f".onlyKind .{pol[1]} {pol[2]}"


def read_config(parts=("clone", "parser", "ns", "skipTE")) -> dict:
    ev = parse("src/celpy/evaluation.py")
    out = {}
    if "clone" in parts:
        init = parse("src/celpy/__init__.py")
        interpreted_fresh(ev, init)
        out["clone"] = clone_policy(ev)
    if "parser" in parts:
        out["parser"] = parser_policy(parse("src/celpy/celparser.py"))
    if "ns" in parts:
        out["ns"] = namespace_policy(ev)
    if "skipTE" in parts:
        out["skipTE"] = resolve_skips_type_error(ev)
    if "limit" in parts:
        out["limit"] = limit_policy()
    return out


def gen_runtime() -> str:
    """C05: object sharing between a program's construction-time activation and its per-call copies; parser cache"""
    cfg = read_config(("clone", "parser", "skipTE", "limit"))
    out = [HEADER.format(src="src/celpy/evaluation.py (Referent.clone, NameContainer.clone, Activation.clone, Evaluator.set_activation, "
                             "NameContainer.resolve_name), src/celpy/__init__.py (InterpretedRunner.evaluate, Environment.__init__), "
                             "src/celpy/celparser.py (CELParser)"),
           "import Cel.Model.Runtime\nimport Cel.Model.RuntimeLimit\nnamespace Cel.Gen.Runtime\nopen Cel.Runtime\n",
           "/-- when `Environment.__init__` sets the process-wide recursion limit -/",
           f"def limitPolicy : LimitPolicy := {limit_policy_lean(cfg['limit'])}",
           "/-- what `Referent.clone` does with the nested container -/",
           f"def clonePolicy : ClonePolicy := .{cfg['clone']}",
           "/-- how `CELParser` caches lark parsers -/",
           f"def parserPolicy : ParserPolicy := .{cfg['parser']}",
           "/-- `resolve_name` skips a `TypeError` of `find_name` like `NotFound` -/",
           f"def resolveSkipsTypeError : Bool := {'true' if cfg['skipTE'] else 'false'}",
           "/-- the configuration of the current source, for either exec-namespace policy (that one is read into Cel.Gen.RuntimeNs) -/",
           "def config (ns : NamespacePolicy) : Config := ⟨clonePolicy, parserPolicy, ns, resolveSkipsTypeError⟩",
           "end Cel.Gen.Runtime\n"]
    return "\n".join(out)


def gen_runtime_ns() -> str:
    """C16: the namespace the transpiled statements execute in"""
    cfg = read_config(("ns",))
    out = [HEADER.format(src="src/celpy/evaluation.py (Transpiler.evaluate)"),
           "import Cel.Model.Runtime\nnamespace Cel.Gen.RuntimeNs\nopen Cel.Runtime\n",
           "/-- the namespace `Transpiler.evaluate` hands to `exec` -/",
           f"def namespacePolicy : NamespacePolicy := .{cfg['ns']}",
           "end Cel.Gen.RuntimeNs\n"]
    return "\n".join(out)


GENERATORS = {"Runtime": gen_runtime, "RuntimeNs": gen_runtime_ns}
