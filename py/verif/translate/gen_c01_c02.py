"""Generators for Gen/Num.lean (C01) and Gen/Logic.lean (C02)."""
from __future__ import annotations
import ast
from .py2lean import (TranslationError, translate_range_decorator, translate_int_class,
                      translate_logic_fn, find_func, find_class, lean_str, lean_list)
from .common import parse, HEADER, exc_names, lean_exc


def gen_num() -> str:
    m = parse("src/celpy/celtypes.py")
    out = [HEADER.format(src="src/celpy/celtypes.py (int64, uint64, IntType, UintType)"),
           "import Cel.Model.Num\nnamespace Cel.Gen\nopen Cel (PyM pyFloorDiv pyMod pyAbs)\n"]
    out.append(translate_range_decorator(m, "int64"))
    out.append(translate_range_decorator(m, "uint64"))
    out.append(translate_int_class(m, "IntType", "int64", "IntType"))
    out.append(translate_int_class(m, "UintType", "uint64", "UintType"))
    # handlers of the arithmetic rules of the interpreter
    ev = parse("src/celpy/evaluation.py")
    evcls = find_class(ev, "Evaluator")
    for rule in ("addition", "multiplication", "unary"):
        f = find_func(evcls.body, rule)
        hs = []
        for node in ast.walk(f):
            if isinstance(node, ast.Try):
                for h in node.handlers:
                    hs += exc_names(h.type)
        out.append(f"def handlers_{rule} : List Cel.Exc := " + lean_list([lean_exc(c) for c in hs]))
    res = find_func(ev.body, "result")
    tries = [s for s in res.body if isinstance(s, ast.Try)]
    if len(tries) != 1 or len(tries[0].handlers) != 1:
        raise TranslationError("result(): expected exactly one try/except")
    out.append("def resultCaughtNum : List Cel.Exc := " + lean_list([lean_exc(c) for c in exc_names(tries[0].handlers[0].type)]))
    out.append("end Cel.Gen\n")
    return "\n".join(out)


def gen_logic() -> str:
    m = parse("src/celpy/celtypes.py")
    ev = parse("src/celpy/evaluation.py")
    out = [HEADER.format(src="src/celpy/celtypes.py (logical_*), src/celpy/evaluation.py (result)"),
           "import Cel.Model.Logic\nnamespace Cel.Gen\nopen Cel (PyM O Exc)\n"]
    for n in ["logical_and", "logical_or", "logical_not", "logical_condition"]:
        out.append(translate_logic_fn(m, n, n))
    # classes caught by result()
    res = find_func(ev.body, "result")
    tries = [s for s in res.body if isinstance(s, ast.Try)]
    if len(tries) != 1 or len(tries[0].handlers) != 1:
        raise TranslationError("result(): expected exactly one try/except")
    caught = exc_names(tries[0].handlers[0].type)
    out.append("/-- exception classes caught by `celpy.evaluation.result()` -/")
    out.append("def resultCaught : List Exc := " + lean_list([lean_exc(c) for c in caught]) + "\n")
    # reducers of macro_all / macro_exists: is logical_and wrapped by eval_error(TypeError)?
    for fn, op in (("macro_all", "logical_and"), ("macro_exists", "logical_or")):
        src = ast.unparse(find_func(ev.body, fn))
        wrapped = f"eval_error('no such overload', TypeError)(celpy.celtypes.{op})" in src
        out.append(f"def {fn}_reducer_catches_TypeError : Bool := {'true' if wrapped else 'false'}")
    # interpreter handlers of the logical rules
    evcls = find_class(ev, "Evaluator")
    for rule in ("expr", "conditionalor", "conditionaland", "unary"):
        f = find_func(evcls.body, rule)
        hs = []
        for node in ast.walk(f):
            if isinstance(node, ast.Try):
                for h in node.handlers:
                    hs += exc_names(h.type)
        out.append(f"def handlers_{rule} : List Exc := " + lean_list([lean_exc(c) for c in hs]))
    out.append("\nend Cel.Gen\n")
    return "\n".join(out)



GENERATORS = {"Num": gen_num, "Logic": gen_logic}
