"""Generators for Gen/Num.lean (C01) and Gen/Logic.lean (C02)."""
from __future__ import annotations
import ast
from .py2lean import (TranslationError,
                      translate_logic_fn, find_func, find_class, lean_str, lean_list)
from .py2lean_int import translate_range_decorator, translate_int_class, exc_names_resolved   # int dialect, 2nd edition (C01)
from .common import parse, HEADER, exc_names, lean_exc


def gen_num() -> str:
    m = parse("src/celpy/celtypes.py")
    out = [HEADER.format(src="src/celpy/celtypes.py (int64, uint64, IntType, UintType)"),
           "import Cel.Model.Num\nnamespace Cel.Gen\nopen Cel (PyM pyFloorDiv pyMod pyAbs)\n"]
    out.append(translate_range_decorator(m, "int64"))
    out.append(translate_range_decorator(m, "uint64"))
    out.append(translate_int_class(m, "IntType", "int64", "IntType"))
    out.append(translate_int_class(m, "UintType", "uint64", "UintType"))
    # handlers of the arithmetic rules of the interpreter
    ev = parse("src/celpy/evaluation.py")
    evcls = find_class(ev, "Evaluator")
    for rule in ("addition", "multiplication", "unary"):
        f = find_func(evcls.body, rule)
        hs = []
        for node in ast.walk(f):
            if isinstance(node, ast.Try):
                for h in node.handlers:
                    hs += exc_names_resolved(ev, evcls, h.type)
        out.append(f"def handlers_{rule} : List Cel.Exc := " + lean_list([lean_exc(c) for c in hs]))
    res = find_func(ev.body, "result")
    tries = [s for s in res.body if isinstance(s, ast.Try)]
    if len(tries) != 1 or len(tries[0].handlers) != 1:
        raise TranslationError("result(): expected exactly one try/except")
    out.append("def resultCaughtNum : List Cel.Exc := " + lean_list([lean_exc(c) for c in exc_names_resolved(ev, None, tries[0].handlers[0].type)]))
    out.append("end Cel.Gen\n")
    return "\n".join(out)


def _resolve_exc_names(mod: ast.Module, node) -> list:
    """classes of an `except` clause; a module-level constant bound to a tuple of classes is followed"""
    names = []
    for n in exc_names(node):
        tup = None
        for st in mod.body:
            if (isinstance(st, ast.Assign) and len(st.targets) == 1 and isinstance(st.targets[0], ast.Name)
                    and st.targets[0].id == n and isinstance(st.value, ast.Tuple)):
                tup = st.value
        names += [ast.unparse(e) for e in tup.elts] if tup is not None else [n]
    return names


def _handlers_of(mod: ast.Module, cls: ast.ClassDef, f: ast.FunctionDef) -> list:
    """exception classes of every `except` clause in a rule method, following one level of `self.<helper>(...)`
    calls into methods defined in the same class (an extracted helper keeps its handlers)"""
    bodies = [f]
    for node in ast.walk(f):
        if (isinstance(node, ast.Call) and isinstance(node.func, ast.Attribute) and isinstance(node.func.value, ast.Name)
                and node.func.value.id == "self"):
            for m in cls.body:
                if isinstance(m, ast.FunctionDef) and m.name == node.func.attr and m is not f and m not in bodies:
                    bodies.append(m)
    hs = []
    for b in bodies:
        for node in ast.walk(b):
            if isinstance(node, ast.Try):
                for h in node.handlers:
                    for c in _resolve_exc_names(mod, h.type):
                        if c not in hs:
                            hs.append(c)
    return hs


def _reducer_wrapped(fn: ast.FunctionDef, op: str) -> bool:
    """every reference to celtypes.<op> inside macro_all/macro_exists is the argument of
    `eval_error(<message>, TypeError)(...)` (so a TypeError of the reducer becomes an error VALUE), and there is one"""
    def is_op(e):
        return (isinstance(e, ast.Attribute) and e.attr == op) or (isinstance(e, ast.Name) and e.id == op)
    wrapped = set()
    for node in ast.walk(fn):
        if (isinstance(node, ast.Call) and isinstance(node.func, ast.Call) and isinstance(node.func.func, ast.Name)
                and node.func.func.id == "eval_error" and len(node.func.args) == 2 and len(node.args) == 1
                and "TypeError" in exc_names(node.func.args[1]) and is_op(node.args[0])):
            wrapped.add(id(node.args[0]))
    refs = [n for n in ast.walk(fn) if is_op(n)]
    return bool(refs) and all(id(n) in wrapped for n in refs)


def gen_logic() -> str:
    m = parse("src/celpy/celtypes.py")
    ev = parse("src/celpy/evaluation.py")
    out = [HEADER.format(src="src/celpy/celtypes.py (logical_*), src/celpy/evaluation.py (result)"),
           "import Cel.Model.Logic\nnamespace Cel.Gen\nopen Cel (PyM O Exc)\n"]
    for n in ["logical_and", "logical_or", "logical_not", "logical_condition"]:
        out.append(translate_logic_fn(m, n, n))
    # classes caught by result()
    res = find_func(ev.body, "result")
    tries = [s for s in res.body if isinstance(s, ast.Try)]
    if len(tries) != 1 or len(tries[0].handlers) != 1:
        raise TranslationError("result(): expected exactly one try/except")
    caught = _resolve_exc_names(ev, tries[0].handlers[0].type)
    out.append("/-- exception classes caught by `celpy.evaluation.result()` -/")
    out.append("def resultCaught : List Exc := " + lean_list([lean_exc(c) for c in caught]) + "\n")
    # reducers of macro_all / macro_exists: is logical_and wrapped by eval_error(TypeError)?
    for fn, op in (("macro_all", "logical_and"), ("macro_exists", "logical_or")):
        wrapped = _reducer_wrapped(find_func(ev.body, fn), op)
        out.append(f"def {fn}_reducer_catches_TypeError : Bool := {'true' if wrapped else 'false'}")
    # interpreter handlers of the logical rules
    evcls = find_class(ev, "Evaluator")
    for rule in ("expr", "conditionalor", "conditionaland", "unary"):
        hs = _handlers_of(ev, evcls, find_func(evcls.body, rule))
        out.append(f"def handlers_{rule} : List Exc := " + lean_list([lean_exc(c) for c in hs]))
    out.append("\nend Cel.Gen\n")
    return "\n".join(out)



GENERATORS = {"Num": gen_num, "Logic": gen_logic}
