"""Generator for Gen/Grammar.lean (C06, reused by C18/C19): the grammar lark builds from
src/celpy/cel.lark with the options written in src/celpy/celparser.py.

What is read from the working tree on every run:
  * `Lark(...)` keyword arguments in `CELParser.__init__` (ast)            -> larkOptions
  * the body of `CELParser.ambiguous_literals` (ast, a `t.value == "…"` ladder) -> ambiguousLiterals
  * cel.lark, compiled by lark itself with those options                   -> productions (BNF after
    EBNF expansion), kept (named) terminals, inlined helper rules, %ignore, terminal priorities,
    string terminals that the IDENT regex matches, the terminal sets accepted by the LALR states
    that accept IDENT, and the number of shift/reduce conflicts lark resolved while building the table.
Anonymous terminals are identified by their quoted text (lark's `__ANON_n` numbering is not stable),
helper rules by their name without the numeric suffix.
"""
from __future__ import annotations
import ast
import logging
import re
from typing import Any, Dict, List, Tuple

from .py2lean import TranslationError, find_class, find_func, strip_doc, lean_str, lean_list
from .common import parse, read, HEADER


def lark_call_options() -> Dict[str, str]:
    m = parse("src/celpy/celparser.py")
    cls = find_class(m, "CELParser")
    init = find_func(cls.body, "__init__")
    calls = [n for n in ast.walk(init) if isinstance(n, ast.Call)
             and ((isinstance(n.func, ast.Name) and n.func.id == "Lark")
                  or (isinstance(n.func, ast.Attribute) and n.func.attr == "Lark"))]
    if len(calls) != 1:
        raise TranslationError(f"CELParser.__init__: expected exactly one Lark(...) call, found {len(calls)}")
    call = calls[0]
    if len(call.args) != 1:
        raise TranslationError("Lark(...): expected the grammar text as the only positional argument")
    opts = {}
    for kw in call.keywords:
        if kw.arg is None:
            raise TranslationError("Lark(...): **kwargs not supported")
        opts[kw.arg] = ast.unparse(kw.value)
    return opts


def ambiguous_literals() -> List[Tuple[str, str]]:
    """`if t.value == "true": return Token("BOOL_LIT", t.value) elif …: … return t` -> [(word, type)]"""
    m = parse("src/celpy/celparser.py")
    cls = find_class(m, "CELParser")
    f = find_func(cls.body, "ambiguous_literals")
    arg = f.args.args[-1].arg
    body = strip_doc(f.body)
    pairs: List[Tuple[str, str]] = []

    def is_value(e) -> bool:
        return isinstance(e, ast.Attribute) and e.attr == "value" and isinstance(e.value, ast.Name) and e.value.id == arg

    def ladder(stmts):
        for i, st in enumerate(stmts):
            if isinstance(st, ast.If):
                t = st.test
                if not (isinstance(t, ast.Compare) and len(t.ops) == 1 and isinstance(t.ops[0], ast.Eq)
                        and is_value(t.left) and isinstance(t.comparators[0], ast.Constant)
                        and isinstance(t.comparators[0].value, str)):
                    raise TranslationError("ambiguous_literals: test is not `t.value == \"…\"`: " + ast.unparse(t))
                if not (len(st.body) == 1 and isinstance(st.body[0], ast.Return)):
                    raise TranslationError("ambiguous_literals: branch is not a single return")
                r = st.body[0].value
                plain = (isinstance(r, ast.Call) and isinstance(r.func, ast.Name) and r.func.id == "Token"
                         and len(r.args) == 2)
                # Token.new_borrow_pos(type, value, borrow_t): same type and value, positions copied from t
                borrow = (isinstance(r, ast.Call) and isinstance(r.func, ast.Attribute) and r.func.attr == "new_borrow_pos"
                          and isinstance(r.func.value, ast.Name) and r.func.value.id == "Token" and len(r.args) == 3
                          and isinstance(r.args[2], ast.Name) and r.args[2].id == arg)
                if not ((plain or borrow) and not r.keywords and isinstance(r.args[0], ast.Constant) and is_value(r.args[1])):
                    raise TranslationError("ambiguous_literals: return is not Token(\"TYPE\", t.value): " + ast.unparse(r))
                pairs.append((t.comparators[0].value, r.args[0].value))
                ladder(st.orelse)
            elif isinstance(st, ast.Return):
                if not (isinstance(st.value, ast.Name) and st.value.id == arg):
                    raise TranslationError("ambiguous_literals: final return is not the token itself")
                if i != len(stmts) - 1:
                    raise TranslationError("ambiguous_literals: statements after return")
            else:
                raise TranslationError("ambiguous_literals: unsupported statement " + type(st).__name__)
    ladder(body)
    return pairs


class _Capture(logging.Handler):
    def __init__(self):
        super().__init__(level=logging.DEBUG)
        self.records: List[str] = []

    def emit(self, record):
        try:
            self.records.append(record.getMessage())
        except Exception:
            self.records.append(str(record.msg))


def build_lark(opts: Dict[str, str]):
    import lark
    kwargs: Dict[str, Any] = {}
    ns = {"re": re}
    for k in ("parser", "start", "maybe_placeholders", "priority", "g_regex_flags", "lexer", "keep_all_tokens", "strict"):
        if k in opts:
            try:
                kwargs[k] = eval(opts[k], ns)  # literals / re.M only
            except Exception as ex:
                raise TranslationError(f"Lark option {k}={opts[k]!r} is not a literal: {ex}")
    kwargs["debug"] = True
    cap = _Capture()
    lg = lark.logger
    old_level, old_disable = lg.level, logging.root.manager.disable
    logging.disable(logging.NOTSET)
    lg.addHandler(cap)
    lg.setLevel(logging.DEBUG)
    try:
        p = lark.Lark(read("src/celpy/cel.lark"), **kwargs)
    finally:
        lg.removeHandler(cap)
        lg.setLevel(old_level)
        logging.disable(old_disable)
    return p, cap.records


def grammar_facts() -> Dict[str, Any]:
    import lark
    opts = lark_call_options()
    p, log = build_lark(opts)
    tn = {t.name: t for t in p.terminals}

    def tsrc(name: str, filtered: bool) -> str:
        t = tn[name]
        if filtered:
            if not isinstance(t.pattern, lark.lexer.PatternStr):
                raise TranslationError(f"filtered terminal {name} is not a string")
            return "'" + t.pattern.value + "'"
        return name

    def tsrc_any(name: str) -> str:
        return tsrc(name, name in filtered_names)

    def rname(n: str) -> str:
        return re.sub(r"_\d+$", "", n) if n.startswith("_") else n

    filtered_names = set()
    kept_names = set()
    prods = []
    for r in p.rules:
        if r.alias is not None or r.options.keep_all_tokens or r.options.expand1 or r.options.priority is not None:
            # (empty_indices only matter with maybe_placeholders=True; the bridge checks that option is False)
            raise TranslationError(f"rule {r.origin.name}: alias / ! / ? / priority / placeholders are outside the modelled subset")
        rhs = []
        for s in r.expansion:
            if isinstance(s, lark.grammar.Terminal):
                (filtered_names if s.filter_out else kept_names).add(s.name)
                rhs.append(tsrc(s.name, s.filter_out))
            else:
                rhs.append(rname(s.name))
        prods.append((rname(r.origin.name), rhs))
    if filtered_names & kept_names:
        raise TranslationError(f"terminals both kept and filtered: {sorted(filtered_names & kept_names)}")
    prods.sort()
    inline = sorted({a for a, _ in prods if a.startswith("_")})
    kept = sorted(kept_names)
    ignore = sorted(p.lexer_conf.ignore if hasattr(p, "lexer_conf") else p.ignore_tokens)
    ignore_pat = [(n, tn[n].pattern.to_regexp()) for n in ignore]
    prio = sorted((t.name if t.name in kept_names or t.name in ignore else tsrc_any(t.name), t.priority) for t in p.terminals)
    # string terminals the IDENT regex matches as a whole (lark's "unless" mechanism retypes these)
    ident = tn.get("IDENT")
    words = []
    if ident is not None:
        rx = re.compile(ident.pattern.to_regexp())
        for t in p.terminals:
            if isinstance(t.pattern, lark.lexer.PatternStr) and rx.fullmatch(t.pattern.value):
                words.append((t.pattern.value, tsrc_any(t.name)))
    words.sort()
    # accept sets of the LALR states accepting IDENT
    try:
        table = p.parser.parser.parser.parse_table
    except AttributeError:
        table = p.parser.parser._parse_table
    sets = set()
    for st, acts in table.states.items():
        acc = [a for a in acts.keys() if a in tn]
        if "IDENT" in acc:
            sets.add(tuple(sorted(tsrc_any(a) for a in acc)))
    conflicts = [m for m in log if "conflict" in m.lower()]
    return {"opts": opts, "prods": prods, "inline": inline, "kept": kept, "ignore": ignore, "ignore_pat": ignore_pat, "prio": prio,
            "words": words, "accept": sorted(sets), "conflicts": conflicts, "lexer": str(p.options.lexer),
            "start": list(p.options.start)}


def gen_grammar() -> str:
    f = grammar_facts()
    amb = ambiguous_literals()
    o = f["opts"]
    cb = o.get("lexer_callbacks", "{}")
    # the callback table must attach ambiguous_literals to IDENT
    cbm = re.fullmatch(r"\{\s*'IDENT'\s*:\s*(?:self|CELParser|cls)\.ambiguous_literals\s*\}", cb)
    out = [HEADER.format(src="src/celpy/cel.lark (compiled by lark), src/celpy/celparser.py (Lark(...) options, ambiguous_literals)"),
           "namespace Cel.Gen.Grammar\n"]
    out.append("/-- BNF productions after lark's EBNF expansion: (rule, right-hand side); anonymous terminals quoted -/")
    out.append("def productions : List (String × List String) := [\n" + ",\n".join(
        f"  ({lean_str(a)}, {lean_list([lean_str(s) for s in rhs])})" for a, rhs in f["prods"]) + "\n]\n")
    out.append("/-- terminals kept in the tree (named), in contrast to filtered punctuation -/")
    out.append("def keptTerminals : List String := " + lean_list([lean_str(s) for s in f["kept"]]))
    out.append("/-- helper rules lark inlines into their parent -/")
    out.append("def inlineRules : List String := " + lean_list([lean_str(s) for s in f["inline"]]))
    out.append("def ignored : List String := " + lean_list([lean_str(s) for s in f["ignore"]]))
    out.append("/-- the regular expressions of the ignored terminals -/")
    out.append("def ignoredPatterns : List (String × String) := " + lean_list([f"({lean_str(a)}, {lean_str(b)})" for a, b in f["ignore_pat"]]))
    out.append("def terminalPriorities : List (String × Int) := " + lean_list([f"({lean_str(n)}, {pr})" for n, pr in f["prio"]]))
    out.append("/-- string terminals matched as a whole by the IDENT regex -/")
    out.append("def wordStrTerminals : List (String × String) := " + lean_list([f"({lean_str(a)}, {lean_str(b)})" for a, b in f["words"]]))
    out.append("/-- terminal sets accepted by the LALR(1) states that accept IDENT -/")
    out.append("def identAcceptSets : List (List String) := [\n" + ",\n".join(
        "  " + lean_list([lean_str(s) for s in acc]) for acc in f["accept"]) + "\n]\n")
    out.append("/-- shift/reduce conflicts lark resolved while building the table (its debug log) -/")
    out.append(f"def shiftReduceConflicts : Nat := {len(f['conflicts'])}")
    out.append("/-- `CELParser.ambiguous_literals`: word ↦ new token type -/")
    out.append("def ambiguousLiterals : List (String × String) := " + lean_list([f"({lean_str(a)}, {lean_str(b)})" for a, b in amb]))
    out.append("def ambiguousLiteralsOnIdent : Bool := " + ("true" if cbm else "false"))
    keys = ["parser", "start", "maybe_placeholders", "priority", "lexer", "keep_all_tokens"]
    out.append("/-- keyword arguments of the `Lark(...)` call that shape the tree (source text of the value) -/")
    out.append("def larkOptions : List (String × String) := " + lean_list(
        [f"({lean_str(k)}, {lean_str(o[k])})" for k in keys if k in o]))
    out.append(f"def lexerKind : String := {lean_str(f['lexer'])}")
    out.append("def startSymbols : List String := " + lean_list([lean_str(s) for s in f["start"]]))
    out.append("\nend Cel.Gen.Grammar\n")
    return "\n".join(out)


GENERATORS = {"Grammar": gen_grammar}
