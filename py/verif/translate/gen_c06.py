"""Generator for Gen/Grammar.lean (C06, reused by C18/C19): the grammar lark builds from
src/celpy/cel.lark with the options written in src/celpy/celparser.py.

What is read from the working tree on every run:
  * `Lark(...)` keyword arguments in `CELParser.__init__` (ast)            -> larkOptions
  * the body of `CELParser.ambiguous_literals` (ast, a `t.value == "…"` ladder) -> ambiguousLiterals
  * cel.lark, compiled by lark itself with those options                   -> productions (BNF after
    EBNF expansion), kept (named) terminals, inlined helper rules, %ignore, terminal priorities,
    string terminals that the IDENT regex matches, the terminal sets accepted by the LALR states
    that accept IDENT, and the number of shift/reduce conflicts lark resolved while building the table.
Anonymous terminals are identified by their quoted text (lark's `__ANON_n` numbering is not stable),
helper rules by their name without the numeric suffix.
"""
from __future__ import annotations
import ast
import logging
import re
from typing import Any, Dict, List, Tuple

from .py2lean import TranslationError, find_class, find_func, strip_doc, lean_str, lean_list
from .common import parse, read, HEADER


def _is_lark_call(n) -> bool:
    return isinstance(n, ast.Call) and ((isinstance(n.func, ast.Name) and n.func.id == "Lark")
                                        or (isinstance(n.func, ast.Attribute) and n.func.attr == "Lark"))


def _single_assignment(scope_bodies, name: str):
    """the value of the only plain assignment `name = value` among the statements of the given bodies
    (nested blocks included); None when there is none, TranslationError when there are several"""
    found = []
    for body in scope_bodies:
        for top in body:
            nodes = [top] if isinstance(top, (ast.FunctionDef, ast.ClassDef)) else ast.walk(top)
            for n in nodes:
                if isinstance(n, ast.Assign) and len(n.targets) == 1 and isinstance(n.targets[0], ast.Name) and n.targets[0].id == name:
                    found.append(n.value)
                elif isinstance(n, ast.AnnAssign) and isinstance(n.target, ast.Name) and n.target.id == name and n.value is not None:
                    found.append(n.value)
                elif isinstance(n, (ast.AugAssign, ast.NamedExpr)) and isinstance(n.target, ast.Name) and n.target.id == name:
                    raise TranslationError(f"Lark(...): {name} is updated in place")
    if len(found) > 1:
        raise TranslationError(f"Lark(...): {name} is assigned {len(found)} times")
    return found[0] if found else None


def lark_call_options() -> Dict[str, str]:
    """keyword arguments of the one `Lark(...)` call of celparser.py as source text of their values.  The call may
    sit in `__init__` or in a helper; a value given through a local / class-level / module-level name that is
    assigned exactly once is replaced by that value, `**name` by the entries of the dict it is bound to"""
    m = parse("src/celpy/celparser.py")
    cls = find_class(m, "CELParser")
    calls = [(f, n) for f in ast.walk(m) if isinstance(f, ast.FunctionDef) for n in ast.walk(f) if _is_lark_call(n)]
    calls += [(None, n) for top in m.body if not isinstance(top, (ast.FunctionDef, ast.ClassDef)) for n in ast.walk(top) if _is_lark_call(n)]
    # (a call inside a nested function is seen once per enclosing function: keep the innermost)
    uniq = {}
    for f, n in calls:
        uniq[id(n)] = (f, n) if id(n) not in uniq or (f is not None and uniq[id(n)][0] is not None
                                                         and f.lineno >= uniq[id(n)][0].lineno) else uniq[id(n)]
    if len(uniq) != 1:
        raise TranslationError(f"celparser.py: expected exactly one Lark(...) call, found {len(uniq)}")
    func, call = next(iter(uniq.values()))
    if len(call.args) != 1:
        raise TranslationError("Lark(...): expected the grammar text as the only positional argument")
    scopes = [func.body] if func is not None else []

    def resolve(e, depth=0):
        if isinstance(e, ast.Name) and depth < 4:
            if func is not None and e.id in [a.arg for a in func.args.args + func.args.kwonlyargs]:
                return e              # a parameter (tree_class)
            for sc in (scopes, [cls.body], [m.body]):
                v = _single_assignment(sc, e.id)
                if v is not None:
                    return resolve(v, depth + 1)
            return e
        if isinstance(e, ast.Attribute) and isinstance(e.value, ast.Name) and e.value.id in ("self", "cls", "CELParser") and depth < 4:
            v = _single_assignment([cls.body], e.attr)
            if v is not None:
                return resolve(v, depth + 1)
        return e

    opts: Dict[str, str] = {}

    def put(k, v):
        if k in opts:
            raise TranslationError(f"Lark(...): option {k} given twice")
        opts[k] = ast.unparse(resolve(v))
    for kw in call.keywords:
        if kw.arg is not None:
            put(kw.arg, kw.value)
            continue
        d = resolve(kw.value)
        if isinstance(kw.value, ast.Name):
            # a dict is mutable: the name may only occur where it is bound and where it is passed on
            uses = [n for n in ast.walk(m) if isinstance(n, ast.Name) and n.id == kw.value.id]
            if len(uses) != 2:
                raise TranslationError(f"Lark(...): **{kw.value.id} is used in {len(uses)} places (expected: bound once, passed once)")
        elif not isinstance(kw.value, (ast.Dict, ast.Call)):
            raise TranslationError("Lark(...): **" + ast.unparse(kw.value) + " outside the subset")
        if isinstance(d, ast.Dict) and all(isinstance(k, ast.Constant) and isinstance(k.value, str) for k in d.keys):
            for k, v in zip(d.keys, d.values):
                put(k.value, v)
        elif isinstance(d, ast.Call) and isinstance(d.func, ast.Name) and d.func.id == "dict" and not d.args \
                and all(k.arg is not None for k in d.keywords):
            for k in d.keywords:
                put(k.arg, k.value)
        else:
            raise TranslationError("Lark(...): **" + ast.unparse(kw.value) + " is not bound to a dict display")
    return opts


class _Other:
    """the value of a word that is none of the string constants of the function: every `==` / `in` test
    against a constant is false for it"""
    def __repr__(self):
        return "<any other word>"


OTHER = _Other()
TOK = ("the token argument",)


class _Return(Exception):
    def __init__(self, v):
        self.v = v


class _WordFn:
    """Evaluator for `CELParser.ambiguous_literals`, a function Token -> Token whose only tests are
    equality / membership of the token's text against string constants.  It is run once per string
    constant of the code (and once for `OTHER`), which yields the function as a finite table
    word -> token type, *whatever the control structure* (if/elif ladder, early returns, merged `or`
    tests, `in (…)`, conditional expressions, `match`, a lookup table, a local for `t.value`, one or
    two levels of helper functions).  Anything else the word could flow into (slicing, `.lower()`,
    `startswith`, `len`, `<`, regexes, attributes other than `.value`) is outside the subset and raises
    TranslationError, so a behaviour-changing edit cannot hide behind the extraction."""
    POS_KW = {"start_pos", "line", "column", "end_line", "end_column", "end_pos"}

    def __init__(self, module: ast.Module, cls: ast.ClassDef):
        self.module, self.cls = module, cls
        self.compared: set = set()

    # -- names defined beside the function ------------------------------------------------------
    def outer(self, name: str):
        for body in (self.cls.body, self.module.body):
            for n in body:
                if isinstance(n, ast.FunctionDef) and n.name == name:
                    return ("fn", n)
                tgt = None
                if isinstance(n, ast.Assign) and len(n.targets) == 1 and isinstance(n.targets[0], ast.Name):
                    tgt, val = n.targets[0].id, n.value
                elif isinstance(n, ast.AnnAssign) and isinstance(n.target, ast.Name) and n.value is not None:
                    tgt, val = n.target.id, n.value
                if tgt == name:
                    return ("val", self.const(val))
        raise TranslationError(f"ambiguous_literals: unknown name {name}")

    def const(self, e):
        if isinstance(e, ast.Call) and isinstance(e.func, ast.Name) and e.func.id in ("frozenset", "set", "tuple", "list", "dict") \
                and len(e.args) == 1 and not e.keywords:
            return {"frozenset": frozenset, "set": frozenset, "tuple": tuple, "list": list, "dict": dict}[e.func.id](self.const(e.args[0]))
        try:
            return ast.literal_eval(e)
        except Exception:
            raise TranslationError("ambiguous_literals: not a literal table: " + ast.unparse(e))

    # -- expressions --------------------------------------------------------------------------------
    def as_word(self, v, env):
        return env["__word__"] if v is TOK else v

    def eq(self, a, b, env) -> bool:
        a, b = self.as_word(a, env), self.as_word(b, env)
        for x in (a, b):
            if isinstance(x, str):
                self.compared.add(x)
        if a is OTHER or b is OTHER:
            return a is b
        if isinstance(a, tuple) and a[:1] == ("newtok",) or isinstance(b, tuple) and b[:1] == ("newtok",):
            raise TranslationError("ambiguous_literals: comparison of a constructed token")
        return a == b

    def contains(self, coll, x, env) -> bool:
        if isinstance(coll, str) or not isinstance(coll, (tuple, list, frozenset, set, dict)):
            raise TranslationError("ambiguous_literals: `in` over something that is not a tuple/list/set/dict of constants")
        return any(self.eq(x, y, env) for y in coll)

    def ev(self, e, env, depth):
        if isinstance(e, ast.Constant):
            return e.value
        if isinstance(e, ast.Name):
            if e.id in env:
                return env[e.id]
            k, v = self.outer(e.id)
            if k != "val":
                raise TranslationError(f"ambiguous_literals: function {e.id} used as a value")
            return v
        if isinstance(e, (ast.Tuple, ast.List)):
            return tuple(self.ev(x, env, depth) for x in e.elts)
        if isinstance(e, ast.Set):
            return tuple(self.ev(x, env, depth) for x in e.elts)
        if isinstance(e, ast.Dict):
            if any(k is None for k in e.keys):
                raise TranslationError("ambiguous_literals: ** in a dict display")
            return {self.ev(k, env, depth): self.ev(v, env, depth) for k, v in zip(e.keys, e.values)}
        if isinstance(e, ast.Attribute):
            if isinstance(e.value, ast.Name) and e.value.id in ("CELParser", "cls", "self") and e.value.id not in env:
                k, v = self.outer(e.attr)
                if k == "val":
                    return v
                raise TranslationError(f"ambiguous_literals: function {e.attr} used as a value")
            base = self.ev(e.value, env, depth)
            if base is TOK and e.attr == "value":
                return env["__word__"]
            raise TranslationError("ambiguous_literals: attribute outside the subset: " + ast.unparse(e))
        if isinstance(e, ast.BoolOp):
            v = None
            for x in e.values:
                v = self.ev(x, env, depth)
                if isinstance(e.op, ast.Or) and self.truth(v, env):
                    return v
                if isinstance(e.op, ast.And) and not self.truth(v, env):
                    return v
            return v
        if isinstance(e, ast.UnaryOp) and isinstance(e.op, ast.Not):
            return not self.truth(self.ev(e.operand, env, depth), env)
        if isinstance(e, ast.IfExp):
            return self.ev(e.body if self.truth(self.ev(e.test, env, depth), env) else e.orelse, env, depth)
        if isinstance(e, ast.Compare):
            left = self.ev(e.left, env, depth)
            for op, r in zip(e.ops, e.comparators):
                right = self.ev(r, env, depth)
                if isinstance(op, ast.Eq):
                    ok = self.eq(left, right, env)
                elif isinstance(op, ast.NotEq):
                    ok = not self.eq(left, right, env)
                elif isinstance(op, ast.In):
                    ok = self.contains(right, left, env)
                elif isinstance(op, ast.NotIn):
                    ok = not self.contains(right, left, env)
                elif isinstance(op, (ast.Is, ast.IsNot)) and (left is None or right is None):
                    other = right if left is None else left
                    if other is TOK or other is OTHER or isinstance(other, (str, tuple, dict, list, frozenset)):
                        ok = isinstance(op, ast.IsNot)
                    else:
                        ok = (other is None) == isinstance(op, ast.Is)
                else:
                    raise TranslationError("ambiguous_literals: comparison outside the subset: " + ast.unparse(e))
                if not ok:
                    return False
                left = right
            return True
        if isinstance(e, ast.Subscript):
            d = self.ev(e.value, env, depth)
            k = self.as_word(self.ev(e.slice, env, depth), env)
            if isinstance(d, dict):
                for kk, vv in d.items():
                    if self.eq(kk, k, env):
                        return vv
                raise TranslationError("ambiguous_literals: table lookup can raise KeyError")
            raise TranslationError("ambiguous_literals: subscript outside the subset: " + ast.unparse(e))
        if isinstance(e, ast.Call):
            return self.call(e, env, depth)
        raise TranslationError("ambiguous_literals: expression outside the subset: " + ast.unparse(e))

    def truth(self, v, env) -> bool:
        v = self.as_word(v, env)
        if v is OTHER:
            return True           # IDENT matches at least one character
        if isinstance(v, tuple) and v[:1] == ("newtok",):
            return True
        return bool(v)

    def call(self, e: ast.Call, env, depth):
        f = e.func
        # str(t)
        if isinstance(f, ast.Name) and f.id == "str" and len(e.args) == 1 and not e.keywords:
            v = self.ev(e.args[0], env, depth)
            if v is TOK or v is OTHER or isinstance(v, str):
                return self.as_word(v, env)
        # Token(TYPE, t.value, [positions of t])  /  Token.new_borrow_pos(TYPE, t.value, t)
        plain = isinstance(f, ast.Name) and f.id == "Token" and "Token" not in env
        borrow = (isinstance(f, ast.Attribute) and f.attr == "new_borrow_pos" and isinstance(f.value, ast.Name)
                  and f.value.id == "Token")
        if plain or borrow:
            names = ["type", "value"] if plain else ["type_", "value", "borrow_t"]
            if len(e.args) > len(names):
                raise TranslationError("ambiguous_literals: positional position arguments of Token(...)")
            bound = {n: self.ev(a, env, depth) for n, a in zip(names, e.args)}
            for kw in e.keywords:
                if kw.arg is None:
                    raise TranslationError("ambiguous_literals: ** in Token(...)")
                if kw.arg in names and kw.arg not in bound:
                    bound[kw.arg] = self.ev(kw.value, env, depth)
                elif plain and kw.arg in self.POS_KW and isinstance(kw.value, ast.Attribute) \
                        and self.ev(kw.value.value, env, depth) is TOK:
                    pass      # positions are not part of the tree comparison; they come from the token itself
                else:
                    raise TranslationError(f"ambiguous_literals: Token(... {kw.arg}=…) outside the subset")
            if set(bound) != set(names):
                raise TranslationError("ambiguous_literals: Token(...) without type / value")
            if borrow and bound["borrow_t"] is not TOK:
                raise TranslationError("ambiguous_literals: new_borrow_pos does not borrow from the token itself")
            ty, val = bound[names[0]], bound["value"]
            if not isinstance(ty, str):
                raise TranslationError("ambiguous_literals: token type is not a string constant")
            val = self.as_word(val, env)
            if val is not env["__word__"] and not (isinstance(val, str) and val == env["__word__"]):
                raise TranslationError("ambiguous_literals: the new token does not keep the text of the old one")
            return ("newtok", ty)
        # TABLE.get(word[, default])
        if isinstance(f, ast.Attribute) and f.attr == "get" and not e.keywords and 1 <= len(e.args) <= 2:
            d = self.ev(f.value, env, depth)
            if isinstance(d, dict):
                k = self.ev(e.args[0], env, depth)
                for kk, vv in d.items():
                    if self.eq(kk, k, env):
                        return vv
                return self.ev(e.args[1], env, depth) if len(e.args) == 2 else None
        # helper function defined beside ambiguous_literals (at most two levels)
        name = None
        if isinstance(f, ast.Name) and f.id not in env:
            name = f.id
        elif isinstance(f, ast.Attribute) and isinstance(f.value, ast.Name) and f.value.id in ("CELParser", "cls", "self"):
            name = f.attr
        if name is not None:
            k, fn = self.outer(name)
            if k == "fn" and depth < 2 and not e.keywords:
                params = [a.arg for a in fn.args.args]
                decos = {ast.unparse(d) for d in fn.decorator_list}
                if decos - {"staticmethod"}:
                    raise TranslationError(f"ambiguous_literals: helper {name} has decorators {sorted(decos)}")
                if fn.args.vararg or fn.args.kwarg or fn.args.kwonlyargs or fn.args.defaults or len(params) != len(e.args):
                    raise TranslationError(f"ambiguous_literals: helper {name}: parameters outside the subset")
                env2 = {"__word__": env["__word__"]}
                for pn, a in zip(params, e.args):
                    env2[pn] = self.ev(a, env, depth)
                return self.run(fn, env2, depth + 1)
        raise TranslationError("ambiguous_literals: call outside the subset: " + ast.unparse(e))

    # -- statements ---------------------------------------------------------------------------------
    def block(self, stmts, env, depth):
        for st in stmts:
            if isinstance(st, ast.Expr) and isinstance(st.value, ast.Constant):
                continue
            if isinstance(st, ast.Pass):
                continue
            if isinstance(st, ast.Return):
                raise _Return(None if st.value is None else self.ev(st.value, env, depth))
            if isinstance(st, ast.If):
                self.block(st.body if self.truth(self.ev(st.test, env, depth), env) else st.orelse, env, depth)
                continue
            if isinstance(st, ast.Assign) and len(st.targets) == 1 and isinstance(st.targets[0], ast.Name):
                env[st.targets[0].id] = self.ev(st.value, env, depth)
                continue
            if isinstance(st, ast.AnnAssign) and isinstance(st.target, ast.Name) and st.value is not None:
                env[st.target.id] = self.ev(st.value, env, depth)
                continue
            if isinstance(st, ast.Match):
                subj = self.ev(st.subject, env, depth)
                for case in st.cases:
                    if self.pattern(case.pattern, subj, env, depth) and (case.guard is None or self.truth(self.ev(case.guard, env, depth), env)):
                        self.block(case.body, env, depth)
                        break
                continue
            raise TranslationError("ambiguous_literals: statement outside the subset: " + type(st).__name__)

    def pattern(self, p, subj, env, depth) -> bool:
        if isinstance(p, ast.MatchValue):
            return self.eq(subj, self.ev(p.value, env, depth), env)
        if isinstance(p, ast.MatchOr):
            return any(self.pattern(q, subj, env, depth) for q in p.patterns)
        if isinstance(p, ast.MatchAs) and p.pattern is None and p.name is None:
            return True
        raise TranslationError("ambiguous_literals: match pattern outside the subset")

    def run(self, fn: ast.FunctionDef, env, depth):
        try:
            self.block(strip_doc(fn.body), env, depth)
        except _Return as r:
            return r.v
        return None


def ambiguous_literals() -> List[Tuple[str, str]]:
    """`CELParser.ambiguous_literals` as the table word -> new token type (sorted by word)"""
    m = parse("src/celpy/celparser.py")
    cls = find_class(m, "CELParser")
    f = find_func(cls.body, "ambiguous_literals")
    decos = {ast.unparse(d) for d in f.decorator_list}
    params = [a.arg for a in f.args.args]
    if "staticmethod" not in decos:
        params = params[1:]
    if decos - {"staticmethod", "classmethod"} or len(params) != 1 or f.args.vararg or f.args.kwarg or f.args.kwonlyargs:
        raise TranslationError("ambiguous_literals: signature outside the subset")
    w = _WordFn(m, cls)
    # candidate words: every string constant of the class and of the module-level tables / helpers
    words = sorted({n.value for n in ast.walk(m) if isinstance(n, ast.Constant) and isinstance(n.value, str)
                    and re.fullmatch(r"[_a-zA-Z][_a-zA-Z0-9]*", n.value)})
    pairs: List[Tuple[str, str]] = []
    for word in words + [OTHER]:
        r = w.run(f, {params[0]: TOK, "__word__": word}, 0)
        if r is TOK:
            continue
        if isinstance(r, tuple) and r[:1] == ("newtok",):
            if word is OTHER:
                raise TranslationError("ambiguous_literals: retypes words beyond a finite list")
            pairs.append((word, r[1]))
            continue
        raise TranslationError(f"ambiguous_literals: returns something that is neither the token nor a new token for {word!r}")
    # (a constant that is not of the form of an identifier can never equal the text of an IDENT token)
    missing = {c for c in w.compared if isinstance(c, str) and re.fullmatch(r"[_a-zA-Z][_a-zA-Z0-9]*", c)} - set(words)
    if missing:
        raise TranslationError(f"ambiguous_literals: compares with {sorted(missing)[:3]}, which were not enumerated")
    return sorted(pairs)


class _Capture(logging.Handler):
    def __init__(self):
        super().__init__(level=logging.DEBUG)
        self.records: List[str] = []

    def emit(self, record):
        try:
            self.records.append(record.getMessage())
        except Exception:
            self.records.append(str(record.msg))


def build_lark(opts: Dict[str, str]):
    import lark
    kwargs: Dict[str, Any] = {}
    ns = {"re": re}
    for k in ("parser", "start", "maybe_placeholders", "priority", "g_regex_flags", "lexer", "keep_all_tokens", "strict"):
        if k in opts:
            try:
                kwargs[k] = eval(opts[k], ns)  # literals / re.M only
            except Exception as ex:
                raise TranslationError(f"Lark option {k}={opts[k]!r} is not a literal: {ex}")
    kwargs["debug"] = True
    cap = _Capture()
    lg = lark.logger
    old_level, old_disable = lg.level, logging.root.manager.disable
    logging.disable(logging.NOTSET)
    lg.addHandler(cap)
    lg.setLevel(logging.DEBUG)
    try:
        p = lark.Lark(read("src/celpy/cel.lark"), **kwargs)
    finally:
        lg.removeHandler(cap)
        lg.setLevel(old_level)
        logging.disable(old_disable)
    return p, cap.records


def canon_regex(pattern: str, flags: int) -> str:
    """the regular expression as Python's own parser reads it, rendered canonically: character classes as sorted
    code-point sets (so `[ \\t\\n\\f\\r]+`, `[\\t\\n\\x0c\\r ]+`, `(?:[\\t-\\n]|\\f|\\r| )+` are one text), escapes resolved
    (`\\/\\/.*` = `//.*`); `.` is rendered with the DOTALL flag that applies"""
    sp = re._parser
    c = re._constants
    try:
        tree = sp.parse(pattern, flags)
    except Exception as ex:
        raise TranslationError(f"regular expression {pattern!r} does not parse: {ex}")
    eff = tree.state.flags | flags

    def one(op, av) -> str:
        if op is c.LITERAL:
            return f"set{{{av}}}" if not (eff & re.I) else f"iset{{{av}}}"
        if op is c.ANY:
            return "any" if eff & re.S else "any-but-newline"
        if op is c.NOT_LITERAL and av == 10 and not (eff & re.I):
            return "any-but-newline"          # `[^\\n]` is what `.` means without DOTALL
        if op is c.IN:
            pts = set()
            for o2, a2 in av:
                if o2 is c.LITERAL:
                    pts.add(a2)
                elif o2 is c.RANGE and a2[1] - a2[0] < 512:
                    pts.update(range(a2[0], a2[1] + 1))
                else:
                    return "in[" + ",".join(f"{o3}:{a3}" for o3, a3 in av) + "]"
            return ("iset{" if eff & re.I else "set{") + ",".join(str(x) for x in sorted(pts)) + "}"
        if op in (c.MAX_REPEAT, c.MIN_REPEAT):
            lo, hi, sub = av
            his = "inf" if hi is c.MAXREPEAT else str(hi)
            return ("rep" if op is c.MAX_REPEAT else "lazyrep") + f"({lo},{his})" + seq(sub)
        if op is c.SUBPATTERN:
            g, add, dele, sub = av
            if add or dele:
                return f"group-with-flags({add},{dele})" + seq(sub)
            return seq(sub) if len(sub) != 1 else one(*sub[0])      # capturing or not: lark only uses the whole match
        if op is c.BRANCH:
            alts = [seq(x) for x in av[1]]
            # single-character alternatives are a character class
            if all(re.fullmatch(r"\[set\{[0-9,]*\}\]", x) for x in alts):
                pts = sorted({int(n) for x in alts for n in re.findall(r"\d+", x)})
                return "set{" + ",".join(map(str, pts)) + "}"
            return "alt(" + "|".join(alts) + ")"
        return f"{op}:{av}"

    def seq(items) -> str:
        return "[" + " ".join(one(op, av) for op, av in items) + "]"
    return seq(tree)


def grammar_facts() -> Dict[str, Any]:
    import lark
    opts = lark_call_options()
    p, log = build_lark(opts)
    tn = {t.name: t for t in p.terminals}

    def tsrc(name: str, filtered: bool) -> str:
        t = tn[name]
        if filtered:
            if not isinstance(t.pattern, lark.lexer.PatternStr):
                raise TranslationError(f"filtered terminal {name} is not a string")
            return "'" + t.pattern.value + "'"
        return name

    def tsrc_any(name: str) -> str:
        return tsrc(name, name in filtered_names)

    def rname(n: str) -> str:
        return re.sub(r"_\d+$", "", n) if n.startswith("_") else n

    filtered_names = set()
    kept_names = set()
    prods = []
    for r in p.rules:
        if r.alias is not None or r.options.keep_all_tokens or r.options.expand1 or r.options.priority is not None:
            # (empty_indices only matter with maybe_placeholders=True; the bridge checks that option is False)
            raise TranslationError(f"rule {r.origin.name}: alias / ! / ? / priority / placeholders are outside the modelled subset")
        rhs = []
        for s in r.expansion:
            if isinstance(s, lark.grammar.Terminal):
                (filtered_names if s.filter_out else kept_names).add(s.name)
                rhs.append(tsrc(s.name, s.filter_out))
            else:
                rhs.append(rname(s.name))
        prods.append((rname(r.origin.name), rhs))
    if filtered_names & kept_names:
        raise TranslationError(f"terminals both kept and filtered: {sorted(filtered_names & kept_names)}")
    prods.sort()
    inline = sorted({a for a, _ in prods if a.startswith("_")})
    kept = sorted(kept_names)
    ignore = sorted(p.lexer_conf.ignore if hasattr(p, "lexer_conf") else p.ignore_tokens)
    ignore_pat = [(n, tn[n].pattern.to_regexp()) for n in ignore]
    gflags = int(p.options.g_regex_flags or 0)
    ignore_canon = []
    for n in ignore:
        pat = tn[n].pattern
        fl = gflags
        for ch in getattr(pat, "flags", ()) or ():
            fl |= {"i": re.I, "m": re.M, "s": re.S, "x": re.X, "u": re.U, "l": re.L}.get(ch, 0)
        ignore_canon.append((n, canon_regex(pat.value if isinstance(pat, lark.lexer.PatternRE) else re.escape(pat.value), fl)))
    prio = sorted((t.name if t.name in kept_names or t.name in ignore else tsrc_any(t.name), t.priority) for t in p.terminals)
    # string terminals the IDENT regex matches as a whole (lark's "unless" mechanism retypes these)
    ident = tn.get("IDENT")
    words = []
    if ident is not None:
        rx = re.compile(ident.pattern.to_regexp())
        for t in p.terminals:
            if isinstance(t.pattern, lark.lexer.PatternStr) and rx.fullmatch(t.pattern.value):
                words.append((t.pattern.value, tsrc_any(t.name)))
    words.sort()
    # accept sets of the LALR states accepting IDENT
    try:
        table = p.parser.parser.parser.parse_table
    except AttributeError:
        table = p.parser.parser._parse_table
    sets = set()
    for st, acts in table.states.items():
        acc = [a for a in acts.keys() if a in tn]
        if "IDENT" in acc:
            sets.add(tuple(sorted(tsrc_any(a) for a in acc)))
    conflicts = [m for m in log if "conflict" in m.lower()]
    return {"opts": opts, "prods": prods, "inline": inline, "kept": kept, "ignore": ignore, "ignore_pat": ignore_pat, "ignore_canon": ignore_canon, "prio": prio,
            "words": words, "accept": sorted(sets), "conflicts": conflicts, "lexer": str(p.options.lexer),
            "start": list(p.options.start)}


def gen_grammar() -> str:
    f = grammar_facts()
    amb = ambiguous_literals()
    o = f["opts"]
    cb = o.get("lexer_callbacks", "{}")
    # the callback table must attach ambiguous_literals to IDENT
    cbm = re.fullmatch(r"(?:\{\s*'IDENT'\s*:\s*(?:self|CELParser|cls|type\(self\))\.ambiguous_literals\s*\}"
                       r"|dict\(IDENT=(?:self|CELParser|cls|type\(self\))\.ambiguous_literals\))", cb)
    out = [HEADER.format(src="src/celpy/cel.lark (compiled by lark), src/celpy/celparser.py (Lark(...) options, ambiguous_literals)"),
           "namespace Cel.Gen.Grammar\n"]
    out.append("/-- BNF productions after lark's EBNF expansion: (rule, right-hand side); anonymous terminals quoted -/")
    out.append("def productions : List (String × List String) := [\n" + ",\n".join(
        f"  ({lean_str(a)}, {lean_list([lean_str(s) for s in rhs])})" for a, rhs in f["prods"]) + "\n]\n")
    out.append("/-- terminals kept in the tree (named), in contrast to filtered punctuation -/")
    out.append("def keptTerminals : List String := " + lean_list([lean_str(s) for s in f["kept"]]))
    out.append("/-- helper rules lark inlines into their parent -/")
    out.append("def inlineRules : List String := " + lean_list([lean_str(s) for s in f["inline"]]))
    out.append("def ignored : List String := " + lean_list([lean_str(s) for s in f["ignore"]]))
    out.append("/-- the regular expressions of the ignored terminals -/")
    out.append("def ignoredPatterns : List (String × String) := " + lean_list([f"({lean_str(a)}, {lean_str(b)})" for a, b in f["ignore_pat"]]))
    out.append("/-- the same, as Python's regex parser reads them (character classes as sorted code points) -/")
    out.append("def ignoredPatternsCanon : List (String × String) := " + lean_list([f"({lean_str(a)}, {lean_str(b)})" for a, b in f["ignore_canon"]]))
    out.append("def terminalPriorities : List (String × Int) := " + lean_list([f"({lean_str(n)}, {pr})" for n, pr in f["prio"]]))
    out.append("/-- string terminals matched as a whole by the IDENT regex -/")
    out.append("def wordStrTerminals : List (String × String) := " + lean_list([f"({lean_str(a)}, {lean_str(b)})" for a, b in f["words"]]))
    out.append("/-- terminal sets accepted by the LALR(1) states that accept IDENT -/")
    out.append("def identAcceptSets : List (List String) := [\n" + ",\n".join(
        "  " + lean_list([lean_str(s) for s in acc]) for acc in f["accept"]) + "\n]\n")
    out.append("/-- shift/reduce conflicts lark resolved while building the table (its debug log) -/")
    out.append(f"def shiftReduceConflicts : Nat := {len(f['conflicts'])}")
    out.append("/-- `CELParser.ambiguous_literals`: word ↦ new token type -/")
    out.append("def ambiguousLiterals : List (String × String) := " + lean_list([f"({lean_str(a)}, {lean_str(b)})" for a, b in amb]))
    out.append("def ambiguousLiteralsOnIdent : Bool := " + ("true" if cbm else "false"))
    keys = ["parser", "start", "maybe_placeholders", "priority", "lexer", "keep_all_tokens"]
    out.append("/-- keyword arguments of the `Lark(...)` call that shape the tree (source text of the value) -/")
    out.append("def larkOptions : List (String × String) := " + lean_list(
        [f"({lean_str(k)}, {lean_str(o[k])})" for k in keys if k in o]))
    out.append(f"def lexerKind : String := {lean_str(f['lexer'])}")
    out.append("def startSymbols : List String := " + lean_list([lean_str(s) for s in f["start"]]))
    out.append("\nend Cel.Gen.Grammar\n")
    return "\n".join(out)


GENERATORS = {"Grammar": gen_grammar}
