"""Generator for Gen/ResultCls.lean (C13): which Python class the result of each operator / function carries,
as celtypes.py and evaluation.py say NOW.

Extracted structurally:
  * for every wrapper class and every arithmetic dunder (`__add__ __sub__ __mul__ __truediv__ __mod__ __neg__` and
    the reflected variants): not defined in the class body (inherited from the native base: the result DEGRADES to
    the native class) / every path raises TypeError / the list of wrapper classes its `return` statements construct;
  * how evaluation.py builds the results of relations, `in`, `has()` (both runners), string predicates, `size`,
    the boolean macros (both runners), the logical operators, `map`/`filter`/list literals;
  * the conversion / type names of `base_functions`;
  * that every wrapper constructor returns an instance of its own class, and the shape of `TypeType.__new__`.
"""
from __future__ import annotations
import ast
import re
from typing import Dict, List, Optional

from .py2lean import TranslationError, find_class, find_func, strip_doc, is_logger_call, lean_list, lean_str
from .common import parse, HEADER
from .gen_c08 import WRAPPERS, class_methods, body_of, uncast, is_raise_typeerror, lean_bool, extract_boolean

AR = [("add", "add"), ("sub", "sub"), ("mul", "mul"), ("truediv", "div"), ("mod", "mod"), ("neg", "neg")]
CLS_TAG = dict(WRAPPERS)          # python class name -> Lean Cls tag
CLS_TAG["NoneType"] = "null"


def callee(e) -> Optional[str]:
    e = uncast(e)
    if isinstance(e, ast.Call):
        return ast.unparse(e.func)
    return None


def short(name: Optional[str]) -> Optional[str]:
    return name.split(".")[-1] if name else None


def all_returns(fn: ast.FunctionDef) -> List[ast.Return]:
    out = []

    def walk(node):
        for ch in ast.iter_child_nodes(node):
            if isinstance(ch, (ast.FunctionDef, ast.Lambda, ast.ClassDef)):
                continue
            if isinstance(ch, ast.Return):
                out.append(ch)
            walk(ch)
    walk(fn)
    return out


def ni_test(test):
    """`x is NotImplemented` / `x == NotImplemented` -> (x, True); `x is not NotImplemented` / `x != NotImplemented` ->
    (x, False); `not <test>` flips; anything else -> None"""
    if isinstance(test, ast.UnaryOp) and isinstance(test.op, ast.Not):
        r = ni_test(test.operand)
        return (r[0], not r[1]) if r else None
    if isinstance(test, ast.Compare) and len(test.ops) == 1:
        a, b = uncast(test.left), uncast(test.comparators[0])
        if isinstance(b, ast.Name) and b.id == "NotImplemented" and isinstance(a, ast.Name):
            name = a.id
        elif isinstance(a, ast.Name) and a.id == "NotImplemented" and isinstance(b, ast.Name):
            name = b.id
        else:
            return None
        if isinstance(test.ops[0], (ast.Eq, ast.Is)):
            return name, True
        if isinstance(test.ops[0], (ast.NotEq, ast.IsNot)):
            return name, False
    return None


def terminates(body: List[ast.stmt]) -> bool:
    return bool(body) and isinstance(body[-1], (ast.Return, ast.Raise))


def guarded_returns(body: List[ast.stmt], guards: frozenset = frozenset()):
    """every `return` reachable in the statement list, with the set of local names known to hold `NotImplemented`
    there (inside `if x is NotImplemented:`, in the `else` of / after a terminating `if x is not NotImplemented:`)"""
    out = []
    for st in body:
        if isinstance(st, (ast.FunctionDef, ast.Lambda, ast.ClassDef)):
            continue
        if isinstance(st, ast.Return):
            out.append((st, guards))
        elif isinstance(st, ast.If):
            t = ni_test(st.test)
            gb = guards | {t[0]} if t and t[1] else guards
            ge = guards | {t[0]} if t and not t[1] else guards
            out += guarded_returns(st.body, gb)
            out += guarded_returns(st.orelse, ge)
            if t and not t[1] and terminates(st.body) and not st.orelse:
                guards = guards | {t[0]}
        elif isinstance(st, (ast.Assign, ast.AnnAssign, ast.AugAssign)):
            tgt = st.targets[0] if isinstance(st, ast.Assign) else st.target
            if isinstance(tgt, ast.Name):
                guards = guards - {tgt.id}          # re-bound: no longer known
        else:
            for fld in ("body", "orelse", "finalbody"):
                sub = getattr(st, fld, None)
                if isinstance(sub, list) and sub and isinstance(sub[0], ast.stmt):
                    out += guarded_returns(sub, guards)
            for h in getattr(st, "handlers", []) or []:
                out += guarded_returns(h.body, guards)
    return out


def local_assignments(fn: ast.FunctionDef) -> Dict[str, List[ast.AST]]:
    out: Dict[str, List[ast.AST]] = {}
    for node in ast.walk(fn):
        if isinstance(node, ast.Assign) and len(node.targets) == 1 and isinstance(node.targets[0], ast.Name):
            out.setdefault(node.targets[0].id, []).append(node.value)
        elif isinstance(node, ast.AnnAssign) and isinstance(node.target, ast.Name) and node.value is not None:
            out.setdefault(node.target.id, []).append(node.value)
        elif isinstance(node, (ast.AugAssign, ast.For, ast.With, ast.NamedExpr)):
            for n in ast.walk(node.target if hasattr(node, "target") else node):
                if isinstance(n, ast.Name) and isinstance(n.ctx, ast.Store):
                    out.setdefault(n.id, []).append(None)      # bound in a way this extractor does not follow
    return out


class ClassesOf:
    """Which wrapper classes the values RETURNED by a dunder are instances of (in source order), following
    `cast(…)`, locals a result is bound to before it is returned, conditional expressions, and ONE level of calls to a
    module-level helper function or to a method of the same class (`self._helper(…)`), whose own returns are
    classified the same way.  `NotImplemented` (spelled out, or a local under a guard that says it is
    `NotImplemented`) is passed on and contributes no class.  Anything else -- a raw `super().__op__(…)` result, a
    parameter, an unknown call -- is outside the subset: TranslationError (handled like a broken bridge)."""

    def __init__(self, mod: ast.Module, cls: Optional[ast.ClassDef], where: str):
        self.mod, self.cls, self.where = mod, cls, where

    def helper(self, call: ast.Call) -> Optional[ast.FunctionDef]:
        f = call.func
        if isinstance(f, ast.Name):
            for st in self.mod.body:
                if isinstance(st, ast.FunctionDef) and st.name == f.id:
                    return st
        if isinstance(f, ast.Attribute) and isinstance(f.value, ast.Name) and f.value.id in ("self", "cls") and self.cls is not None:
            m = class_methods(self.cls).get(f.attr)
            if isinstance(m, ast.FunctionDef):
                return m
        return None

    def of_function(self, fn: ast.FunctionDef, depth: int) -> List[str]:
        assigned = local_assignments(fn)
        params = {a.arg for a in fn.args.args + fn.args.kwonlyargs + fn.args.posonlyargs}
        rets = guarded_returns(fn.body)
        if not rets:
            raise TranslationError(f"{self.where}: {fn.name} has no return")
        classes: List[str] = []
        for r, guards in rets:
            if r.value is None:
                raise TranslationError(f"{self.where}: bare return in {fn.name}")
            for c in self.of_expr(r.value, fn, assigned, params, guards, depth, ()):
                if c not in classes:
                    classes.append(c)
        return classes

    def of_expr(self, e, fn, assigned, params, guards, depth, seen) -> List[str]:
        e = uncast(e)
        if isinstance(e, ast.Name):
            if e.id == "NotImplemented" or e.id in guards:
                return []
            if e.id in assigned and e.id not in params and e.id not in seen and len(seen) < 3:
                out: List[str] = []
                for v in assigned[e.id]:
                    if v is None:
                        raise TranslationError(f"{self.where}: {e.id} is bound outside the subset")
                    out += self.of_expr(v, fn, assigned, params, frozenset(), depth, seen + (e.id,))
                return out
            raise TranslationError(f"{self.where}: returns {e.id!r}, whose class is not known")
        if isinstance(e, ast.IfExp):
            t = ni_test(e.test)
            gb = guards | {t[0]} if t and t[1] else guards
            ge = guards | {t[0]} if t and not t[1] else guards
            return (self.of_expr(e.body, fn, assigned, params, gb, depth, seen)
                    + self.of_expr(e.orelse, fn, assigned, params, ge, depth, seen))
        if isinstance(e, ast.Call):
            c = short(ast.unparse(e.func))
            if c in CLS_TAG and c != "NoneType":
                return [CLS_TAG[c]]
            h = self.helper(e)
            if h is not None and depth < 1 and h is not fn:
                return self.of_function(h, depth + 1)
        raise TranslationError(f"{self.where}: return outside the subset: {ast.unparse(e)[:80]!r}")


def classify_arith(clsname: str, cls: ast.ClassDef, dunder: str, mod: Optional[ast.Module] = None):
    ms = class_methods(cls)
    if dunder not in ms:
        return "inherit", []
    fn = ms[dunder]
    if not isinstance(fn, ast.FunctionDef):
        raise TranslationError(f"{clsname}.{dunder} is an alias")
    body = body_of(fn)
    if not all_returns(fn):
        if body and all(is_raise_typeerror(s) for s in body):
            return "raises", []
        raise TranslationError(f"{clsname}.{dunder}: no return and not a plain raise TypeError")
    return "returns", ClassesOf(mod if mod is not None else ast.Module(body=[], type_ignores=[]), cls,
                                f"{clsname}.{dunder}").of_function(fn, 0)


def returns_built_by(fn: ast.FunctionDef, ctor: str, passthrough_ok=True, mod: Optional[ast.Module] = None, _depth=0) -> bool:
    """every value the function returns is `ctor(…)`, an error object (`CELEvalError(…)`, possibly via a variable or a
    parameter guarded by isinstance(…, CELEvalError)), a local variable only ever assigned such values, a conditional
    expression whose two arms are such values, or the result of ONE level of a module-level helper function all of
    whose returns are such values (the helper's own parameters do not count)"""
    params = {a.arg for a in fn.args.args}
    assigned: Dict[str, List[ast.AST]] = {}
    for node in ast.walk(fn):
        if isinstance(node, ast.Assign) and len(node.targets) == 1 and isinstance(node.targets[0], ast.Name):
            assigned.setdefault(node.targets[0].id, []).append(node.value)
        if isinstance(node, ast.AnnAssign) and isinstance(node.target, ast.Name) and node.value is not None:
            assigned.setdefault(node.target.id, []).append(node.value)
        if isinstance(node, ast.ExceptHandler) and node.name:
            assigned.setdefault(node.name, []).append(ast.Call(func=ast.Name(id="CELEvalError"), args=[], keywords=[]))

    def ok(e, depth=0) -> bool:
        e = uncast(e)
        if isinstance(e, ast.IfExp):
            return ok(e.body, depth) and ok(e.orelse, depth)
        c = short(callee(e))
        if c == ctor:
            return True
        if c == "CELEvalError":
            return True
        if isinstance(e, ast.Name):
            if e.id in params:
                return passthrough_ok
            if e.id in assigned and depth < 3:
                return all(ok(v, depth + 1) for v in assigned[e.id])
        if isinstance(e, ast.Call) and isinstance(e.func, ast.Name) and mod is not None and _depth < 1:
            for st in mod.body:
                if isinstance(st, ast.FunctionDef) and st.name == e.func.id and st is not fn:
                    return returns_built_by(st, ctor, passthrough_ok=False, mod=mod, _depth=_depth + 1)
        return False
    rets = all_returns(fn)
    return bool(rets) and all(r.value is not None and ok(r.value) for r in rets)


def has_template_wraps(ev: ast.Module) -> bool:
    cls = find_class(ev, "Phase1Transpiler")
    fn = find_func(cls.body, "ident_arg")
    for node in ast.walk(fn):
        if isinstance(node, ast.Constant) and isinstance(node.value, str) and "ident_arg has:" in node.value:
            m = re.search(r"^\s*ex_\$\{n\} = lambda activation: (.*)$", node.value, re.M)
            if not m:
                raise TranslationError("has() template: lambda line not found")
            return m.group(1).strip().startswith("celpy.celtypes.BoolType(")
    raise TranslationError("has() template not found")


def macro_branch(fn: ast.FunctionDef, name: str) -> List[ast.stmt]:
    """body of the `if/elif method_name_token.value == "<name>":` branch of Evaluator.member_dot_arg"""
    for node in ast.walk(fn):
        if isinstance(node, ast.If) and isinstance(node.test, ast.Compare) and len(node.test.ops) == 1 \
                and isinstance(node.test.ops[0], ast.Eq) and isinstance(node.test.comparators[0], ast.Constant) \
                and node.test.comparators[0].value == name and ast.unparse(node.test.left).endswith(".value"):
            return node.body
    raise TranslationError(f"member_dot_arg: no branch for {name!r}")


def branch_returns(body: List[ast.stmt]) -> List[ast.Return]:
    out = []
    for st in body:
        for node in ast.walk(st):
            if isinstance(node, ast.Return):
                out.append(node)
    return out


def interp_macros_wrap(ev: ast.Module) -> bool:
    """interpreter all / exists: the fold starts from BoolType(True/False) and its result is what is returned;
    exists_one: EVERY value path returns BoolType(…) (an error path returns the caught exception object)"""
    cls = find_class(ev, "Evaluator")
    fn = find_func(cls.body, "member_dot_arg")
    ok = True
    for name, seed in (("all", "celpy.celtypes.BoolType(True)"), ("exists", "celpy.celtypes.BoolType(False)")):
        body = macro_branch(fn, name)
        red = [n for st in body for n in ast.walk(st) if isinstance(n, ast.Call) and ast.unparse(n.func) == "reduce" and len(n.args) == 3]
        if len(red) != 1 or ast.unparse(red[0].args[2]) != seed:
            return False
        assigned = {ast.unparse(st.targets[0]) for st in body if isinstance(st, ast.Assign) and st.value is red[0]}
        for r in branch_returns(body):
            v = uncast(r.value) if r.value is not None else None
            if not (v is red[0] or (isinstance(v, ast.Name) and v.id in assigned)):
                ok = False
    body = macro_branch(fn, "exists_one")
    handlers = {h.name for st in body for n in ast.walk(st) if isinstance(n, ast.Try) for h in n.handlers if h.name}
    rets = branch_returns(body)
    if not rets:
        return False
    for r in rets:
        v = uncast(r.value) if r.value is not None else None
        if short(callee(v)) == "BoolType" or (isinstance(v, ast.Name) and v.id in handlers) or short(callee(v)) == "CELEvalError":
            continue
        ok = False
    return ok


def list_results_wrap(ev: ast.Module) -> bool:
    ok = True
    for name in ("macro_map", "macro_filter"):
        fn = find_func(ev.body, name)
        ok = ok and returns_built_by(fn, "ListType", passthrough_ok=False, mod=ev)
    cls = find_class(ev, "Evaluator")
    mda = find_func(cls.body, "member_dot_arg")
    for name in ("map", "filter"):
        body = macro_branch(mda, name)
        handlers = {h.name for st in body for n in ast.walk(st) if isinstance(n, ast.Try) for h in n.handlers if h.name}
        assigned: Dict[str, list] = {}
        for st in body:
            for n in ast.walk(st):
                if isinstance(n, ast.Assign) and len(n.targets) == 1 and isinstance(n.targets[0], ast.Name):
                    assigned.setdefault(n.targets[0].id, []).append(n.value)
        rets = branch_returns(body)
        ok = ok and bool(rets)
        for r in rets:
            v = uncast(r.value) if r.value is not None else None
            if short(callee(v)) == "ListType":
                continue
            if isinstance(v, ast.Name) and v.id in assigned and all(
                    short(callee(x)) == "ListType" or (isinstance(uncast(x), ast.Name) and uncast(x).id in handlers) for x in assigned[v.id]):
                continue
            ok = False
    # Evaluator.exprlist: the value path ends in `ListType(values)` (the other return hands an error element on)
    ex = find_func(cls.body, "exprlist")
    rets = all_returns(ex)
    last = rets[-1] if rets else None
    built = False
    if last is not None and last.value is not None:
        v = uncast(last.value)
        if short(callee(v)) == "ListType":
            built = True
        elif isinstance(v, ast.Name):
            vals = [n.value for n in ast.walk(ex) if isinstance(n, ast.Assign) and ast.unparse(n.targets[0]) == v.id]
            built = bool(vals) and all(short(callee(x)) == "ListType" for x in vals)
    ok = ok and built
    tcls = find_class(ev, "Phase1Transpiler")
    ok = ok and "celpy.celtypes.ListType([" in ast.unparse(find_func(tcls.body, "list_lit"))
    return ok


ACCESSORS = ["getDate", "getDayOfMonth", "getDayOfWeek", "getDayOfYear", "getFullYear", "getMonth", "getHours",
             "getMilliseconds", "getMinutes", "getSeconds"]
DURATION_ACCESSORS = ["getHours", "getMilliseconds", "getMinutes", "getSeconds"]


def method_returns_int(cls: ast.ClassDef, name: str) -> bool:
    fn = class_methods(cls).get(name)
    if not isinstance(fn, ast.FunctionDef):
        return False
    rets = all_returns(fn)
    return bool(rets) and all(r.value is not None and short(callee(r.value)) == "IntType" for r in rets)


def accessors_wrap(m: ast.Module, ev: ast.Module) -> bool:
    """every accessor reachable from CEL hands back IntType(…): `function_getX` wraps its result, or it returns
    `<first parameter>.getX(…)` and the celtypes methods of that name (TimestampType, and DurationType where it has
    one) construct IntType on every return"""
    ts, dur = find_class(m, "TimestampType"), find_class(m, "DurationType")
    for name in ACCESSORS:
        fn = find_func(ev.body, f"function_{name}")
        if returns_built_by(fn, "IntType", passthrough_ok=False, mod=ev):
            continue
        params = [a.arg for a in fn.args.args]
        rets = all_returns(fn)
        delegated = bool(rets) and all(
            r.value is not None and isinstance(uncast(r.value), ast.Call) and isinstance(uncast(r.value).func, ast.Attribute)
            and uncast(r.value).func.attr == name and ast.unparse(uncast(r.value).func.value) == params[0] for r in rets)
        if not delegated:
            return False
        if not method_returns_int(ts, name):
            return False
        if name in DURATION_ACCESSORS and not method_returns_int(dur, name):
            return False
    return True


def new_returns_self(clsname: str, cls: ast.ClassDef) -> bool:
    ms = class_methods(cls)
    if "__new__" not in ms:
        return True                      # the native base's __new__ builds an instance of the subclass
    fn = ms["__new__"]
    if not isinstance(fn, ast.FunctionDef):
        return False
    params = [a.arg for a in fn.args.args]
    clsparam = params[0]
    selfvars = set()

    def builds_self(e) -> bool:
        e = uncast(e)
        if isinstance(e, ast.Call):
            f = e.func
            # super().__new__(cls, …)
            if isinstance(f, ast.Attribute) and f.attr == "__new__" and ast.unparse(f.value) == "super()" \
                    and e.args and ast.unparse(e.args[0]) == clsparam:
                return True
            # x.replace(…) on something that is already an instance
            if isinstance(f, ast.Attribute) and f.attr == "replace" and isinstance(f.value, ast.Name) and f.value.id in selfvars:
                return True
        if isinstance(e, ast.Name) and e.id in selfvars:
            return True
        return False
    guarded = set()
    for node in ast.walk(fn):
        if isinstance(node, (ast.Assign, ast.AnnAssign)):
            tgt = node.targets[0] if isinstance(node, ast.Assign) else node.target
            if isinstance(tgt, ast.Name) and node.value is not None and builds_self(node.value):
                selfvars.add(tgt.id)
        if isinstance(node, ast.If):
            t = node.test
            if isinstance(t, ast.Call) and ast.unparse(t.func) == "isinstance" and len(t.args) == 2 \
                    and short(ast.unparse(t.args[1])) == clsname and isinstance(t.args[0], ast.Name):
                for st in node.body:
                    if isinstance(st, ast.Return) and ast.unparse(uncast(st.value)) == t.args[0].id:
                        guarded.add(id(st))
    for r in all_returns(fn):
        if id(r) in guarded:
            continue
        if r.value is None or not builds_self(r.value):
            return False
    return True


class _Subst(ast.NodeTransformer):
    def __init__(self, env):
        self.env = env

    def visit_Name(self, node):
        if isinstance(node.ctx, ast.Load) and node.id in self.env:
            return self.env[node.id]
        return node


def _norm_test(t):
    """-> (canonical text, negated?)  `not X`, `a is not b`, `a != b` are the negations of `X`, `a is b`, `a == b`;
    the two sides of `is` / `==` are ordered textually"""
    neg = False
    while isinstance(t, ast.UnaryOp) and isinstance(t.op, ast.Not):
        t, neg = t.operand, not neg
    if isinstance(t, ast.Compare) and len(t.ops) == 1 and isinstance(t.ops[0], (ast.Is, ast.IsNot, ast.Eq, ast.NotEq)):
        a, b = sorted([ast.unparse(uncast(t.left)), ast.unparse(uncast(t.comparators[0]))])
        if isinstance(t.ops[0], (ast.IsNot, ast.NotEq)):
            neg = not neg
        sym = "is" if isinstance(t.ops[0], (ast.Is, ast.IsNot)) else "=="
        return f"{a} {sym} {b}", neg
    return ast.unparse(t), neg


def decision_tree(stmts: List[ast.stmt], env=None):
    """The function body as a decision tree ("ret", text) | ("if", test, then, else) | ("raise", text), independent of
    how it is spelled: early returns vs. else chains vs. conditional expressions, negated tests with the arms
    swapped, single-assignment locals that only name a sub-expression (substituted).  None = outside the subset."""
    env = dict(env or {})

    def expr_tree(e):
        e = uncast(e)
        if isinstance(e, ast.IfExp):
            t, neg = _norm_test(_Subst(env).visit(_copy(e.test)))
            a, b = expr_tree(e.body), expr_tree(e.orelse)
            return ("if", t, b, a) if neg else ("if", t, a, b)
        return ("ret", ast.unparse(uncast(_Subst(env).visit(_copy(e)))))

    for i, st in enumerate(stmts):
        if is_logger_call(st) or (isinstance(st, ast.Expr) and isinstance(st.value, ast.Constant)) or isinstance(st, ast.Pass):
            continue
        if isinstance(st, (ast.Assign, ast.AnnAssign)):
            tgt = st.targets[0] if isinstance(st, ast.Assign) and len(st.targets) == 1 else getattr(st, "target", None)
            if not isinstance(tgt, ast.Name) or st.value is None or tgt.id in env:
                return None
            env[tgt.id] = _Subst(env).visit(_copy(uncast(st.value)))
            continue
        if isinstance(st, ast.Return):
            return expr_tree(st.value) if st.value is not None else ("ret", "None")
        if isinstance(st, ast.Raise):
            return ("raise", ast.unparse(st.exc) if st.exc is not None else "")
        if isinstance(st, ast.If):
            rest = stmts[i + 1:]
            t, neg = _norm_test(_Subst(env).visit(_copy(st.test)))
            a = decision_tree(list(st.body) + ([] if terminates(st.body) else rest), env)
            b = decision_tree(list(st.orelse) + ([] if terminates(st.orelse) else rest), env)
            if a is None or b is None:
                return None
            return ("if", t, b, a) if neg else ("if", t, a, b)
        return None
    return None


def _copy(node):
    import copy
    return copy.deepcopy(node)


def type_type_shape(cls: ast.ClassDef) -> bool:
    """`TypeType.__new__(typ, instance)` decides: `type(instance) is type` -> `typ`, otherwise `type(instance)` — however
    it is spelled (early return / else / conditional expression / negated test / a local naming `type(instance)`)"""
    fn = class_methods(cls).get("__new__")
    if not isinstance(fn, ast.FunctionDef):
        return False
    params = [a.arg for a in fn.args.args]
    if len(params) != 2:
        return False
    typ, inst = params
    tree = decision_tree(body_of(fn))
    test, _ = _norm_test(ast.parse(f"type({inst}) is type", mode="eval").body)
    return tree == ("if", test, ("ret", typ), ("ret", f"type({inst})"))


def gen_resultcls() -> str:
    m = parse("src/celpy/celtypes.py")
    ev = parse("src/celpy/evaluation.py")
    out = [HEADER.format(src="src/celpy/celtypes.py (arithmetic dunders, constructors, TypeType), src/celpy/evaluation.py (result wrapping, base_functions)"),
           "import Cel.Model.Typing\nnamespace Cel.Gen\nopen Cel\n"]
    rows = []
    for clsname, tag in WRAPPERS:
        if tag == "type":
            continue
        cls = find_class(m, clsname)
        for pyname, op in AR:
            for refl in (False, True):
                if op == "neg" and refl:
                    continue
                dunder = f"__{'r' if refl else ''}{pyname}__"
                kind, classes = classify_arith(clsname, cls, dunder, m)
                if kind == "inherit":
                    continue
                if kind == "raises":
                    rows.append(f"  | .{tag}, .{op}, {lean_bool(refl)} => .raises")
                else:
                    rows.append(f"  | .{tag}, .{op}, {lean_bool(refl)} => .returns [" + ", ".join("." + c for c in classes) + "]")
    out.append("def resTable : ResTable\n" + "\n".join(rows) + "\n  | _, _, _ => .inherit\n")
    # wrapping of results in evaluation.py
    _, rel_wraps = extract_boolean(ev)
    evcls = find_class(ev, "Evaluator")
    spec = [
        rel_wraps,
        returns_built_by(find_func(ev.body, "operator_in"), "BoolType", mod=ev),
        returns_built_by(find_func(evcls.body, "macro_has_eval"), "BoolType", passthrough_ok=False, mod=ev),
        has_template_wraps(ev),
        all(returns_built_by(find_func(ev.body, f), "BoolType", passthrough_ok=False, mod=ev)
            for f in ("function_startsWith", "function_endsWith", "function_contains", "function_matches")),
        returns_built_by(find_func(ev.body, "function_size"), "IntType", passthrough_ok=False, mod=ev),
        interp_macros_wrap(ev),
        all(returns_built_by(find_func(ev.body, f), "BoolType", passthrough_ok=False, mod=ev)
            for f in ("macro_all", "macro_exists", "macro_exists_one")),
        all(returns_built_by(find_func(m.body, f), "BoolType", mod=m) for f in ("logical_and", "logical_or", "logical_not")),
        list_results_wrap(ev),
        accessors_wrap(m, ev),
    ]
    out.append("def wrapSpec : WrapSpec := ⟨" + ", ".join(lean_bool(b) for b in spec) + "⟩\n")
    # base_functions: conversion and type names
    base = None
    for st in ev.body:
        tgt = st.target if isinstance(st, ast.AnnAssign) else (st.targets[0] if isinstance(st, ast.Assign) else None)
        if tgt is not None and ast.unparse(tgt) == "base_functions" and isinstance(st.value, ast.Dict):
            base = {ast.literal_eval(k): ast.unparse(v) for k, v in zip(st.value.keys, st.value.values)}
    if base is None:
        raise TranslationError("base_functions not found")
    conv = []
    for name in sorted(base):
        v = base[name]
        c = "NoneType" if v == "type(None)" else short(v)
        if v.startswith("celpy.celtypes.") or v == "type(None)":
            if c == "TypeType":
                if name != "type":
                    raise TranslationError(f"base_functions[{name!r}] is TypeType")
                continue
            if c in CLS_TAG:
                conv.append(f"({lean_str(name)}, .{CLS_TAG[c]})")
    out.append("def convTable : List (String × Cls) := " + lean_list(conv))
    tt = base.get("type")
    out.append(f"def typeFunctionIsTypeType : Bool := {lean_bool(tt == 'celpy.celtypes.TypeType')}")
    out.append("def typeNames : List (String × Cls) := convTable ++ [(\"type\", .type)]\n")
    news = []
    for clsname, tag in WRAPPERS:
        if tag == "type":
            continue
        news.append(f"({lean_str(tag)}, {lean_bool(new_returns_self(clsname, find_class(m, clsname)))})")
    out.append("/-- every `return` of the wrapper's `__new__` is `super().__new__(cls, …)` (or an argument already known to be an instance) -/")
    out.append("def newReturnsSelf : List (String × Bool) := " + lean_list(news))
    out.append(f"def typeTypeShape : Bool := {lean_bool(type_type_shape(find_class(m, 'TypeType')))}")
    out.append("\nend Cel.Gen\n")
    return "\n".join(out)


GENERATORS = {"ResultCls": gen_resultcls}
