"""Generator for Gen/ResultCls.lean (C13): which Python class the result of each operator / function carries,
as celtypes.py and evaluation.py say NOW.

Extracted structurally:
  * for every wrapper class and every arithmetic dunder (`__add__ __sub__ __mul__ __truediv__ __mod__ __neg__` and
    the reflected variants): not defined in the class body (inherited from the native base: the result DEGRADES to
    the native class) / every path raises TypeError / the list of wrapper classes its `return` statements construct;
  * how evaluation.py builds the results of relations, `in`, `has()` (both runners), string predicates, `size`,
    the boolean macros (both runners), the logical operators, `map`/`filter`/list literals;
  * the conversion / type names of `base_functions`;
  * that every wrapper constructor returns an instance of its own class, and the shape of `TypeType.__new__`.
"""
from __future__ import annotations
import ast
import re
from typing import Dict, List, Optional

from .py2lean import TranslationError, find_class, find_func, strip_doc, is_logger_call, lean_list, lean_str
from .common import parse, HEADER
from .gen_c08 import WRAPPERS, class_methods, body_of, uncast, is_raise_typeerror, lean_bool, extract_boolean

AR = [("add", "add"), ("sub", "sub"), ("mul", "mul"), ("truediv", "div"), ("mod", "mod"), ("neg", "neg")]
CLS_TAG = dict(WRAPPERS)          # python class name -> Lean Cls tag
CLS_TAG["NoneType"] = "null"


def callee(e) -> Optional[str]:
    e = uncast(e)
    if isinstance(e, ast.Call):
        return ast.unparse(e.func)
    return None


def short(name: Optional[str]) -> Optional[str]:
    return name.split(".")[-1] if name else None


def all_returns(fn: ast.FunctionDef) -> List[ast.Return]:
    out = []

    def walk(node):
        for ch in ast.iter_child_nodes(node):
            if isinstance(ch, (ast.FunctionDef, ast.Lambda, ast.ClassDef)):
                continue
            if isinstance(ch, ast.Return):
                out.append(ch)
            walk(ch)
    walk(fn)
    return out


def not_implemented_vars(fn: ast.FunctionDef) -> set:
    """names tested `x == NotImplemented` / `x is NotImplemented` (their guarded return passes NotImplemented on)"""
    names = set()
    for node in ast.walk(fn):
        if isinstance(node, ast.Compare) and len(node.ops) == 1 and isinstance(node.ops[0], (ast.Eq, ast.Is)) \
                and ast.unparse(node.comparators[0]) == "NotImplemented" and isinstance(node.left, ast.Name):
            names.add(node.left.id)
    return names


def classify_arith(clsname: str, cls: ast.ClassDef, dunder: str):
    ms = class_methods(cls)
    if dunder not in ms:
        return "inherit", []
    fn = ms[dunder]
    if not isinstance(fn, ast.FunctionDef):
        raise TranslationError(f"{clsname}.{dunder} is an alias")
    body = body_of(fn)
    rets = all_returns(fn)
    if not rets:
        if body and all(is_raise_typeerror(s) for s in body):
            return "raises", []
        raise TranslationError(f"{clsname}.{dunder}: no return and not a plain raise TypeError")
    ni = not_implemented_vars(fn)
    classes: List[str] = []
    for r in rets:
        v = uncast(r.value) if r.value is not None else None
        if v is None:
            raise TranslationError(f"{clsname}.{dunder}: bare return")
        if isinstance(v, ast.Name) and (v.id == "NotImplemented" or v.id in ni):
            continue
        c = short(callee(v))
        if c in CLS_TAG:
            if CLS_TAG[c] not in classes:
                classes.append(CLS_TAG[c])
            continue
        raise TranslationError(f"{clsname}.{dunder}: return outside the subset: {ast.unparse(r)[:80]!r}")
    return "returns", classes


def returns_built_by(fn: ast.FunctionDef, ctor: str, passthrough_ok=True) -> bool:
    """every value the function returns is `ctor(…)`, an error object (`CELEvalError(…)`, possibly via a variable or a
    parameter guarded by isinstance(…, CELEvalError)), or a local variable only ever assigned such values"""
    params = {a.arg for a in fn.args.args}
    assigned: Dict[str, List[ast.AST]] = {}
    for node in ast.walk(fn):
        if isinstance(node, ast.Assign) and len(node.targets) == 1 and isinstance(node.targets[0], ast.Name):
            assigned.setdefault(node.targets[0].id, []).append(node.value)
        if isinstance(node, ast.AnnAssign) and isinstance(node.target, ast.Name) and node.value is not None:
            assigned.setdefault(node.target.id, []).append(node.value)
        if isinstance(node, ast.ExceptHandler) and node.name:
            assigned.setdefault(node.name, []).append(ast.Call(func=ast.Name(id="CELEvalError"), args=[], keywords=[]))

    def ok(e, depth=0) -> bool:
        e = uncast(e)
        c = short(callee(e))
        if c == ctor:
            return True
        if c == "CELEvalError":
            return True
        if isinstance(e, ast.Name):
            if e.id in params:
                return passthrough_ok
            if e.id in assigned and depth < 3:
                return all(ok(v, depth + 1) for v in assigned[e.id])
        return False
    rets = all_returns(fn)
    return bool(rets) and all(r.value is not None and ok(r.value) for r in rets)


def has_template_wraps(ev: ast.Module) -> bool:
    cls = find_class(ev, "Phase1Transpiler")
    fn = find_func(cls.body, "ident_arg")
    for node in ast.walk(fn):
        if isinstance(node, ast.Constant) and isinstance(node.value, str) and "ident_arg has:" in node.value:
            m = re.search(r"^\s*ex_\$\{n\} = lambda activation: (.*)$", node.value, re.M)
            if not m:
                raise TranslationError("has() template: lambda line not found")
            return m.group(1).strip().startswith("celpy.celtypes.BoolType(")
    raise TranslationError("has() template not found")


def macro_branch(fn: ast.FunctionDef, name: str) -> List[ast.stmt]:
    """body of the `if/elif method_name_token.value == "<name>":` branch of Evaluator.member_dot_arg"""
    for node in ast.walk(fn):
        if isinstance(node, ast.If) and isinstance(node.test, ast.Compare) and len(node.test.ops) == 1 \
                and isinstance(node.test.ops[0], ast.Eq) and isinstance(node.test.comparators[0], ast.Constant) \
                and node.test.comparators[0].value == name and ast.unparse(node.test.left).endswith(".value"):
            return node.body
    raise TranslationError(f"member_dot_arg: no branch for {name!r}")


def branch_returns(body: List[ast.stmt]) -> List[ast.Return]:
    out = []
    for st in body:
        for node in ast.walk(st):
            if isinstance(node, ast.Return):
                out.append(node)
    return out


def interp_macros_wrap(ev: ast.Module) -> bool:
    """interpreter all / exists: the fold starts from BoolType(True/False) and its result is what is returned;
    exists_one: EVERY value path returns BoolType(…) (an error path returns the caught exception object)"""
    cls = find_class(ev, "Evaluator")
    fn = find_func(cls.body, "member_dot_arg")
    ok = True
    for name, seed in (("all", "celpy.celtypes.BoolType(True)"), ("exists", "celpy.celtypes.BoolType(False)")):
        body = macro_branch(fn, name)
        red = [n for st in body for n in ast.walk(st) if isinstance(n, ast.Call) and ast.unparse(n.func) == "reduce" and len(n.args) == 3]
        if len(red) != 1 or ast.unparse(red[0].args[2]) != seed:
            return False
        assigned = {ast.unparse(st.targets[0]) for st in body if isinstance(st, ast.Assign) and st.value is red[0]}
        for r in branch_returns(body):
            v = uncast(r.value) if r.value is not None else None
            if not (v is red[0] or (isinstance(v, ast.Name) and v.id in assigned)):
                ok = False
    body = macro_branch(fn, "exists_one")
    handlers = {h.name for st in body for n in ast.walk(st) if isinstance(n, ast.Try) for h in n.handlers if h.name}
    rets = branch_returns(body)
    if not rets:
        return False
    for r in rets:
        v = uncast(r.value) if r.value is not None else None
        if short(callee(v)) == "BoolType" or (isinstance(v, ast.Name) and v.id in handlers) or short(callee(v)) == "CELEvalError":
            continue
        ok = False
    return ok


def list_results_wrap(ev: ast.Module) -> bool:
    ok = True
    for name in ("macro_map", "macro_filter"):
        fn = find_func(ev.body, name)
        ok = ok and returns_built_by(fn, "ListType", passthrough_ok=False)
    cls = find_class(ev, "Evaluator")
    mda = find_func(cls.body, "member_dot_arg")
    for name in ("map", "filter"):
        body = macro_branch(mda, name)
        handlers = {h.name for st in body for n in ast.walk(st) if isinstance(n, ast.Try) for h in n.handlers if h.name}
        assigned: Dict[str, list] = {}
        for st in body:
            for n in ast.walk(st):
                if isinstance(n, ast.Assign) and len(n.targets) == 1 and isinstance(n.targets[0], ast.Name):
                    assigned.setdefault(n.targets[0].id, []).append(n.value)
        rets = branch_returns(body)
        ok = ok and bool(rets)
        for r in rets:
            v = uncast(r.value) if r.value is not None else None
            if short(callee(v)) == "ListType":
                continue
            if isinstance(v, ast.Name) and v.id in assigned and all(
                    short(callee(x)) == "ListType" or (isinstance(uncast(x), ast.Name) and uncast(x).id in handlers) for x in assigned[v.id]):
                continue
            ok = False
    # Evaluator.exprlist: the value path ends in `ListType(values)` (the other return hands an error element on)
    ex = find_func(cls.body, "exprlist")
    rets = all_returns(ex)
    last = rets[-1] if rets else None
    built = False
    if last is not None and last.value is not None:
        v = uncast(last.value)
        if short(callee(v)) == "ListType":
            built = True
        elif isinstance(v, ast.Name):
            vals = [n.value for n in ast.walk(ex) if isinstance(n, ast.Assign) and ast.unparse(n.targets[0]) == v.id]
            built = bool(vals) and all(short(callee(x)) == "ListType" for x in vals)
    ok = ok and built
    tcls = find_class(ev, "Phase1Transpiler")
    ok = ok and "celpy.celtypes.ListType([" in ast.unparse(find_func(tcls.body, "list_lit"))
    return ok


ACCESSORS = ["getDate", "getDayOfMonth", "getDayOfWeek", "getDayOfYear", "getFullYear", "getMonth", "getHours",
             "getMilliseconds", "getMinutes", "getSeconds"]
DURATION_ACCESSORS = ["getHours", "getMilliseconds", "getMinutes", "getSeconds"]


def method_returns_int(cls: ast.ClassDef, name: str) -> bool:
    fn = class_methods(cls).get(name)
    if not isinstance(fn, ast.FunctionDef):
        return False
    rets = all_returns(fn)
    return bool(rets) and all(r.value is not None and short(callee(r.value)) == "IntType" for r in rets)


def accessors_wrap(m: ast.Module, ev: ast.Module) -> bool:
    """every accessor reachable from CEL hands back IntType(…): `function_getX` wraps its result, or it returns
    `<first parameter>.getX(…)` and the celtypes methods of that name (TimestampType, and DurationType where it has
    one) construct IntType on every return"""
    ts, dur = find_class(m, "TimestampType"), find_class(m, "DurationType")
    for name in ACCESSORS:
        fn = find_func(ev.body, f"function_{name}")
        if returns_built_by(fn, "IntType", passthrough_ok=False):
            continue
        params = [a.arg for a in fn.args.args]
        rets = all_returns(fn)
        delegated = bool(rets) and all(
            r.value is not None and isinstance(uncast(r.value), ast.Call) and isinstance(uncast(r.value).func, ast.Attribute)
            and uncast(r.value).func.attr == name and ast.unparse(uncast(r.value).func.value) == params[0] for r in rets)
        if not delegated:
            return False
        if not method_returns_int(ts, name):
            return False
        if name in DURATION_ACCESSORS and not method_returns_int(dur, name):
            return False
    return True


def new_returns_self(clsname: str, cls: ast.ClassDef) -> bool:
    ms = class_methods(cls)
    if "__new__" not in ms:
        return True                      # the native base's __new__ builds an instance of the subclass
    fn = ms["__new__"]
    if not isinstance(fn, ast.FunctionDef):
        return False
    params = [a.arg for a in fn.args.args]
    clsparam = params[0]
    selfvars = set()

    def builds_self(e) -> bool:
        e = uncast(e)
        if isinstance(e, ast.Call):
            f = e.func
            # super().__new__(cls, …)
            if isinstance(f, ast.Attribute) and f.attr == "__new__" and ast.unparse(f.value) == "super()" \
                    and e.args and ast.unparse(e.args[0]) == clsparam:
                return True
            # x.replace(…) on something that is already an instance
            if isinstance(f, ast.Attribute) and f.attr == "replace" and isinstance(f.value, ast.Name) and f.value.id in selfvars:
                return True
        if isinstance(e, ast.Name) and e.id in selfvars:
            return True
        return False
    guarded = set()
    for node in ast.walk(fn):
        if isinstance(node, (ast.Assign, ast.AnnAssign)):
            tgt = node.targets[0] if isinstance(node, ast.Assign) else node.target
            if isinstance(tgt, ast.Name) and node.value is not None and builds_self(node.value):
                selfvars.add(tgt.id)
        if isinstance(node, ast.If):
            t = node.test
            if isinstance(t, ast.Call) and ast.unparse(t.func) == "isinstance" and len(t.args) == 2 \
                    and short(ast.unparse(t.args[1])) == clsname and isinstance(t.args[0], ast.Name):
                for st in node.body:
                    if isinstance(st, ast.Return) and ast.unparse(uncast(st.value)) == t.args[0].id:
                        guarded.add(id(st))
    for r in all_returns(fn):
        if id(r) in guarded:
            continue
        if r.value is None or not builds_self(r.value):
            return False
    return True


def type_type_shape(cls: ast.ClassDef) -> bool:
    """`if type(instance) is type: return typ` ; `return type(instance)`"""
    fn = class_methods(cls).get("__new__")
    if not isinstance(fn, ast.FunctionDef):
        return False
    params = [a.arg for a in fn.args.args]
    if len(params) != 2:
        return False
    typ, inst = params
    body = body_of(fn)
    return (len(body) == 2 and isinstance(body[0], ast.If) and ast.unparse(body[0].test) == f"type({inst}) is type"
            and len(body[0].body) == 1 and isinstance(body[0].body[0], ast.Return) and ast.unparse(body[0].body[0].value) == typ
            and not body[0].orelse and isinstance(body[1], ast.Return) and ast.unparse(body[1].value) == f"type({inst})")


def gen_resultcls() -> str:
    m = parse("src/celpy/celtypes.py")
    ev = parse("src/celpy/evaluation.py")
    out = [HEADER.format(src="src/celpy/celtypes.py (arithmetic dunders, constructors, TypeType), src/celpy/evaluation.py (result wrapping, base_functions)"),
           "import Cel.Model.Typing\nnamespace Cel.Gen\nopen Cel\n"]
    rows = []
    for clsname, tag in WRAPPERS:
        if tag == "type":
            continue
        cls = find_class(m, clsname)
        for pyname, op in AR:
            for refl in (False, True):
                if op == "neg" and refl:
                    continue
                dunder = f"__{'r' if refl else ''}{pyname}__"
                kind, classes = classify_arith(clsname, cls, dunder)
                if kind == "inherit":
                    continue
                if kind == "raises":
                    rows.append(f"  | .{tag}, .{op}, {lean_bool(refl)} => .raises")
                else:
                    rows.append(f"  | .{tag}, .{op}, {lean_bool(refl)} => .returns [" + ", ".join("." + c for c in classes) + "]")
    out.append("def resTable : ResTable\n" + "\n".join(rows) + "\n  | _, _, _ => .inherit\n")
    # wrapping of results in evaluation.py
    _, rel_wraps = extract_boolean(ev)
    evcls = find_class(ev, "Evaluator")
    spec = [
        rel_wraps,
        returns_built_by(find_func(ev.body, "operator_in"), "BoolType"),
        returns_built_by(find_func(evcls.body, "macro_has_eval"), "BoolType", passthrough_ok=False),
        has_template_wraps(ev),
        all(returns_built_by(find_func(ev.body, f), "BoolType", passthrough_ok=False)
            for f in ("function_startsWith", "function_endsWith", "function_contains", "function_matches")),
        returns_built_by(find_func(ev.body, "function_size"), "IntType", passthrough_ok=False),
        interp_macros_wrap(ev),
        all(returns_built_by(find_func(ev.body, f), "BoolType", passthrough_ok=False)
            for f in ("macro_all", "macro_exists", "macro_exists_one")),
        all(returns_built_by(find_func(m.body, f), "BoolType") for f in ("logical_and", "logical_or", "logical_not")),
        list_results_wrap(ev),
        accessors_wrap(m, ev),
    ]
    out.append("def wrapSpec : WrapSpec := ⟨" + ", ".join(lean_bool(b) for b in spec) + "⟩\n")
    # base_functions: conversion and type names
    base = None
    for st in ev.body:
        tgt = st.target if isinstance(st, ast.AnnAssign) else (st.targets[0] if isinstance(st, ast.Assign) else None)
        if tgt is not None and ast.unparse(tgt) == "base_functions" and isinstance(st.value, ast.Dict):
            base = {ast.literal_eval(k): ast.unparse(v) for k, v in zip(st.value.keys, st.value.values)}
    if base is None:
        raise TranslationError("base_functions not found")
    conv = []
    for name in sorted(base):
        v = base[name]
        c = "NoneType" if v == "type(None)" else short(v)
        if v.startswith("celpy.celtypes.") or v == "type(None)":
            if c == "TypeType":
                if name != "type":
                    raise TranslationError(f"base_functions[{name!r}] is TypeType")
                continue
            if c in CLS_TAG:
                conv.append(f"({lean_str(name)}, .{CLS_TAG[c]})")
    out.append("def convTable : List (String × Cls) := " + lean_list(conv))
    tt = base.get("type")
    out.append(f"def typeFunctionIsTypeType : Bool := {lean_bool(tt == 'celpy.celtypes.TypeType')}")
    out.append("def typeNames : List (String × Cls) := convTable ++ [(\"type\", .type)]\n")
    news = []
    for clsname, tag in WRAPPERS:
        if tag == "type":
            continue
        news.append(f"({lean_str(tag)}, {lean_bool(new_returns_self(clsname, find_class(m, clsname)))})")
    out.append("/-- every `return` of the wrapper's `__new__` is `super().__new__(cls, …)` (or an argument already known to be an instance) -/")
    out.append("def newReturnsSelf : List (String × Bool) := " + lean_list(news))
    out.append(f"def typeTypeShape : Bool := {lean_bool(type_type_shape(find_class(m, 'TypeType')))}")
    out.append("\nend Cel.Gen\n")
    return "\n".join(out)


GENERATORS = {"ResultCls": gen_resultcls}
